"""C12 - parallel_for covers each index exactly once.

E1  TLC, exhaustive over INPUTS on the transcribed algorithm (spec/parfor/Chunking, Stripe, ParFor):
    every (start, end) of a reduced W-bit signed/unsigned index type, with the cursor type either
    the index type itself (the 64-bit case, wrap reachable) or wider (8/16/32-bit case), every
    chunking mode, pool size / maxThreads, wait, minItemsPerChunk, granularity: the body invocations
    are an exact partition of [start, end), no arithmetic error, no claim after exhaustion.
    TLC, exhaustive over SCHEDULES: StripeWorkers.tla (runStripeWorker loops, one action per atomic
    access group) and DynWorkers.tla (shared chunk index, single and multi group) - every
    interleaving of up to 4 claimers: disjoint in every state, complete at exit, and equal to the
    sequential closure used by the input-exhaustive model.
    Negative controls: the same models with the pre-fix claim (unconditional fetch_add) must fail.
E5  the real dispenso::parallel_for on int8/uint8 ranges (exhaustive in thorough), edge-biased
    16/32/64-bit ranges (touching min/max), all chunking modes / options / pool sizes 0..20 /
    TaskSet + ConcurrentTaskSet / nested calls; the body records its chunk; the index-form overloads
    f(i) / f(state, i) with mixed-width start / end types (per-index visit counts); TLC validates one step
    per call: observed invocations = ParForOutcome(input) (equality), partition, all returned.
"""
import os

import parfor_common as pc

WHAT = 'parallel_for covers each index exactly once'


def run(ctx):
    thorough = ctx.tier == 'thorough'
    exe = pc.build_parfor(ctx)
    bg = pc.Background(ctx, exe, WHAT)
    # 'mixed': the index-form overloads f(i) / f(state, i) with start and end of different integer widths, ranges
    # that pass the maximum of the narrower type (every index of the common type must reach the body exactly once)
    for suite in ('i8', 'wide', 'nest', 'multi', 'mixed'):
        bg.start(suite)

    # E1 inputs ---------------------------------------------------------------------------------
    if thorough:
        pc.model(ctx, 'MCParFor.tla', 'MC_c12_w6.cfg', WHAT, 'all ranges of 6-bit types x options')
        pc.model(ctx, 'MCParFor.tla', 'MC_c12_w6_opts.cfg', WHAT, 'edge ranges of 6-bit types x all options')
        pc.model(ctx, 'MCParFor.tla', 'MC_c12_w8.cfg', WHAT, 'all ranges of 8-bit types')
    else:
        pc.model(ctx, 'MCParFor.tla', 'MC_c12_quick_ranges.cfg', WHAT, 'all ranges of 5-bit types')
        pc.model(ctx, 'MCParFor.tla', 'MC_c12_quick_opts.cfg', WHAT, 'edge ranges of 6-bit types x options')
    # E1 schedules ------------------------------------------------------------------------------
    # (the worker state machines have several actions: coverage-based vacuity check in thorough, on the small cfgs)
    pc.model(ctx, 'StripeWorkers.tla', 'MC_workers_quick.cfg', WHAT, 'stripe claims, every interleaving (1..3 workers)',
             coverage=thorough, min_states=1000)
    pc.model(ctx, 'DynWorkers.tla', 'MC_dyn_quick.cfg', WHAT, 'dynamic index claims, every interleaving',
             coverage=thorough, min_states=1000)
    if thorough:
        pc.model(ctx, 'StripeWorkers.tla', 'MC_workers_thorough.cfg', WHAT,
                 'stripe claims, every interleaving (1..3 workers, larger)', min_states=1000)
        pc.model(ctx, 'StripeWorkers.tla', 'MC_workers_4.cfg', WHAT, 'stripe claims, every interleaving (4 workers)',
                 min_states=1000)
        pc.model(ctx, 'DynWorkers.tla', 'MC_dyn_thorough.cfg', WHAT, 'dynamic index claims (up to 5 + caller)',
                 min_states=1000)
    # negative controls -------------------------------------------------------------------------
    pc.negative_control(ctx, 'MCParFor.tla', 'MC_neg_cursor.cfg',
                        'fetch_add stripe cursor wraps when the range ends near the maximum of a 64-bit type')
    if thorough:
        pc.negative_control(ctx, 'MCParFor.tla', 'MC_neg_chunkcast.cfg',
                            'chunk size above the maximum of a narrow signed index type')
        pc.negative_control(ctx, 'StripeWorkers.tla', 'MC_neg_workers.cfg',
                            'fetch_add stripe cursor, interleaved workers')

    # E5 ----------------------------------------------------------------------------------------
    done = bg.join()
    if not thorough:
        # one TLC start instead of three
        allp = os.path.join(ctx.work, 'all.ndjson')
        with open(allp, 'w') as f:
            for suite, tr, tot in done:
                f.write(open(tr).read())
        done = [('i8+wide+nest+multi+mixed', allp, {'completed': sum(t.get('completed', 0) for _, _, t in done)})]
    for suite, tr, tot in done:
        ctx.validate(pc.SPEC, 'ParForTrace.tla', 'ParForTrace_C12.cfg', tr, WHAT,
                     executions=tot.get('completed', 0), label='records ' + suite, timeout=2400)
        ctx.sample_trace(tr, 2, skip=900)
    ctx.assumptions += [
        'count arithmetic (ssize_t / size_type: items, chunks, chunk sizes) does not overflow 64 bits: range sizes below 2^62',
        'signed 64-bit ranges are no longer than INT64_MAX (ChunkedRange documents this limit)',
        'reduced-width index types (5/6/8 bit) stand for the 8..64-bit types; the wide cursor type is modelled either as the index type (64-bit case) or as a type that never wraps',
        'real 32/64-bit positions are validated in a window of the type around the range (start mapped to a representative with the same sign and residue modulo the granularity); 8/16-bit types are exact',
        'TLA+ interleaving semantics are sequentially consistent (weak memory is C10); pickStripeFromMasks is over-approximated by "any stripe whose has-work bit is set"',
        'TLC, the JSON/IOUtils community modules and g++ are trusted',
    ]
