"""C46 - inline task execution never grows the stack without bound.

E1  TLC on spec/taskset/InlineDepth.tla: a chain of n links under the inline policy of every path that
    runs scheduled work from inside scheduling / completion code (ThreadPool::schedule, TaskSet,
    ConcurrentTaskSet, serial pipeline stage, graph executor, Future::then on the ImmediateInvoker,
    Future::wait on an unstarted continuation), with the chain length as the GROWING parameter
    (n = 1..Bound+3 at a fixed depth limit): nest <= Bound.  One run with -continue lists every
    violating scenario; the set must be exactly the open findings + the negative control (the pool's
    load-based inline path without the depth guard).
    spec/taskset/Invoke.tla (C16) carries the same guard counter: DepthBounded there.
E5  the real library with long chains (n = 2500 and 4n = 10^4: `then` continuations on the
    ImmediateInvoker and on a saturated pool, get() from the tail, serial pipelines, graph chain / comb,
    recursive ConcurrentTaskSet / TaskSet / ThreadPool scheduling under overload with load multiplier 1)
    on threads with 256 KB stacks (RLIMIT_STACK; pool workers included); one observation record per
    scenario (crash, completed, deepest nesting of body entries, deepest InlineDepthGuard depth
    reported by the library hooks, deepest stack use), validated by TLC (InlineDepthObs.tla):
    nesting <= kMaxInlineDepth + 8 for n AND 4n, guard <= kMaxInlineDepth + 1, stack <= 160 KB.
    The depth limit is a property of every STATE of the scheduling object, not only of the fault-free one:
    pipeline_serial_fault_{p1,p2,open_p3} record an exception in the pipeline's task set (a stage throws)
    while a serial stage is in the middle of a run of inline continuations with a large backlog that nobody
    discards (the caller of pipeline() runs the chain itself / is inside a slow stage call / is parked in the
    open generator's completion wait); model kind `pipeexc`.  cts_recursive_{heavy,light}_fault_p1: a sibling task
    throws while a recursive chain on a ConcurrentTaskSet is 10 links deep and the pool stays over its load factor
    (the chain must end there: a cancelled set drops work).  The record says whether the fault was placed (inj); a
    run in which it was not says nothing and is repeated.
"""
import json
import os
import re

import vlib

SPEC = 'spec/taskset'
WHAT = 'dispenso-initiated inline execution nests to a depth independent of the number of tasks / items / continuations / nodes'

# scenario -> (kind, pool threads) of the model
MODEL = {
    'then_immediate': ('immediate', 1), 'then_get_tail': ('futwait', 1), 'then_pool_saturated': ('pool', 1),
    'pipeline_serial_p1': ('pipe', 1), 'pipeline_serial_p2': ('pipe', 2), 'pipeline_serial_p0': ('graph', 0),
    'pipeline_serial_fault_p1': ('pipeexc', 1), 'pipeline_serial_fault_p2': ('pipeexc', 2), 'pipeline_serial_fault_open_p3': ('pipeexc', 2),
    'graph_chain_p2': ('graph', 2), 'graph_comb_p1': ('cts', 1), 'graph_comb_p0': ('cts', 0),
    'cts_recursive_heavy_fault_p1': ('cts', 1), 'cts_recursive_light_fault_p1': ('cts', 1),
    'cts_recursive_heavy_p1': ('cts', 1), 'cts_recursive_light_p1': ('cts', 1), 'cts_recursive_heavy_p0': ('cts', 0),
    'ts_recursive_p1': ('ts', 1), 'pool_recursive_p1': ('pool', 1), 'pool_recursive_p0': ('pool', 0),
    'pool_bulk_recursive_p1': ('pool', 1),
}
# what the model of the code as it is (with the repair of the pool / TaskSet paths) is expected to say
EXPECTED_UNBOUNDED = {('immediate', 1), ('futwait', 1), ('pool', 0), ('ts', 0), ('cts', 0)}
NEGATIVE_CONTROL = ('poolorig', 1)


def observe(ctx, exe, n, violators):
    """E5: one driver run with chain lengths n and 4n, records validated by TLC"""
    rec = os.path.join(ctx.work, 'inline_%d.ndjson' % n)
    for attempt in (0, 1):
        tot, out = ctx.driver(exe, ['--out', rec, '--n', n, '--timeout', 120], WHAT, label='long chains on 256 KB stacks (n=%d, 4n)' % n,
                              timeout=1500, report=(attempt == 1))
        res = ctx.validate(SPEC, 'InlineDepthObs.tla', 'InlineDepthObs.cfg', rec, WHAT, executions=tot.get('completed', 0),
                           label='observation records', report=(attempt == 1))
        not_placed = sorted(set(re.findall(r'<<"FAULT_NOT_PLACED", "(\w+)">>', res.out)))
        if tot and not res.violation and not not_placed:
            break
    records = {}
    for line in open(rec):
        r = json.loads(line)
        if r.get('e') == 'Obs':
            records[r['sc']] = r
    ctx.sample({'records': [dict((k, r[k]) for k in ('sc', 'n1', 'n2', 'crash1', 'crash2', 'nest1', 'nest2', 'guard1', 'guard2', 'sb1', 'sb2'))
                            for r in list(records.values())[:16]]})
    faults = dict((sc, r) for sc, r in records.items() if '_fault_' in sc)
    ctx.cov['faults_placed'] = dict((sc, {'placed': [r['inj1'], r['inj2']], 'backlog_at_fault': [r['left1'], r['left2']],
                                          'crash': [r['crash1'], r['crash2']]}) for sc, r in sorted(faults.items()))
    if not_placed and not res.violation:
        # within the bound, but the exception was not recorded mid-chain in two driver runs: the run is vacuous for the
        # faulted state (never seen on an idle or loaded box; every wait of the scenario is a handshake with a time-out)
        raise vlib.ToolError('fault scenarios did not reach the state they are for (exception recorded mid-chain, backlog >= n/3): %s' % not_placed)
    unbounded = set(re.findall(r'<<"UNBOUNDED", "(\w+)">>', res.out))
    ctx.cov['observed_unbounded'] = sorted(unbounded)
    for sc in sorted(unbounded):
        r = records.get(sc, {})
        path = ctx.save_replay('%s-%s.txt' % (ctx.prop, sc), 'scenario %s (harness/drv/drv_inline.cpp) on 256 KB stacks\n%s\n' % (
            sc, json.dumps(r, indent=1)))
        model = MODEL.get(sc)
        if model in violators:
            # the model of the code says so too: the documented open finding
            ctx.violation('unguarded:%s' % sc, WHAT + ': %s nests once per link (model %s/p%d and real run: crash=%s/%s nest=%s/%s stack=%s/%s bytes)' % (
                sc, model[0], model[1], r.get('crash1'), r.get('crash2'), r.get('nest1'), r.get('nest2'), r.get('sb1'), r.get('sb2')), path)
        else:
            # (when the validator's invariant has fired this names the scenario and the numbers of the same finding)
            ctx.violation('records:%s' % sc, WHAT + ': %s out of bound on the real code%s (n=%s/%s: crash=%s/%s signal=%s/%s nest=%s/%s guard=%s/%s stack=%s/%s bytes)' % (
                sc, ' - a serial pipeline stage keeps running its backlog as nested inline continuations after a stage has thrown' if '_fault_' in sc else '',
                r.get('n1'), r.get('n2'), r.get('crash1'), r.get('crash2'), r.get('sig1'), r.get('sig2'), r.get('nest1'), r.get('nest2'),
                r.get('guard1'), r.get('guard2'), r.get('sb1'), r.get('sb2')), path)


def run(ctx):
    thorough = ctx.tier == 'thorough'
    exe = ctx.build('drv_inline', ['harness/drv/drv_inline.cpp'], dispenso=vlib.DISPENSO_SRCS)

    # E1 ------------------------------------------------------------------------------------------
    res = ctx.tlc(SPEC, 'MCInlineDepth.tla', 'MC_depth_all.cfg', workers=4, extra=['-noGenerateSpecTE', '-continue'],
                  label='chains of length 1..8 at depth limit 3 under every inline policy (nest <= 5); -continue lists the violating scenarios')
    if res.violation not in (None, 'Invariant NestBounded'):
        path = ctx.save_replay('%s-model.txt' % ctx.prop, res.counterexample())
        ctx.violation('model:MCInlineDepth:' + res.violation, WHAT + ': ' + res.violation, path)
    violators = set((m.group(1), int(m.group(2))) for m in
                    re.finditer(r'conf = \[kind \|-> "(\w+)", nw \|-> (\d+), n \|-> \d+\]', res.out))
    if NEGATIVE_CONTROL not in violators:
        raise vlib.ToolError('negative control did not fail: the unguarded pool path is bounded in the model')
    unexpected = violators - EXPECTED_UNBOUNDED - {NEGATIVE_CONTROL}
    if unexpected:
        path = ctx.save_replay('%s-model.txt' % ctx.prop, 'unbounded in the model: %s\n\n%s' % (sorted(unexpected), res.counterexample()))
        ctx.violation('model:MCInlineDepth:NestBounded', WHAT + ': unbounded in the model: %s' % sorted(unexpected), path)
    ctx.cov['model_unbounded'] = sorted('%s/p%d' % v for v in violators)

    # E5 ------------------------------------------------------------------------------------------
    for n in ((2500, 10000) if thorough else (2500,)):
        observe(ctx, exe, n, violators)
    ctx.assumptions += [
        'worst case for the load-based decisions: the overload condition holds for the whole chain (the drivers keep the pool / set over its load factor)',
        'nesting is measured from the stack pointers of body entries (over-counts by a few stale entries: slack 8), stack use at body entries',
        'x86-64 Linux, g++ -O1, 256 KB stacks for every thread (RLIMIT_STACK before exec)',
        'ThreadPool::scheduleBulk\'s own load-based inline loop is sequential per call and not modelled as a chain',
        'faulted state: one fault per run (a sink call throws), placed by handshakes while a call of the serial stage nested 3..20 deep is held; '
        'exceptions raised in other states of the chain (at a segment boundary the continuation is dropped by the cancelled set) are not chain scenarios',
    ]
