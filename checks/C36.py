"""C36 - ChaseLevDeque delivers each element exactly once (one owner, any number of stealers).

E1  TLC, exhaustive, on the implementation-level spec spec/chaselev/ChaseLev.tla (one action per
    atomic access and per seq_cst fence of try_push/try_pop/try_pop_into/try_steal/try_steal_into/
    empty/size): Bounded, AbsMatches, ExactlyOnce, OrderOK (pop = newest, steal = oldest at the
    linearisation point), OwnerExact, QuiescentExact, ResultsMatch, ObserversInRange,
    QuiescentAccounting in every state of every interleaving; the last-element pop-vs-steal race
    in isolation (capacity 1 and 2), 4 owner operations x 3 stealers, and ALL owner histories of
    length L (quick 2, thorough 3-4) over {push,pop,popinto,steal,size} against 1..3 stealers.
E2  every transition of the cover configuration's state graph (push until full, wrap-around, pop
    of several/last/no element, last-element pop-vs-steal race, racing and quiescent emptiness) is
    replayed in the real ChaseLevDeque<int,2> under the controlled scheduler ...
E3  ... and the recorded trace (action, thread, returned value, top/bottom/slot bits after every
    step) is validated by TLC against the spec (ChaseLevTrace.tla), all invariants on.
E4  random controlled schedules (uniform and PCT) of random contract-respecting programs
    (1 owner + 1..3 stealers) for Capacity 1, 2, 4.
E5  free-running rounds (drv_chaselev --stress: real threads, no controlled scheduler, the hooks
    are inert): one owner (random push/pop/pop_into mix, now and then steal/size/empty) against 1..3
    spinning stealers on ChaseLevDeque<int, 1|2|4|8> objects that live across the rounds, start
    barrier + random spin offsets, profiles "nearly empty" (last-element pop-vs-steal race), "nearly
    full" (wrap-around, rejected pushes) and mixed; one observation record per round (what every
    call returned, per thread in program order, + size()/empty()/a quiescent drain at the end),
    validated by TLC against spec/chaselev/ChaseLevObs.tla (exactly once, steals increasing per
    thread, the owner's LIFO view, observers <= capacity, quiescent accounting).  E2-E4 execute
    everything between two hook points atomically; E5 is the engine that sees a race INSIDE a step.
"""
import os

SPEC = 'spec/chaselev'
WHAT = 'ChaseLevDeque exactly-once work-stealing deque'
# the machine is shared: keep the JVM from starting one GC/JIT thread per core
JOPTS = ('-XX:ParallelGCThreads=2', '-XX:CICompilerCount=2')
COVER_PROG = 'o:push1,push2,push3,pop,popinto,empty;s1:stealinto,steal'


def run(ctx):
    thorough = ctx.tier == 'thorough'
    exe = ctx.build('drv_chaselev', ['harness/drv/drv_chaselev.cpp', 'harness/ctl/ctl.cpp'])

    # E1 -------------------------------------------------------------------------------------
    dot = os.path.join(ctx.work, 'cover.dot')
    ctx.check_model(SPEC, 'MCChaseLev.tla', 'MC_cover.cfg', WHAT, dump=dot, workers=4, java_opts=JOPTS,
                    label='cover: owner 6 ops + 1 stealer (2 ops), capacity 2')
    ctx.check_model(SPEC, 'MCChaseLev.tla', 'MC_suite.cfg', WHAT, workers=4, java_opts=JOPTS, vacuity_exempt=('Init',),
                    label='suite: last-element race (capacity 1,2) + owner 4 ops x 3 stealers + all owner '
                          'histories of length 2 x 2 stealers (1 op each), capacity 1,2')
    if thorough:
        ctx.check_model(SPEC, 'MCChaseLev.tla', 'MC_full.cfg', WHAT, workers=4, java_opts=JOPTS,
                        label='owner 6 ops (incl. own steal) x 2 stealers, capacity 2')
        for cfg, lab in (('MC_all3_two.cfg', 'all owner histories of length 3 x 2 stealers, capacity 1,2'),
                         ('MC_all3_one.cfg', 'all owner histories of length 3 x 1 stealer (3 ops), capacity 4'),
                         ('MC_all3_three.cfg', 'all owner histories of length 3 x 3 stealers, capacity 2'),
                         ('MC_all4_pair.cfg', 'all owner histories of length 4 x 1 stealer (2 ops), capacity 1,2')):
            ctx.check_model(SPEC, 'MCChaseLev.tla', cfg, WHAT, workers=4, java_opts=JOPTS, vacuity_exempt=('Init', 'ObsLdBot', 'ObsLdTop'),
                            label=lab, timeout=1100, heap='16g')

    # E2 + E4, then one E3 run over everything recorded -----------------------------------------
    sched = os.path.join(ctx.work, 'cover.sched')
    info = ctx.walker(dot, sched)
    ctx.cov['cover_graph'] = info
    parts = []
    tr = os.path.join(ctx.work, 'cover.ndjson')
    tot, _ = ctx.driver(exe, ['--out', tr, '--cap', 2, '--prog', COVER_PROG, '--schedules', sched],
                        WHAT, label='cover replay')
    execs = tot.get('completed', 0)
    parts.append(tr)
    ctx.sample_trace(tr, 14)
    n = 3000 if thorough else 300
    for pct in (0, 3):
        tr = os.path.join(ctx.work, 'rand_p%d.ndjson' % pct)
        tot, _ = ctx.driver(exe, ['--out', tr, '--cap', 'mix', '--random', n, '--seed', ctx.seed + 7 * pct,
                                  '--randprog', '--pct', pct], WHAT, label='random mix pct%d' % pct)
        execs += tot.get('completed', 0)
        parts.append(tr)
    ctx.sample_trace(tr, 10)
    # executions are separated by Reset lines, so the traces concatenate (one JVM start)
    alltr = os.path.join(ctx.work, 'all.ndjson')
    with open(alltr, 'w') as out:
        for p in parts:
            with open(p) as f:
                out.write(f.read())
    ctx.validate(SPEC, 'ChaseLevTrace.tla', 'ChaseLevTrace.cfg', alltr, WHAT, executions=execs,
                 label='cover replay + random pct0 + random pct3', timeout=1100)
    # E5: free-running rounds (real threads, inert hooks): races INSIDE a step of the specification -----
    stress = os.path.join(ctx.work, 'stress.ndjson')
    rounds = 300000 if thorough else 20000
    tot, _ = ctx.driver(exe, ['--out', stress, '--stress', rounds, '--seed', ctx.seed], WHAT,
                        label='free-running owner vs 1..3 stealers, capacity 1,2,4,8', allow_incomplete=True,
                        timeout=1500)
    ctx.validate(SPEC, 'ChaseLevObs.tla', 'ChaseLevObs.cfg', stress, WHAT, executions=tot.get('completed', 0),
                 label='free-running rounds: exactly once, steal order, owner LIFO view, quiescent accounting',
                 timeout=1500)
    ctx.cov['free_running_rounds'] = tot.get('executions', 0)
    ctx.sample_trace(stress, 4)
    ctx.assumptions += [
        'free-running rounds (E5) observe only what the public API returned, per thread in program order '
        '(accepted pushes, popped/stolen values, size()/empty(), a quiescent drain); no order between operations '
        'of different threads is recorded; a round that does not end within 10 s of wall clock counts as stuck; '
        'the memory model exercised is that of the host (x86-64 TSO)',
        'TLA+ interleaving semantics are sequentially consistent: the two seq_cst fences are schedule points '
        'but have no effect in the model (weak-memory effects are C10)',
        'contract (R1): only one thread (the owner) pushes and pops; any thread steals and observes',
        'the element type is trivially copyable (int): there are no element constructors/destructors to balance',
        'slot reads/writes between two schedule points are atomic w.r.t. other threads only under the controlled scheduler',
        'TLC, the JSON/IOUtils community modules and g++ are trusted',
    ]
