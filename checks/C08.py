"""C08 - pool work accounting (workRemaining_) returns to zero at quiescence."""
import random
import pool_common as pc
from C01 import VAC
WHAT = 'workRemaining_ is zero whenever all submitted work is done and every worker is parked'


def run(ctx):
    thorough = ctx.tier == 'thorough'
    ctx.check_model(pc.SPEC, 'MCPool.tla', 'MC_q2_c08.cfg', WHAT, label='ring submission, then a resize that may drain the ring itself',
                    workers=6, required=('RbPushRing', 'TpRzDrainRing', 'TpDecWorkRz', 'GateQuiet', 'TpWkFlushFinal'), timeout=900)
    if thorough:
        ctx.check_model(pc.SPEC, 'MCPool.tla', 'MC_q_c08.cfg', WHAT, label='2 workers, 2 ring tasks, shrinking resize', workers=12,
                        required=('RbPushRing', 'TpRzDrainRing', 'TpDecWorkRz', 'GateQuiet', 'TpWkFlushFinal'), timeout=3000, heap='16g')
    exe = pc.build(ctx, 2)
    progs = ['main:new2,idle,rbulk1.2,quiet,pfq3,placed4,quiet,del', 'main:new2,rbulk1.2,resize1,quiet,rbulk3.1,resize2,quiet,del', 'main:new2,fq1,bulk2.2,quiet,sched4,quiet,del',
             'main:new3,rbulk1.3,quiet,resize1,fq4,quiet,resize2,rbulk5.2,quiet,del',
             'main:new2,up,rbulk1.2,sync,quiet,del;p2:up,resize2,resize0,resize2',
             'main:new2,up,resize1,resize2,resize1,sync,quiet,del;p2:up,fq1,fq2,sched3,fq4',
             # placed tasks parked in another group's steal ring while ring-sticky workers spin: the cross-ring steal branch
             # of tryFindAndExecuteWork (runs the task and accounts for it through the worker's batch)
             'main:new3,rbulk1.3,quiet,pfq4,pfq5,pfq6,quiet,del', 'main:new3,rbulk1.3,quiet,pfq4,pfq5,pfq6,quiet,rbulk7.3,quiet,placed10,pfq11,quiet,del']
    if thorough:
        progs += ['main:new2,wake0,fq1,bulk2.2,quiet,wake1,rbulk4.2,quiet,del', 'main:new1,rbulk1.1,fq2,quiet,del',
                  'main:new3,up,rbulk1.3,sync,quiet,del;p2:up,resize1,resize3']
    n = 25 if thorough else 6
    tr = None
    for i, p in enumerate(progs):
        # programs in which a second driver races the resizer get more schedules: the window between a producer's
        # workRemaining_ increment and the resizer's republication steps is narrow
        tr = pc.validate_prog(ctx, exe, 2, p, WHAT, n * 4 if (';' in p or 'pfq6' in p) else n, ctx.seed + i, mult=32, pct=(3 if i % 2 else 0))
    ctx.sample({'programs': progs})
    pc.stress(ctx, WHAT, 4000 if thorough else 400, 8)
    ctx.sample_trace(tr, 12, skip=80)
    ctx.assumptions += pc.ASSUME + ['quiescence = GateQuiet: every submitted task ran and every live worker is blocked in the futex '
                                    '(so no worker holds an unflushed localWorkDone)']
