"""C16 - parallel_invoke runs each functor exactly once, the last one on the caller.

E1  TLC on spec/taskset/Invoke.tla: functor trees of arity 1..4 and recursion depth <= 4 on one shared
    ConcurrentTaskSet (divide and conquer), pools of 0..2 threads, load multiplier 1 (inline fallback
    reached), heavy and lightweight cost, small kMaxInlineDepth (depth limit reached): per-functor
    invocation count = 1, last functor invoked by the caller's thread and finished before
    parallel_invoke returns and never handed to the pool, everything finished when wait() returns.
E4  the same trees + seeded random trees + a 40-level chain (real kMaxInlineDepth = 32 reached) on
    the real parallel_invoke / ConcurrentTaskSet / ThreadPool under the controlled scheduler,
E3  every step validated by TLC against InvokeTrace.tla (functor ids + thread of every begin/end,
    the PiSchedule decision, the InlineDepthGuard depth, the outstanding count after every step).
"""
import json
import os
import random

import pool_common
import vlib

SPEC = 'spec/taskset'
WHAT = 'parallel_invoke runs each functor exactly once, the last one on the calling thread'
TAGS = ('begin', 'end', 'call', 'ret')

# MCInvoke.tla T1..T7
LIBRARY = ['1,2,3;;;', '1,2;3,4;5,6;;;;', '1,2;3,4;;5,6;;;', '1,2,3,4;5,6;;;;;', '1;2,3;;4;',
           '1,2;3,4;;5,6;;7,8;;;', '1,2,3;;4,5,6;;;;7,8;;']


def deep_chain(n):
    kids = [[] for _ in range(2 * n + 1)]
    kids[0] = [1, 2]
    for l in range(1, n):
        kids[2 * l - 1] = [2 * l + 1, 2 * l + 2]
    return ';'.join(','.join(map(str, k)) for k in kids)


def gen_tree(rng, max_funs=14):
    kids = [[]]

    def grow(k, depth):
        if depth > 3 or len(kids) > max_funs:
            return
        ar = rng.choice([1, 2, 2, 3, 4]) if depth == 1 else rng.choice([0, 0, 1, 2, 2, 3])
        ids = []
        for _ in range(ar):
            kids.append([])
            ids.append(len(kids) - 1)
        kids[k] = ids
        for c in ids:
            if rng.random() < 0.6:
                grow(c, depth + 1)
    grow(0, 1)
    return ';'.join(','.join(map(str, k)) for k in kids)


def normalise(src, dst):
    info = {'lines': 0, 'executions': 0, 'ended': 0, 'stalled': 0, 'inline': 0, 'queued': 0, 'maxguard': 0}
    with open(dst, 'w') as out:
        skipping = False
        for line in open(src):
            try:
                ev = json.loads(line)
            except ValueError:
                break  # truncated last line: the driver died (reported by ctx.driver)
            e = ev.get('e')
            if e in ('Stalled', 'Deadlock'):
                if not skipping:  # (a Deadlock during tear-down is the controller's join race)
                    info['stalled'] += 1
                    out.write(json.dumps({'e': e}) + '\n')
                continue
            if e in ('Header', 'Reset', 'End'):
                if e == 'Reset':
                    skipping = False
                    info['executions'] += 1
                if e == 'End':
                    info['ended'] += 1
                out.write(json.dumps(ev, separators=(',', ':')) + '\n')
                continue
            if skipping:
                continue
            rs = [r for r in ev.get('r', []) if isinstance(r, list) and r]
            notes = [r for r in rs if r[0] in TAGS]
            g = [r[1] for r in rs if r[0] == 'InlGuard']
            base = {'e': e, 't': ev.get('t', ''), 's': ev.get('s', {'alive': 0}), 'g': g[0] if g else 0}
            if len(g) > 1 or len(notes) > 1:
                base['e'] = 'MULTI'  # more than one note / guard in one step: never matches a spec action
            if e == 'PiSchedule':
                info['inline' if notes else 'queued'] += 1
            info['maxguard'] = max(info['maxguard'], base['g'])
            out.write(json.dumps(dict(base, n=notes[0] if notes else []), separators=(',', ':')) + '\n')
            if notes and notes[0][0] == 'ret' and notes[0][1] == 2:
                skipping = True
    info['lines'] = sum(1 for _ in open(dst))
    return info


def run(ctx):
    thorough = ctx.tier == 'thorough'
    exe = ctx.build('drv_invoke', ['harness/drv/drv_invoke.cpp', 'harness/ctl/ctl.cpp'], dispenso=vlib.DISPENSO_SRCS,
                    flags=pool_common.TUNE + ['-DDISPENSO_TUNE_WAKE_GROUP_SIZE=2'])
    nogen = ['-noGenerateSpecTE']
    ctx.check_model(SPEC, 'MCInvoke.tla', 'MC_inv_thorough.cfg' if thorough else 'MC_inv_quick.cfg', WHAT, workers=4,
                    extra=nogen, vacuity_exempt=('Finished',), timeout=3000,
                    label='trees of arity 1..4, depth <= 4, pools 0..2, multiplier 1, heavy + lightweight, depth limits %s' % (
                        '1,2,32' if thorough else '1,2'))

    rng = random.Random(ctx.seed)
    trees = ['R=%d NW=0,1,2%s %s' % (4 if thorough else 2, ',3' if thorough else '', t) for t in LIBRARY]
    trees += ['R=%d NW=0,1 %s' % (4 if thorough else 2, deep_chain(40))]
    gen = [gen_tree(rng) for _ in range(40 if thorough else 8)]
    trees += ['R=%d NW=%s %s' % (4 if thorough else 2, rng.choice(['0,1', '1,2', '0,2', '1,3' if thorough else '1,2']), t) for t in gen]
    tf = os.path.join(ctx.work, 'trees.txt')
    open(tf, 'w').write('\n'.join(trees) + '\n')
    tr = None
    for attempt in (0, 1):
        final = attempt == 1
        raw = os.path.join(ctx.work, 'invoke_%d.raw.ndjson' % attempt)
        tr = os.path.join(ctx.work, 'invoke_%d.ndjson' % attempt)
        tot, out = ctx.driver(exe, ['--out', raw, '--trees', tf, '--seed', ctx.seed, '--pct', 3, '--mult', 1], WHAT,
                              label='parallel_invoke trees', allow_incomplete=True, report=final)
        if not os.path.exists(raw):
            continue
        info = normalise(raw, tr)
        os.remove(raw)
        ctx.cov.setdefault('batches', []).append(dict(info, attempt=attempt))
        res = ctx.validate(SPEC, 'InvokeTrace.tla', 'InvokeTrace.cfg', tr, WHAT, executions=info['ended'],
                           label='parallel_invoke trees', report=final)
        if not (res.violation or not tot or info['stalled']):
            if info['maxguard'] < 32 or not info['inline']:
                raise vlib.ToolError('vacuous run: inline fallback taken %d times, deepest guard %d (expected 32)' % (
                    info['inline'], info['maxguard']))
            break
    ctx.sample_trace(tr, 12, skip=20)
    ctx.sample({'random_trees': gen[:4]})
    ctx.assumptions += [
        'the pool is a bag of queued functors (who may take: idle workers and the thread inside wait()); pool internals are C01',
        'the schedule decision of ConcurrentTaskSet::schedule (outstanding count against the threshold, inline depth against '
        'kMaxInlineDepth) and its immediate effect are one step (hook site PiSchedule); skipRecheck = true as parallel_invoke passes it',
        'one shared ConcurrentTaskSet, functors do not wait themselves (the caller drives a single wait, as documented); no cancellation, no exceptions',
        'spin constants compiled small (pool_common.TUNE); sequentially consistent interleavings',
    ]
