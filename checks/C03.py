"""C03 - pool resize never loses, duplicates or strands work."""
import random
import pool_common as pc
from C01 import VAC
WHAT = 'resize() racing submissions never loses, duplicates or strands a task'


def run(ctx):
    thorough = ctx.tier == 'thorough'
    ctx.check_model(pc.SPEC, 'MCPool.tla', 'MC_q2_c08.cfg', WHAT, label='ring submission followed by a growing resize', workers=6,
                    required=('RbPushRing', 'TpRzDrainRing', 'TpRzStoreNumRings', 'TpRzJoined'), timeout=900)
    sims = [('MC_q2_c03.cfg', 'ring fast path racing a resize 1->2 (simulation)', 45)]
    if thorough:
        ctx.check_model(pc.SPEC, 'MCPool.tla', 'MC_q2_c03.cfg', WHAT, label='ring fast path racing a resize 1->2', workers=12,
                        required=('RbPushRing', 'TpRzDrainRing', 'TpRzStoreNumRings', 'TpRzJoined'), timeout=3000, heap='16g')
        sims = [('MC_c03.cfg', '3 workers: ring fast path racing resize 3->2 (simulation)', 600),
                ('MC_c08.cfg', '2 workers: ring fast path racing resize 2->1 (simulation)', 300)]
    for cfg, lab, secs in sims:
        r = ctx.tlc(pc.SPEC, 'MCPool.tla', cfg, workers=6, simulate=100000000, depth=600, timeout=secs, label=lab)
        if r.violation:
            path = ctx.save_replay('C03-sim.txt', r.counterexample())
            ctx.violation('model:%s:%s' % (cfg, r.violation), WHAT + ': ' + r.violation, path)
    exe = pc.build(ctx, 2)
    rng = random.Random(ctx.seed + 3)
    progs = ['main:new2,up,fq1,bulk2.2,sched4,sync,del;p2:up,resize1,resize3',
             'main:new3,up,rbulk1.3,fq4,sync,del;p2:up,resize2,resize0',
             'main:new2,up,resize0,resize2,resize1,sync,del;p2:up,fq1,sched2,bulk3.2,rbulk5.1']
    progs += pc.random_programs(rng, 8 if thorough else 1, ['fq', 'sched', 'bulk', 'rbulk'], resize=True)
    n = 25 if thorough else 6
    tr = None
    for i, p in enumerate(progs):
        tr = pc.validate_prog(ctx, exe, 2, p, WHAT, n, ctx.seed + i, mult=(1 if i % 2 else 32), pct=(3 if i % 3 == 1 else 0))
    ctx.sample({'programs': progs})
    pc.stress(ctx, WHAT, 4000 if thorough else 400, 3)
    ctx.sample_trace(tr, 12, skip=80)
    ctx.assumptions += pc.ASSUME + ['one resizer at a time; the destructor runs after every other call returned (documented contract)',
                                    'at pool level the ring fast path is driven through the same racy guard TaskSetBase uses; that every '
                                    'task-set wait() returns after such a race is checked with the real TaskSet in C02']
