"""C38 - SmallVector behaves like std::vector with aligned storage.

E1  TLC, exhaustive, on the sequential specification spec/seq/SmallVec.tla (one action per public
    operation, std::vector meaning, documented inline/heap storage rules D1-D6) for every inline
    capacity N in {1,2,4}: the complete transition graph of the canonical-state machine of one
    vector, of all two-object operations (copy/move construct/assign in every inline / heap /
    moved-from combination), and (thorough) all operation sequences up to a length bound.
E2  bin/walker.py turns that graph into call sequences covering EVERY transition; the driver
    executes each call on the real dispenso::SmallVector<T, N> for T = tracked int and
    T = alignas(64) tracked struct, under a conforming allocator whose blocks are aligned to
    exactly __STDCPP_DEFAULT_NEW_ALIGNMENT__ and never more.
E3  after every call the driver records contents (through begin()/end()), size(), capacity(),
    storage mode, the returned values, each element's address mod alignof(T), the number of
    live element objects in the vector's storage / anywhere, outstanding heap blocks and lifetime
    errors; TLC validates every line against the specification (SmallVecTrace.tla): contents, size
    and returned values exactly; capacity / storage mode against the documented rules only (a
    different growth factor is accepted, capacity < size or a heap block after clear() is not).
E4  seeded random legal call sequences (sizes up to 3N+4, unique values) validated the same way.
"""
import os

SPEC = 'spec/seq'
WHAT = 'SmallVector = std::vector + aligned storage + balanced lifetimes'
ACTIONS = ['CtorDefault', 'CtorCount', 'CtorFill', 'CtorInit', 'CopyCtor', 'MoveCtor', 'Destroy',
           'CopyAssign', 'MoveAssign', 'PushBackCopy', 'PushBackMove', 'EmplaceBack', 'PushBackSelf',
           'PopBack', 'Resize', 'ResizeFill', 'ResizeSelf', 'Reserve', 'Clear', 'Erase', 'SetAt',
           'At', 'FrontOp', 'BackOp', 'Size', 'Capacity', 'Empty', 'Iterate', 'CIterate', 'Data']
WRAP = ['-Wl,--wrap=malloc', '-Wl,--wrap=free']


def cat(dst, srcs):
    with open(dst, 'w') as out:
        for s in srcs:
            with open(s) as f:
                for line in f:
                    if line.endswith('\n'):   # a crashed driver may leave a partial last line
                        out.write(line)


def run(ctx):
    from vlib import ToolError
    thorough = ctx.tier == 'thorough'
    exe = ctx.build('drv_smallvec', ['harness/drv/drv_smallvec.cpp', 'harness/ctl/ctl.cpp'], libs=WRAP)

    # E1 -------------------------------------------------------------------------------------
    dot = os.path.join(ctx.work, 'cover.dot')
    ctx.check_model(SPEC, 'MCSmallVec.tla', 'MC_thorough.cfg' if thorough else 'MC_cover.cfg', WHAT,
                    label='N=1,2,4: one-object machine + all two-object operations', dump=dot, workers=4)
    if thorough:
        ctx.check_model(SPEC, 'MCSmallVec.tla', 'MC_full4.cfg', WHAT, workers=4,
                        label='N=1,2,4: all sequences of <= 4 operations on two objects')

    # E2 -------------------------------------------------------------------------------------
    sched = os.path.join(ctx.work, 'cover.sched')
    info = ctx.walker(dot, sched)
    ctx.cov['cover_graph'] = info
    missing = [a for a in ACTIONS if not info.get('actions', {}).get(a)]
    if missing or info.get('covered_edges') != info.get('reachable_edges'):
        raise ToolError('vacuous cover: operations never replayed %s, edges %s/%s' %
                        (missing, info.get('covered_edges'), info.get('reachable_edges')))
    traces = []
    execs = 0
    tr = os.path.join(ctx.work, 'cover.ndjson')
    tot, _ = ctx.driver(exe, ['--out', tr, '--schedules', sched, '--T', 'both'], WHAT, label='cover replay')
    traces.append(tr)
    execs += tot.get('completed', 0)
    ctx.sample_trace(tr, 8, skip=40)

    # E4 -------------------------------------------------------------------------------------
    k, ln = (150, 120) if thorough else (8, 80)
    for n in (1, 2, 4):
        tr = os.path.join(ctx.work, 'rand_N%d.ndjson' % n)
        tot, _ = ctx.driver(exe, ['--out', tr, '--random', k, '--len', ln, '--seed', ctx.seed, '--N', n,
                                  '--T', 'both'], WHAT, label='random N=%d' % n)
        traces.append(tr)
        execs += tot.get('completed', 0)
    ctx.sample_trace(tr, 6, skip=30)

    # E3 -------------------------------------------------------------------------------------
    if thorough:
        for t in traces:
            cat(t + '.v', [t])
            ctx.validate(SPEC, 'SmallVecTrace.tla', 'SmallVecTrace.cfg', t + '.v', WHAT,
                         executions=0, label=os.path.basename(t), timeout=1500)
        ctx.cov['traces_validated_against_impl'] += execs if not ctx.violations else 0
        # the same with the C++17 language level (aligned operator new exists there)
        exe17 = ctx.build('drv_smallvec17', ['harness/drv/drv_smallvec.cpp', 'harness/ctl/ctl.cpp'],
                          libs=WRAP, flags=['-std=c++17'])
        tr = os.path.join(ctx.work, 'cover17.ndjson')
        tot, _ = ctx.driver(exe17, ['--out', tr, '--schedules', sched, '--T', 'both'], WHAT, label='cover replay c++17')
        cat(tr + '.v', [tr])
        ctx.validate(SPEC, 'SmallVecTrace.tla', 'SmallVecTrace.cfg', tr + '.v', WHAT,
                     executions=tot.get('completed', 0), label='cover c++17', timeout=1500)
    else:
        # one TLC start for everything (executions are separated by Reset lines)
        allt = os.path.join(ctx.work, 'all.ndjson')
        cat(allt, traces)
        ctx.validate(SPEC, 'SmallVecTrace.tla', 'SmallVecTrace.cfg', allt, WHAT, executions=execs,
                     label='cover replay + random (int and alignas(64) elements)')
    ctx.assumptions += [
        'operations are applied to objects in the states the documentation allows (no pop/front/back on an '
        'empty vector, no index out of range, moved-from vectors are only destroyed, cleared or assigned to)',
        'a self-referential argument (v.push_back(v[i]), v.resize(n, v[i])) is legal, as for std::vector',
        'capacity()/storage mode are only required to obey the documented rules (size <= capacity, inline '
        'capacity = N, inline while <= N elements were ever needed, heap capacity kept until clear(), reserve '
        'honoured); the model-checked storage policy (doubling on push, exact on reserve/resize/copy) is '
        'asserted to satisfy them',
        'the replacement allocator of the driver is conforming (16-byte alignment for operator new/malloc, '
        'requested alignment for aligned new); element types are noexcept-movable',
        'TLC, the JSON/IOUtils community modules and g++ are trusted',
    ]
