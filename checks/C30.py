"""C30 - graph executors respect dependencies and run each node once.

E1  TLC, exhaustive, on spec/graph/Graph.tla (concrete layer transcribed from graph.h/.cpp and the executors,
    abstract layer = the DAG the documentation talks about): every DAG on <= 4 nodes x subgraph assignment x
    one clear()/rebuild, and every interleaving of the ConcurrentTaskSet / parallel_for executors with two
    threads over all 64 DAGs on 4 nodes: EdgesOK (no dangling dependent, predecessor counts = abstract in-degree
    after clear), RunOnce, OrderOK, AllRan, AllComplete, PreparedOK.
E2  the model's build / clear / rebuild / evaluate sequences (edge cover of the state graph of a cover
    configuration) are replayed on the REAL Graph / BiPropGraph with every executor; the parallel ones run on
    the real ThreadPool under the controlled scheduler ...
E3  ... and every recorded step (operation or schedule point, thread, and after every step each node's counter,
    predecessor count, dependents_ vector and propagation set) is validated by TLC against the spec.
E4  seeded random programs (random DAG, subgraph partition, clear/rebuild, marks, duplicate edges, graph move)
    x executors x pool sizes x random / PCT schedules, validated the same way; fixed programs in which the graph is
    move-constructed and move-assigned before a subgraph with cross-subgraph predecessor edges is cleared and rebuilt.
E5  seeded random DAGs up to 200 nodes on a free-running pool: TLC rebuilds the graph from the operations and
    judges the run log (begin/end records written inside the functors) and the projected structure.
"""
import os
import random
import graph_common as gc

WHAT = 'graph executors respect dependencies and run each node once'


def run(ctx):
    thorough = ctx.tier == 'thorough'
    exe = gc.build(ctx)

    # E1 -------------------------------------------------------------------------------------
    dot = os.path.join(ctx.work, 'cover30.dot')
    ctx.check_model(gc.SPEC, 'MCGraph.tla', 'MC_cover30.cfg', WHAT, label='cover: 2+1 nodes, 2 subgraphs, clear/rebuild, 2 evaluations',
                    dump=dot, workers=4, vacuity_exempt=gc.VAC)
    ctx.check_model(gc.SPEC, 'MCGraph.tla', 'MC_c30_build.cfg', WHAT, label='all DAGs 3+1 nodes <=3 edges x subgraphs x clear/rebuild',
                    workers=4, vacuity_exempt=gc.VAC)
    ctx.check_model(gc.SPEC, 'MCGraph.tla', 'MC_c30_par.cfg', WHAT, label='ConcurrentTaskSetExecutor / ParallelForExecutor, 2 threads, all 64 DAGs on 4 nodes',
                    workers=4, vacuity_exempt=gc.VAC)
    if thorough:
        ctx.check_model(gc.SPEC, 'MCGraph.tla', 'MC_c30_ctsbi.cfg', WHAT, label='ConcurrentTaskSetExecutor on BiPropGraph, partial re-evaluation',
                        workers=4, vacuity_exempt=gc.VAC)
        ctx.check_model(gc.SPEC, 'MCGraph.tla', 'MC_c30_build5.cfg', WHAT, label='3+2 nodes, <=4 edges, clear/rebuild, 2 evaluations, propagate',
                        workers=4, vacuity_exempt=gc.VAC, timeout=3000)

    # E2 + E3 ---------------------------------------------------------------------------------
    pf = os.path.join(ctx.work, 'cover30.prog')
    progs, info = gc.programs_from_dot(ctx, dot, pf, 'node')
    ctx.cov['cover_graph'] = info
    runs = []
    tr, tot = gc.drive(ctx, exe, ['--programs', pf, '--execs', '0'], WHAT, 'cover replay single-thread')
    runs.append((tr, tot))
    ctx.sample_trace(tr, 14)
    # the same programs on the pool executors: a seeded sample in quick, all of them in thorough
    rng = random.Random(ctx.seed)
    sample = progs if thorough else rng.sample(progs, min(len(progs), 24))
    pf2 = os.path.join(ctx.work, 'cover30_pool.prog')
    gc.write_programs(pf2, 'node', sample)
    runs.append(gc.drive(ctx, exe, ['--programs', pf2, '--execs', '1,2,3', '--runs', 2 if thorough else 1, '--seed', ctx.seed,
                                    '--varypool', '--varymult'], WHAT, 'cover replay pool executors'))
    pf3 = os.path.join(ctx.work, 'cover30_bp.prog')
    gc.write_programs(pf3, 'biprop', sample[:len(sample) // 2])
    runs.append(gc.drive(ctx, exe, ['--programs', pf3, '--execs', '0,2', '--seed', ctx.seed + 1, '--varypool'], WHAT,
                         'cover replay BiPropGraph'))

    # graphs that change their address (move construction AND move assignment - the driver alternates) before a subgraph
    # with predecessor edges from another subgraph is cleared and rebuilt: clear() follows the subgraph's graph_ pointer
    mv = ['sub,add0,add0,add1,dep3.1,dep3.2,move,move,setall,eval,clr1,add1,dep4.1,dep4.2,setall,eval',
          'sub,add0,add1,add1,dep2.1,dep3.1,dep3.2,setall,eval,move,clr1,move,add1,add1,dep4.1,dep5.4,setall,eval,move,clr1,add1,dep6.1,setall,eval',
          'sub,sub,add0,add1,add2,dep2.1,dep3.1,dep3.2,move,clr2,add2,dep4.2,dep4.1,move,clr1,add1,dep5.1,dep4.5,setall,eval']
    pfm = os.path.join(ctx.work, 'moved.prog')
    gc.write_programs(pfm, 'node', mv)
    runs.append(gc.drive(ctx, exe, ['--programs', pfm, '--execs', '0,2,1', '--seed', ctx.seed + 3, '--varypool'], WHAT, 'moved graphs node'))
    gc.write_programs(pfm + 'b', 'biprop', mv)
    runs.append(gc.drive(ctx, exe, ['--programs', pfm + 'b', '--execs', '0,2', '--seed', ctx.seed + 4], WHAT, 'moved graphs biprop'))

    # E4 + E3 ---------------------------------------------------------------------------------
    n = 120 if thorough else 14
    tr, tot = gc.drive(ctx, exe, ['--randprog', n, '--maxnodes', 9, '--execs', '2,1,2,3,0', '--seed', ctx.seed,
                                  '--partial', 20, '--varypool', '--varymult'], WHAT, 'random programs')
    runs.append((tr, tot))
    ctx.sample_trace(tr, 10, skip=30)
    if thorough:
        runs.append(gc.drive(ctx, exe, ['--randprog', 60, '--maxnodes', 14, '--execs', '2,1', '--seed', ctx.seed + 7, '--pct', 3,
                                        '--partial', 20, '--varypool', '--mix'], WHAT, 'random programs PCT mixed executors'))
    gc.validate_all(ctx, runs, WHAT, 'cover replay + random programs')

    # E5 --------------------------------------------------------------------------------------
    gc.run_and_validate(ctx, exe, ['--big', 10 if thorough else 3, '--maxnodes', 200 if thorough else 90, '--seed', ctx.seed,
                                   '--partial', 25], WHAT, 'random large DAGs free-running pool', big=True)
    ctx.assumptions += gc.ASSUME
