"""C04 - cancelled task sets start no further task bodies (DESIGN C04, soundness rule R2).

E1  TLC on TaskSet.tla: NoStartAfterCancel (a body starts at the cancellation check guarding it; a path whose check saw the
    flag, or that has no check while the flag is set, is a violation), CancelReported, SkippedOnlyIfCancelled; cancel from
    a second thread at every point, cancel by exception, ParentCascadeCancel through a nested set.  The model of the
    UNREPAIRED code shape (no canceled() test in the overload fallbacks of ConcurrentTaskSet::schedule/schedulePlaced)
    must produce the counterexample (regression guard for the spec itself).
E4+E3  the deterministic program (0-thread pool; bulk FQ queues one task -> overloaded; cancel; schedule) for both task
    costs, and random controlled executions with cancels at random points, validated step by step by TLC.
"""
import os
import random

import taskset_common as tc

WHAT = 'no task body starts after the cancel flag store (judged at the check guarding the path); wait() reports cancellation'

DETERMINISTIC = [
    'mult=1;sets=ctsL.1.0;throws=;d1=newpool0,new1,bulkfq1.1.1,cancel1,sched1.2,wait1,del1,delpool',
    'mult=1;sets=ctsH.1.0;throws=;d1=newpool0,new1,bulkfq1.1.1,cancel1,sched1.2,wait1,del1,delpool',
    'mult=1;sets=ctsL.4.0;throws=;d1=newpool0,new1,bulkfq1.1.2,cancel1,sched1.3,schedskip1.4,bulk1.5.2,schedfq1.7,wait1,del1,delpool',
]
CASCADE = [
    # directed: the parent is cancelled from inside the task that owns the nested (kOn) set, i.e. certainly while the child is
    # registered; the child's flag must be stored by the cascade, its later schedules are dropped, its wait reports cancellation
    'mult=32;sets=ctsL.4.0,ts.1.1;throws=;d1=newpool1,new1,schedfq1.1,wait1,del1,delpool;b1=new2,schedfq2.2,cancel1,sched2.3,bulk2.4.2,wait2,del2',
    # depth 2: grandparent cancelled from the task that owns the grandchild
    'mult=32;sets=ctsL.4.0,ctsL.4.1,ctsH.4.1;throws=;d1=newpool2,new1,schedfq1.1,wait1,del1,delpool;'
    'b1=new2,schedfq2.2,wait2,del2;b2=new3,schedfq3.3,cancel1,sched3.4,schedfq3.5,wait3,del3',
    # a child constructed under an already cancelled parent starts cancelled (TsCtorLoadPCancel / TsCtorStoreCancel)
    'mult=32;sets=ctsL.4.0,ctsL.1.1;throws=;d1=newpool1,new1,schedfq1.1,wait1,del1,delpool;b1=cancel1,new2,sched2.2,schedfq2.3,bulk2.4.2,wait2,del2',
    # kOff child is NOT cancelled by the cascade
    'mult=32;sets=ctsL.4.0,ts.1.0;throws=;d1=newpool1,new1,schedfq1.1,wait1,del1,delpool;b1=new2,schedfq2.2,cancel1,sched2.3,wait2,del2',
]
# a second thread cancels the parent while its tasks create, use and destroy nested (kOn) sets: the cascade walks the child
# list under the parent's mutex while children register / unregister (many schedules: the window is a few steps wide)
CASCADE_RACE = [
    'mult=32;sets=ctsL.4.0,ts.1.1,ts.1.1;throws=;d1=newpool2,new1,schedfq1.1,schedfq1.2,wait1,sync,del1,delpool;d2=await1,cancel1;'
    'b1=new2,sched2.3,wait2,del2;b2=new3,sched3.4,wait3,del3',
    'mult=32;sets=ctsH.4.0,ctsL.1.1,ctsL.1.1;throws=;d1=newpool2,new1,schedfq1.1,schedfq1.2,wait1,sync,del1,delpool;d2=await1,cancel1;'
    'b1=new2,schedfq2.3,wait2,del2;b2=new3,schedfq3.4,wait3,del3',
]
FIXED = [
    'mult=1;sets=ts.1.0;throws=;d1=newpool1,new1,schedfq1.1,schedfq1.2,cancel1,sched1.3,bulk1.4.2,bulkfq1.6.1,schedfq1.7,wait1,del1,delpool',
    'mult=1;sets=ctsL.1.0;throws=;d1=newpool1,new1,schedfq1.1,schedfq1.2,sched1.3,sched1.4,bulk1.5.3,wait1,sync,del1,delpool;d2=await1,cancel1',
    'mult=1;sets=ctsH.1.0;throws=;d1=newpool2,new1,schedfq1.1,schedfq1.2,sched1.3,sched1.4,sched1.5,bulk1.6.3,wait1,sync,del1,delpool;d2=await1,cancel1',
    # cancel by exception
    'mult=1;sets=ctsL.1.0;throws=1;d1=newpool1,new1,schedfq1.1,schedfq1.2,sched1.3,sched1.4,bulk1.5.2,wait1,wait1,del1,delpool',
    # parent cascade: the nested set registers with the set whose task creates it
    'mult=1;sets=ctsL.4.0,ts.1.1;throws=;d1=newpool2,new1,schedfq1.1,schedfq1.2,wait1,sync,del1,delpool;d2=await1,cancel1;'
    'b1=new2,sched2.3,sched2.4,bulk2.5.2,wait2,del2',
    'mult=32;sets=ctsH.4.0,ctsL.1.1,ctsL.1.1;throws=;d1=newpool2,new1,schedfq1.1,schedfq1.2,wait1,sync,del1,delpool;d2=await1,cancel1;'
    'b1=new2,schedfq2.3,sched2.4,wait2,del2;b2=new3,sched3.5,schedfq3.6,wait3,del3',
    # cascade depth 2: set 1 -> set 2 (created in a task of 1) -> set 3 (created in a task of 2)
    'mult=32;sets=ctsL.4.0,ctsL.4.1,ts.1.1;throws=;d1=newpool2,new1,schedfq1.1,wait1,sync,del1,delpool;d2=await1,cancel1;'
    'b1=new2,schedfq2.2,wait2,del2;b2=new3,sched3.3,sched3.4,wait3,del3',
]


def run(ctx):
    thorough = ctx.tier == 'thorough'
    exe = tc.build(ctx)
    tc.check_models(ctx, 'MC_c04_thorough.cfg' if thorough else 'MC_c04_quick.cfg', WHAT,
                    'deterministic cancel-overload-schedule (kLightweight, kHeavy, repaired shape); cancel by exception; cascade into a nested set'
                    + ('; second thread cancels at any point; 1-thread pool variant' if thorough else ''))
    for cfg in (('MC_seq0_cancel_unfixed.cfg', 'MC_seq0_cancel_unfixed_heavy.cfg', 'MC_cts_cancel_unfixed.cfg') if thorough else ('MC_c04_unfixed.cfg',)):
        tc.expect_model_violation(ctx, cfg, 'NoStartAfterCancel', WHAT, 'unrepaired code shape must show the counterexample: ' + cfg)
    rng = random.Random(ctx.seed * 7919 + 4)
    g = tc.Gen(rng)
    n = 6 if thorough else 3
    scens = [g.single(throws=0.15, cancel=0.9, nested=0.5, pools=(0, 1, 1, 2, 3)) for _ in range(60 if thorough else 14)]
    r = tc.run_scenarios(ctx, exe, [
        ('deterministic cancel-overload-schedule', DETERMINISTIC, 1),
        ('directed parent cascade', CASCADE, 2),
        ('parent cancel racing child registration and teardown', CASCADE_RACE, int(os.environ.get('VERIF_C04_RACE_N', 120 if thorough else 30))),
        ('fixed programs', FIXED if thorough else FIXED[ctx.seed % 2::2], n),
        ('random programs with cancels', scens, n)], WHAT, ctx.seed)
    ctx.sample({'programs': DETERMINISTIC[:2] + scens[:3]})
    if r['traces']:
        ctx.sample_trace(r['traces'][0], 14, skip=8)
    ctx.assumptions += tc.ASSUME + ['R2: a body starts at the cancellation check that guards it; the check-then-run window is not a violation',
                                    'an exception cancels only the set that captured it (trySetCurrentException does not cascade)']
