"""C20 (Future half) - Future::wait_for / wait_until: ready means done, timeout means the requested time has elapsed,
and a not-yet-started functor is run by the waiting thread only when the future was created with the deferred policy.

This module is NOT a check of its own: checks/C20.py (CompletionEvent half, owned by the sync component) calls
    import c20_future; c20_future.run_future_part(ctx)
(or run it alone with  bin/vcheck c20_future quick  - `run` below is an alias).

E1  TLC on spec/future/Future.tla: programs `timed` (not deferred) and `timed_d` (deferred) - wait_for(0),
    wait_for(300us), wait_until(+200us / -5us) racing the runner and a getter, time-outs of the modelled futex enabled:
    NoBad covers timed-wait-ready-but-not-done, timed-wait-early-timeout (logical time = what the expired timespecs let
    pass), inline-run-in-timed-wait-not-deferred; plus all lifetime invariants.
E3/E4 controlled runs of those programs and of random programs with timed waits on all schedulables: the modelled futex
    receives the timespec; the FutexTimeout trace event carries it ("us"); the spec adds it to the thread's elapsed time
    and requires elapsed >= request when `timeout` is returned (wait_until runs on a test clock whose reading is an input
    of the program); a functor executed inside a timed wait of a non-deferred future cannot be explained by the spec.
    Spurious futex returns are enabled.
E5  free-running rounds (real futex, steady_clock, real pool / task set / new thread / helper thread, random delays at the
    hook points): one record per call, elapsed measured outside the call (R5); TLC (FutureObs.tla) checks
    timeout => elapsed >= requested, ready => is_ready(), functor run by the caller => deferred.
"""
import os
import random

import future_common as fc

WHAT = 'Future timed waits'


def run_future_part(ctx):
    thorough = ctx.tier == 'thorough'
    fixed = fc.code_has_wany_fix()
    exe = fc.build(ctx)

    # E1 ---------------------------------------------------------------------------------------
    fc.model(ctx, 'g20', WHAT, 'wait_for / wait_until on a NOT deferred future | on a deferred future (may run it inline)')

    # E3 / E4 ------------------------------------------------------------------------------------
    rng = random.Random(ctx.seed * 17 + 3)
    progs = [fc.gen.MC['timed'], fc.gen.MC['timed_d']]
    want = 200 if thorough else 8
    while len(progs) < want + 2:
        kind = 'pool' if len(progs) % 2 else 'q'
        p = fc.gen.random_program(rng, kind)
        if 'wf.' in p or 'wu.' in p:
            progs.append(p)
    tr = fc.run_and_validate(ctx, exe, progs, WHAT, 'timed-wait programs, controlled runs', n=10 if thorough else 4,
                             seed=ctx.seed + 5, pct=3, spurious=True, fixed=fixed)[0]
    if tr:
        ctx.sample_trace(tr, 10, skip=20)

    # E5 ---------------------------------------------------------------------------------------
    obs = os.path.join(ctx.work, 'future_obs.ndjson')
    rounds = 5000 if thorough else 150
    tot, _ = ctx.driver(exe, ['--out', obs, '--free', rounds, '--seed', ctx.seed], WHAT,
                        label='free-running Future timed waits (real futex, steady_clock)', timeout=900)
    ctx.validate(fc.SPEC, 'FutureObs.tla', 'FutureObs.cfg', obs, WHAT + ' (real time)', executions=tot.get('steps', 0),
                 label='E5 real-time observation records (Future)')
    ctx.cov['future_realtime_records'] = tot.get('steps', 0)
    ctx.sample_trace(obs, 6)
    ctx.assumptions += [
        'Future timed waits, controlled runs: time is logical (a thread\'s elapsed time = sum of the timespecs of its expired '
        'futex waits); wait_until runs on a test clock whose single reading is an input of the program; requests are chosen so '
        'that their microsecond value survives the double seconds -> timespec conversion exactly (no tolerance needed)',
        'Future timed waits, free-running: elapsed time measured outside the call with steady_clock, rounded down (R5); the '
        'kernel never expires a relative futex timeout early',
    ] + [a for a in fc.ASSUME if a not in ctx.assumptions]


run = run_future_part
