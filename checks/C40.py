"""C40 - OpResult has optional semantics with balanced lifetimes.

E1  TLC, exhaustive, on the sequential specification spec/seq/OpResult.tla (one action per public
    operation of OpResult<T> on two objects: default / value / copy / move construction, copy /
    move assignment incl. self-assignment, assignment from a value - a temporary (AssignValue), a
    plain lvalue (AssignValueCopy) and a value that IS the object contained in an OpResult, in
    particular in the destination itself (AssignValueOf: d = d.value(), the T& / const T& / T&&
    forms; `best = std::max(best.value(), cand)`) -, emplace, value() read and
    write, has_value, operator bool, destruction): the complete abstract machine and ALL operation
    sequences of length <= 5 (thorough: <= 7).
E2  bin/walker.py turns the state graph into call sequences covering EVERY transition; the driver
    executes them on the real dispenso::OpResult<T> for T = tracked int and T = alignas(64)
    tracked struct.
E3  after every call the driver records engagement, contained value, its alignment, the returned
    values, the number of live tracked objects inside each OpResult / anywhere and the lifetime
    errors of the address-keyed registry (double destroy, construct over a live object, read of a
    dead object) and the number of payload copies / moves / assignments whose SOURCE object was no
    longer alive (`dead`: an assignment that ends the contained object's lifetime before it reads an
    argument aliasing it keeps every counter balanced and, for an int, even the value); TLC validates every line against the specification (OpResultTrace.tla): value
    semantics of DESTINATIONS only (R6), no dead source, nothing live in a destroyed OpResult, nothing live and
    constructions = destructions once both are destroyed.
E4  seeded random legal call sequences with unique values, validated the same way.
"""
import os

SPEC = 'spec/seq'
WHAT = 'OpResult = optional with balanced lifetimes'
ACTIONS = ['DefaultCtor', 'ValueCtorCopy', 'ValueCtorMove', 'CopyCtor', 'MoveCtor', 'Destroy', 'CopyAssign',
           'MoveAssign', 'AssignValue', 'AssignValueCopy', 'AssignValueOf', 'Emplace', 'SetValue', 'HasValue', 'Bool',
           'Value']


def run(ctx):
    from vlib import ToolError
    thorough = ctx.tier == 'thorough'
    exe = ctx.build('drv_opresult', ['harness/drv/drv_opresult.cpp', 'harness/ctl/ctl.cpp'])

    # E1 -------------------------------------------------------------------------------------
    dot = os.path.join(ctx.work, 'cover.dot')
    ctx.check_model(SPEC, 'MCOpResult.tla', 'MCOR_seq7.cfg' if thorough else 'MCOR_seq5.cfg', WHAT,
                    label='two objects: complete machine + all sequences <= %d' % (7 if thorough else 5),
                    dump=dot, workers=4)

    # E2 -------------------------------------------------------------------------------------
    sched = os.path.join(ctx.work, 'cover.sched')
    info = ctx.walker(dot, sched)
    ctx.cov['cover_graph'] = info
    missing = [a for a in ACTIONS if not info.get('actions', {}).get(a)]
    if missing or info.get('covered_edges') != info.get('reachable_edges'):
        raise ToolError('vacuous cover: operations never replayed %s, edges %s/%s' %
                        (missing, info.get('covered_edges'), info.get('reachable_edges')))
    tr = os.path.join(ctx.work, 'cover.ndjson')
    tot, _ = ctx.driver(exe, ['--out', tr, '--schedules', sched, '--T', 'both'], WHAT, label='cover replay')
    execs = tot.get('completed', 0)
    ctx.sample_trace(tr, 10, skip=0)

    # E4 -------------------------------------------------------------------------------------
    k, ln = (2000, 60) if thorough else (40, 40)
    tr2 = os.path.join(ctx.work, 'rand.ndjson')
    tot, _ = ctx.driver(exe, ['--out', tr2, '--random', k, '--len', ln, '--seed', ctx.seed, '--T', 'both'],
                        WHAT, label='random')
    execs += tot.get('completed', 0)
    ctx.sample_trace(tr2, 8, skip=0)

    # E3 -------------------------------------------------------------------------------------
    allt = os.path.join(ctx.work, 'all.ndjson')
    with open(allt, 'w') as out:
        for t in (tr, tr2):
            with open(t) as f:
                for line in f:
                    if line.endswith('\n'):   # a crashed driver may leave a partial last line
                        out.write(line)
    ctx.validate(SPEC, 'OpResultTrace.tla', 'OpResultTrace.cfg', allt, WHAT, executions=execs,
                 label='cover replay + random (int and alignas(64) values)', timeout=1500)
    ctx.assumptions += [
        'operations are applied in the states std::optional allows: value() only when engaged; a moved-from '
        'OpResult is only destroyed, assigned to or emplaced, and is never compared (R6: std::optional leaves it '
        'engaged, this implementation disengages it); self-move-assignment leaves a valid but unspecified object',
        'o = std::move(o.value()) keeps the value: std::optional assigns through, i.e. self-move-assigns the '
        'contained T, and the tracked value types keep their value under self-move-assignment; a value is moved '
        'out of its OWN OpResult only (never out of another one, whose contained T would be left moved-from)',
        'the contained type is noexcept-copyable/movable (lifetime-tracked int and alignas(64) struct)',
        'TLC, the JSON/IOUtils community modules and g++ are trusted',
    ]
