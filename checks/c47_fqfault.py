"""Allocation-failure half of C47 (E5, free-running): schedule(f, ForceQueuingTag) / scheduleBulk(n, gen, ForceQueuingTag)
on ThreadPool, TaskSet and ConcurrentTaskSet (kLightweight, kHeavy) never run the functor inside the submitting call on a
pool with >= 1 thread - also when the central queue's enqueue cannot allocate.

Why this engine exists: ThreadPool.tla / TaskSet.tla model the central queue as a linearizable unit whose enqueue always
succeeds, and under the controlled scheduler it always does.  The one branch of every force-queued path that E1-E4 can
never reach is therefore "moodycamel::ConcurrentQueue::enqueue returned false" (no memory for an implicit producer or a new
block).  The specification permits no inline execution there either, so whatever the library does on that branch must
keep the functor off the calling thread (seeded change C47-b: run it in place "so that no work is dropped").

harness/drv/drv_fqfault.cpp is linked with -Wl,--wrap=malloc and fails the queue's small allocations on the calling
thread for the duration of a force-queued call; it writes one record per call (returned / threw bad_alloc, did the functor
run on the caller inside the call, how often did it run by the time the pool was gone).  spec/pool/FqFaultObs.tla validates
every record with TLC.

Merge: checks/C47.py calls  `import c47_fqfault; c47_fqfault.run_fqfault_part(ctx)`  at the end of run(ctx).
"""
import os

import vlib

SPEC = 'spec/pool'
WHAT = ('ForceQueuingTag submissions (ThreadPool / TaskSet / ConcurrentTaskSet) are never executed inside the submitting call '
        'on a pool with threads, also when the central queue cannot allocate')
APIS = (('inj_pool', 'ThreadPool'), ('inj_ts', 'TaskSet'), ('inj_ctsl', 'ConcurrentTaskSet(kLightweight)'),
        ('inj_ctsh', 'ConcurrentTaskSet(kHeavy)'))


def run_fqfault_part(ctx):
    thorough = ctx.tier == 'thorough'
    # 48 rounds = the whole matrix api(4) x threads(1..3) x caller(non-pool thread | pool worker) x workers(held | free)
    rounds = 480 if thorough else 48
    exe = ctx.build('drv_fqfault', ['harness/drv/drv_fqfault.cpp', 'harness/ctl/ctl.cpp'], dispenso=vlib.DISPENSO_SRCS,
                    libs=['-Wl,--wrap=malloc'])
    out = os.path.join(ctx.work, 'fqfault.ndjson')
    tot, _ = ctx.driver(exe, ['--out', out, '--stress', rounds, '--seed', ctx.seed + 47], WHAT,
                        label='free-running force-queued submissions with allocation failures injected into the queue',
                        allow_incomplete=True, timeout=600)
    if tot and not tot.get('deadlocks', 0):
        # vacuity: the engine decides nothing for an API whose enqueue never saw a failed allocation
        dead = [name for key, name in APIS if tot.get(key, 0) == 0]
        if dead and rounds >= 48:
            raise vlib.ToolError('vacuous fault-injection run: no allocation failure reached the queue for ' + ', '.join(dead))
    ctx.validate(SPEC, 'FqFaultObs.tla', 'FqFaultObs.cfg', out, WHAT, executions=tot.get('executions', 0),
                 label='force-queued calls under allocation failure: never on the caller; returned => exactly once, bad_alloc => never')
    ctx.cov['free_running_rounds'] = ctx.cov.get('free_running_rounds', 0) + tot.get('executions', 0)
    ctx.cov['fq_calls_with_injected_allocation_failure'] = {name: tot.get(key, 0) for key, name in APIS}
    ctx.cov['fq_calls_that_threw_bad_alloc'] = tot.get('thrown', 0)
    ctx.sample_trace(out, 6)
    ctx.assumptions.append(
        'allocation-failure rounds (E5) fail only the direct malloc() calls compiled into the driver (moodycamel queue '
        'bookkeeping), < 4096 bytes, on the calling thread, for the duration of a force-queued call; "on the caller" is observed '
        'with a thread_local flag read by the functor; a task set whose schedule threw is leaked, not waited on (the library '
        'documents that its outstanding count stays raised); a round counts as stuck after 20 s')
    return tot


def run(ctx):     # stand-alone:  bin/vcheck c47_fqfault quick
    run_fqfault_part(ctx)
