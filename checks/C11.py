"""C11 - memory safe and leak free, including error paths.

Spec-decided part: spec/lib/Lifetime.tla over the stream of construction / copy / move / use / destruction
events of lifetime-tracked payloads that API programs hand to dispenso (pool shutdown with queued work,
task-set cancellation, throwing tasks, future chains and when_all, pipelines with a throwing stage at
each position, containers, loops, graphs, timed tasks ...): no use or destruction of a dead object, no
object alive at a quiescence point.  TLC validates every recorded event stream.
Auxiliary monitor (labelled as such): the same programs run under ASan + UBSan + LeakSanitizer; a
sanitizer report is a driver failure.  The component checks (C34, C37, C38, C40, C29, ...) carry the
per-component lifetime invariants in their own specs."""
import os
import vlib

WHAT = 'payload objects handed to dispenso are destroyed exactly once, never used after destruction, never leaked'


def run(ctx):
    thorough = ctx.tier == 'thorough'
    exe = ctx.build('drv_lifetime', ['harness/drv/drv_lifetime.cpp', 'harness/ctl/ctl.cpp'], dispenso=vlib.DISPENSO_SRCS,
                    sanitize=True)
    rounds = 12 if thorough else 2
    total = 0
    for k in range(3 if thorough else 1):
        tr = os.path.join(ctx.work, 'lifetime_%d.ndjson' % k)
        tot, out = ctx.driver(exe, ['--out', tr, '--seed', ctx.seed + k, '--rounds', rounds], WHAT, label='lifetime programs (ASan+UBSan+LSan)',
                              timeout=1500)
        ctx.validate('spec/lib', 'Lifetime.tla', 'Lifetime.cfg', tr, WHAT, executions=tot.get('completed', 0),
                     label='lifetime event stream')
        total += tot.get('completed', 0)
    ctx.cov['states'] = max(ctx.cov['states'], ctx.cov['trace_events_validated'])
    ctx.cov['transitions'] = max(ctx.cov['transitions'], ctx.cov['trace_events_validated'])
    ctx.cov['monitor'] = 'asan+ubsan+lsan (auxiliary; a report fails the driver run)'
    ctx.sample_trace(tr, 14)
    ctx.assumptions += [
        'scope = the API programs of harness/drv/drv_lifetime.cpp plus the lifetime invariants of the component specs; UB in code paths no '
        'program drives is out of reach',
        'raw memory errors are observed by the sanitizers (auxiliary monitor), object life-cycle is decided by TLC on the event stream',
        'events are logged under one lock at the moment they happen, so their order is a real order',
    ]
