"""C15 - for_each applies the function once per element (DESIGN 5.1 / C15).

E1  TLC on spec/parfor/ForEach.tla: for pool 0..3 x wait x maxThreads 0..4 x n 0..9 x iterator category
    the thread-count computation never divides by zero (NoDivZero), the chunk boundaries (computed
    arithmetically for random-access iterators, by successive advance for the others) partition [0, n)
    (PlanPartition), no element is applied twice (AtMostOnce) and every element exactly once, all
    finished, when the call (wait) / the task set's wait() has returned (ExactlyOnceAtCompletion); all
    interleavings of the element applications on a reduced domain.  Negative control: the ORIGINAL
    thread-count computation reaches staticChunkSize(n, 0).
E3/E4 the REAL for_each_n over std::vector (random access), std::list (bidirectional), std::forward_list
    (forward) on the REAL pool (0..3 threads) under the controlled scheduler: every step validated by TLC
    (the per-element application counters are projected after every step; two sentinel elements behind
    the range must stay untouched).  A crash of the driver child (SIGFPE) is a violation with its input.
    Free-running executions on bigger pools validated from in-body events.
"""
import random

import loops_common as lc

WHAT = 'for_each applies the function exactly once per element'
MOD, CFG = 'ForEachTrace.tla', 'ForEachTrace.cfg'


def run(ctx):
    thorough = ctx.tier == 'thorough'
    exe = lc.build(ctx)
    if not lc.SKIP_E1:   # (mutation runs of the dispenso code skip the code-independent model checking)
        lc.check_model(ctx, 'MCForEach.tla', 'MC_fe_seq.cfg', WHAT,
                        label='pool 0..3 x wait x maxThreads 0..4 x n 0..9 x iterator category, overlap-free schedules')
        lc.check_model(ctx, 'MCForEach.tla', 'MC_fe_inter_thorough.cfg' if thorough else 'MC_fe_inter.cfg', WHAT,
                        label='all interleavings of the element applications')
        lc.negative_control(ctx, 'MCForEach.tla', 'MC_fe_neg_zero.cfg',
                            'original for_each_n: zero-thread pool, wait=false -> staticChunkSize(n, 0)', 'NoDivZero')
    rng = random.Random(ctx.seed + 15)
    scens = lc.FE_REGRESSION + [lc.fe_scenario(rng) for _ in range(150 if thorough else 40)]
    tr, done, _ = lc.run_controlled(ctx, exe, scens, 8 if thorough else 3, ctx.seed, WHAT, MOD, CFG,
                                    'controlled executions of for_each_n', validate=False)
    ctx.sample({'scenarios': scens[:12]})
    ctx.sample_trace(tr, 10, skip=14)
    big = ['fe:N=0,n=9,wait=0,cat=1', 'fe:N=0,n=9,wait=1,cat=2'] + [lc.fe_scenario(rng, big=True) for _ in range(100 if thorough else 24)]
    trf, donef, _ = lc.run_free(ctx, exe, big, 5 if thorough else 2, ctx.seed, WHAT, MOD, CFG,
                                'free-running for_each_n', validate=False)
    lc.validate_all(ctx, [(tr, done), (trf, donef)], WHAT, MOD, CFG, 'controlled + free-running executions of for_each_n')
    ctx.cov['evaluations'] = done + donef
    ctx.assumptions += lc.ASSUME
