"""C32 - ConcurrentVector behaves like std::vector when used from one thread.

Oracle: spec/seq/SeqVec.tla, the std::vector meaning of every public operation on two vector
objects (a: under test, b: partner of copy/move/swap/compare) as sequences of element ids, the
position each call returns, and the lifetime consequence (exactly Len(a)+Len(b) element objects are
alive after every call, constructions - destructions equals that, no lifetime error ever).

E1  TLC enumerates ALL operation sequences of the bounded model (every constructor, then every
    operation with every argument tuple of the small domains, sizes 0..6 / 8) and checks the model's
    own invariants; the two state graphs (single-vector operations; operations with a partner) are
    dumped.
E2  bin/walker.py turns the graphs into call sequences covering every edge; drv_seqvec replays
    them on the REAL dispenso::ConcurrentVector for the 36 trait combinations (first bucket
    1 / 2 / 4 elements x buffer pointers inline / heap x fast / compact iterators x 3 reallocation
    strategies).  quick: every call sequence is replayed on 1/12 (cover: 3 combinations) resp. 1/6
    (pair: 6 combinations) of the 36 combinations, rotating; thorough: everything everywhere.
E3  every call is one trace line (arguments, returned position / observed values, contents of both
    vectors read back through the address registry of the tracked element type, size, capacity,
    live objects, construction/destruction balance, lifetime errors, and the same call on a
    std::vector mirror); TLC validates every line against the specification (SeqVecTrace.tla).
E4  seeded random call sequences (length <= 60, sizes up to 24 / 40 elements = 5 buckets) for every
    combination, validated the same way; thorough additionally runs the replay under ASan/UBSan.
"""
import os
import shutil

SPEC = 'spec/seq'
WHAT = 'ConcurrentVector sequential behaviour = std::vector (contents, size, returned positions, lifetimes)'
SRCS = ['harness/drv/drv_seqvec.cpp'] + ['harness/drv/drv_seqvec_p%d.cpp' % i for i in range(1, 7)] + \
       ['harness/ctl/ctl.cpp']

PAIR_ONLY = ('CopyAssign', 'MoveAssign', 'CopyAssignToB', 'MoveAssignToB', 'SwapMember', 'SwapFree', 'Compare')


def replay(ctx, exe, sched, share, label, tag=''):
    tr = os.path.join(ctx.work, '%s%s.ndjson' % (label.replace(' ', '_'), tag))
    tot, _ = ctx.driver(exe, ['--out', tr, '--schedules', sched, '--combos', 'all', '--share', share],
                        WHAT, label=label + tag)
    return tr, tot


def run(ctx):
    thorough = ctx.tier == 'thorough'
    # -O0: 36 instantiations of the whole interface; optimisation is irrelevant for a sequential check
    exe = ctx.build('drv_seqvec', SRCS, opt='-O0', flags=['-Wno-psabi'])

    # E1 -------------------------------------------------------------------------------------
    dot1 = os.path.join(ctx.work, 'cover.dot')
    ctx.check_model(SPEC, 'MCSeqVec.tla', 'MCSeqVec_cover.cfg', WHAT,
                    label='all constructors x all operations, sizes 0..6', dump=dot1,
                    vacuity_exempt=PAIR_ONLY, workers=4)
    dot2 = os.path.join(ctx.work, 'pair.dot')
    ctx.check_model(SPEC, 'MCSeqVec.tla', 'MCSeqVec_pair.cfg', WHAT,
                    label='copy/move/swap/compare with a partner vector, 4 calls', dump=dot2, workers=4)
    if thorough:
        ctx.check_model(SPEC, 'MCSeqVec.tla', 'MCSeqVec_deep.cfg', WHAT,
                        label='all sequences of 3 calls, sizes 0..6', vacuity_exempt=PAIR_ONLY,
                        workers=4, timeout=1500)

    # E2 ---------------------------------------------------------------------------------------
    s1 = os.path.join(ctx.work, 'cover.sched')
    ctx.cov['cover_graph'] = ctx.walker(dot1, s1)
    s2 = os.path.join(ctx.work, 'pair.sched')
    ctx.cov['pair_graph'] = ctx.walker(dot2, s2)
    traces, execs = [], 0
    for sched, share, label in ((s1, 1 if thorough else 12, 'cover replay'),
                                (s2, 1 if thorough else 6, 'pair replay')):
        tr, tot = replay(ctx, exe, sched, share, label)
        if tot.get('executions'):      # (a crashed driver is already reported; its trace is cut off)
            traces.append(tr)
            execs += tot.get('completed', 0)
    for t, k in zip(traces, (300, 600)):
        ctx.sample_trace(t, 7, skip=k)

    # E4 ---------------------------------------------------------------------------------------
    n = 40 if thorough else 3
    tr = os.path.join(ctx.work, 'random.ndjson')
    tot, _ = ctx.driver(exe, ['--out', tr, '--random', n, '--seed', ctx.seed, '--combos', 'all'],
                        WHAT, label='random sequences')
    if tot.get('executions'):
        traces.append(tr)
        execs += tot.get('completed', 0)

    # E3: one TLC run over the concatenation (every execution starts with its own Reset line) ----
    alltr = os.path.join(ctx.work, 'all.ndjson')
    with open(alltr, 'wb') as out:
        for t in traces:
            with open(t, 'rb') as f:
                shutil.copyfileobj(f, out)
    if traces:
        ctx.validate(SPEC, 'SeqVecTrace.tla', 'SeqVecTrace.cfg', alltr, WHAT, executions=execs,
                     label='cover + pair + random traces', timeout=3000)

    if thorough:
        # auxiliary monitor: the same replays under ASan/UBSan (out-of-bounds / use-after-free /
        # double free inside the vector would crash the driver)
        san = ctx.build('drv_seqvec', SRCS, opt='-O1', flags=['-Wno-psabi'], sanitize=True)
        for sched, label in ((s1, 'cover replay'), (s2, 'pair replay')):
            replay(ctx, san, sched, 4, label, tag=' asan')
        ctx.driver(san, ['--out', os.path.join(ctx.work, 'random_asan.ndjson'), '--random', 10,
                         '--seed', ctx.seed + 1, '--combos', 'all'], WHAT, label='random sequences asan')

    ctx.assumptions += [
        'single-threaded use only (concurrent growth is C33)',
        'element type: a lifetime-tracked id with noexcept copy/move whose self-move-assignment is a no-op; '
        'first bucket sizes 1/2/4 are selected through sizeof(T) (DefaultConcurrentVectorSizeTraits)',
        'moved-from vectors are cleared by the harness before they are used again; moved-from values are not compared (R6)',
        'capacity() is only required to be >= size() and >= the last reserve() argument',
        'TLC, the JSON/IOUtils community modules and g++/libstdc++ are trusted; the std::vector mirror ties the '
        'specification to the real std::vector for every mutating call',
    ]
