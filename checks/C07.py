"""C07 - submissions to an idle (fully parked) pool start without the sleep back-stop."""
import pool_common as pc
from C01 import VAC
WHAT = 'work submitted to a fully parked pool is started by pool threads without the idle-sleep back-stop'


def run(ctx):
    thorough = ctx.tier == 'thorough'
    # E1: deadlock freedom with the time-out action removed, every kernel choice of futex waiters
    for cfg, lab in (('MC_idle_fq.cfg', 'schedule(FQ) into 2 parked workers'),
                     ('MC_idle_placed.cfg', 'schedulePlaced(FQ) (steal ring) into 2 parked workers'),
                     ('MC_idle_rbulk_g4.cfg', 'ring fast path, 2 tasks, one group of 3 parked workers'),
                     ('MC_idle_fq_rbulk.cfg', 'schedule(FQ), re-park, then the ring fast path into the claimed worker\'s ring'),
                     ('MC_idle_fq_bulk.cfg', 'schedule(FQ), re-park, then scheduleBulk(1) through the central queue'))+ \
            ((('MC_idle_bulk.cfg', 'scheduleBulk(2) into 3 parked workers'),
              ('MC_idle_rbulk.cfg', 'ring fast path, 2 tasks, groups of 2'),
              ('MC_idle_placed3.cfg', 'schedulePlaced x2 into 3 parked workers')) if thorough else ()):
        ctx.check_model(pc.SPEC, 'MCPool.tla', cfg, WHAT, label=lab + ' (no time-outs, deadlock check)', workers=8,
                        required=('GateIdle', 'GateQuiet', 'FutexWait', 'FutexWake', 'FutexRet'))
    n = 12 if thorough else 4
    scen = [(2, 'main:new2,idle,fq1,quiet,del'), (2, 'main:new3,idle,bulk1.2,quiet,del'),
            (4, 'main:new3,idle,rbulk1.2,quiet,del'), (2, 'main:new3,idle,rbulk1.3,quiet,del'),
            (4, 'main:new3,idle,bulk1.3,quiet,del'), (2, 'main:new1,idle,sched1,quiet,del')]
    # a claimed-but-not-woken sleeper (its mask bit is cleared while it stays in the futex) followed by work for its ring /
    # for the central queue
    scen += [(2, 'main:new2,idle,fq1,quiet,idle,rbulk2.1,quiet,del'), (2, 'main:new2,idle,fq1,quiet,idle,bulk2.1,quiet,del'),
             (4, 'main:new3,idle,fq1,quiet,idle,rbulk2.2,quiet,del')]
    scen += [(2, 'main:new2,idle,rbulk1.2,quiet,idle,pfq3,quiet,idle,placed4,quiet,del'), (2, 'main:new2,idle,pfq1,quiet,del'), (2, 'main:new3,idle,placed1,quiet,idle,pfq2,quiet,del')]
    if thorough:
        scen += [(4, 'main:new3,idle,rbulk1.1,quiet,del'), (2, 'main:new3,idle,rbulk1.2,quiet,del'),
                 (4, 'main:new2,idle,fq1,quiet,del'), (4, 'main:new3,idle,rbulk1.3,quiet,del')]
    exes = {}
    tr = None
    for i, (gs, p) in enumerate(scen):
        if gs not in exes:
            exes[gs] = pc.build(ctx, gs)
        tr = pc.validate_prog(ctx, exes[gs], gs, p, WHAT, n, ctx.seed + i, timeouts=False, label='gs%d %s' % (gs, p))
    ctx.sample({'scenarios': [s[1] for s in scen]})
    ctx.sample_trace(tr, 12, skip=60)
    ctx.assumptions += pc.ASSUME + ['"promptly" = the run completes in the model/harness where the back-stop time-out does not exist; '
                                    'no wall-clock threshold is used']
