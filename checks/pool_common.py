"""Shared machinery of the ThreadPool checks (C01 C03 C07 C08 C09 C47)."""
import json
import os
import random

import vlib

SPEC = 'spec/pool'
TUNE = ['-DDISPENSO_TUNE_FIXED_SPIN_ITERS=4', '-DDISPENSO_TUNE_SPIN_CHECK_INTERVAL=2',
        '-DDISPENSO_TUNE_QUEUE_CHECK_INTERVAL=1', '-DDISPENSO_TUNE_CROSS_RING_FAIL_THRESHOLD=2',
        '-DDISPENSO_TUNE_STEAL_RING_SHARING=2', '-DDISPENSO_TUNE_WAKE_BRANCH_FACTOR=2',
        '-DDISPENSO_VERIF_RING_CAPACITY=2']
ASSUME = [
    'MPMC rings, the moodycamel central queue and the arenas are linearizable units at pool level (ring internals: C34)',
    'spin constants are compiled small (DISPENSO_TUNE_*: FIXED_SPIN_ITERS=4, SPIN_CHECK_INTERVAL=2, QUEUE_CHECK_INTERVAL=1, '
    'CROSS_RING_FAIL_THRESHOLD=2, STEAL_RING_SHARING=2, WAKE_BRANCH_FACTOR=2, ring capacity 2); they change counts, not logic',
    'sequentially consistent interleavings (weak memory: C10); Linux futex back-end only',
    'external producers only (pool-recursive submission is covered by the task-set checks)',
    'every model run also checks that ThreadPool.tla refines PoolAbs.tla (PROPERTY Refines: the exactly-once / nothing-pending-'
    'when-gone abstraction the client specifications are written over) and every validated trace of the real pool is checked '
    'step by step against PoolAbs!Next on its (alive, submitted, ran) projection (TraceRefines)',
]


def build(ctx, gs):
    return ctx.build('drv_pool_g%d' % gs, ['harness/drv/drv_pool.cpp', 'harness/ctl/ctl.cpp'],
                     dispenso=vlib.DISPENSO_SRCS, flags=TUNE + ['-DDISPENSO_TUNE_WAKE_GROUP_SIZE=%d' % gs])


def stress(ctx, what, rounds, seed_off=0):
    """E5: free-running rounds of harness/drv/drv_poolstress.cpp (real threads, real futex, inert hooks: also the
    windows between two hook points), one record per round validated by spec/pool/PoolObs.tla"""
    exe = ctx.build('drv_poolstress', ['harness/drv/drv_poolstress.cpp', 'harness/ctl/ctl.cpp'], dispenso=vlib.DISPENSO_SRCS)
    out = os.path.join(ctx.work, 'poolstress.ndjson')
    tot, _ = ctx.driver(exe, ['--out', out, '--stress', rounds, '--seed', ctx.seed + seed_off], what,
                        label='free-running pool rounds (submission paths x workers x resize x destructor)',
                        allow_incomplete=True, timeout=1500)
    ctx.validate(SPEC, 'PoolObs.tla', 'PoolObs.cfg', out, what, executions=tot.get('executions', 0),
                 label='free-running pool rounds: exactly once, nothing after ~ThreadPool, workRemaining_ = 0 at quiescence')
    ctx.cov['free_running_rounds'] = tot.get('executions', 0)
    if 'free-running rounds (E5)' not in ' '.join(ctx.assumptions):
        ctx.assumptions.append('free-running rounds (E5) observe what the public API shows (run counts per task, completion) plus '
                               'workRemaining_ at a quiescent point; a round counts as stuck after 20 s without progress')


def tla_prog(prog):
    """'main:new2,fq1;p2:up' -> TLA+ record text + max worker count"""
    threads = []
    maxw = 1
    for th in prog.split(';'):
        name, ops = th.split(':')
        recs = []
        for o in ops.split(','):
            i = 0
            while i < len(o) and not o[i].isdigit():
                i += 1
            op, nums = o[:i], o[i:].split('.') if o[i:] else []
            a = int(nums[0]) if nums and nums[0] else 0
            b = int(nums[1]) if len(nums) > 1 else 0
            if op in ('new', 'resize'):
                maxw = max(maxw, a)
            recs.append('[op |-> "%s", a |-> %d, b |-> %d]' % (op, a, b))
        threads.append('%s |-> <<%s>>' % (name, ', '.join(recs)))
    return '[' + ', '.join(threads) + ']', maxw


def validate_prog(ctx, exe, gs, prog, what, n, seed, mult=32, timeouts=True, label=None, pct=0):
    """run n random controlled executions of one program, validate the trace with TLC;
    a violation is re-run once and reported only if it repeats"""
    label = label or prog
    tag = 'p%d' % (abs(hash((prog, gs, mult, timeouts, seed, pct))) % 10 ** 8)
    ptxt, maxw = tla_prog(prog)
    mod = 'TC_' + tag
    specdir = os.path.join(vlib.ROOT, SPEC)
    with open(os.path.join(specdir, mod + '.tla'), 'w') as f:
        f.write('---- MODULE %s ----\nEXTENDS PoolTrace\nTCProg == %s\n====\n' % (mod, ptxt))
    cfg = open(os.path.join(specdir, 'PoolTrace.cfg')).read()
    for a, b in (('Prog <- TraceProg', 'Prog <- TCProg'), ('Mult <- TraceMult', 'Mult = %d' % mult),
                 ('MaxW <- TraceMaxW', 'MaxW = %d' % maxw), ('GS <- TraceGS', 'GS = %d' % gs),
                 ('SS <- TraceSS', 'SS = 2'), ('RingCap <- TraceRingCap', 'RingCap = 2'),
                 ('AllowTimeout <- TraceAllowTimeout', 'AllowTimeout = %s' % ('TRUE' if timeouts else 'FALSE'))):
        cfg = cfg.replace(a, b)
    with open(os.path.join(specdir, mod + '.cfg'), 'w') as f:
        f.write(cfg)
    try:
        for attempt in (0, 1):
            tr = os.path.join(ctx.work, '%s_%d.ndjson' % (tag, attempt))
            args = ['--out', tr, '--prog', prog, '--random', n, '--seed', seed, '--mult', mult, '--pct', pct]
            if not timeouts:
                args.append('--notimeout')
            final = attempt == 1
            tot, out = ctx.driver(exe, args, what, label=label, allow_incomplete=True, report=final)
            res = ctx.validate(SPEC, mod + '.tla', mod + '.cfg', tr, what + ' [' + label + ']',
                               executions=tot.get('completed', 0), label=label, report=final)
            stalled = bool(tot) and tot.get('executions', 0) > tot.get('completed', 0) + tot.get('deadlocks', 0)
            if stalled and final:
                path = ctx.save_replay('%s-stalled.txt' % ctx.prop,
                                       'program %s (gs=%d mult=%d timeouts=%s seed=%s)\nan execution did not finish within the step bound '
                                       '(work that no thread runs)\n\n%s' % (prog, gs, mult, timeouts, seed, ctx._trace_context(tr, sum(1 for _ in open(tr)))))
                ctx.violation('stalled:' + prog, what + ': execution never completes [' + label + ']', path)
            bad = res.violation or not tot or stalled
            if not bad:
                return tr
        return tr
    finally:
        for ext in ('.tla', '.cfg'):
            try:
                os.remove(os.path.join(specdir, mod + ext))
            except OSError:
                pass
        for f in os.listdir(specdir):
            if f.startswith(mod + '_TTrace'):
                os.remove(os.path.join(specdir, f))


def random_programs(rng, n, kinds, max_threads=3, resize=False, poll=False):
    """seeded program generator within the documented contract (one resizer, del last after sync)"""
    out = []
    for _ in range(n):
        nt = rng.choice([0, 1, 2, 2, 3, 3][:max_threads + 3])
        nt = min(nt, max_threads)
        nid = [1]

        def sub():
            k = rng.choice(kinds)
            if k in ('fq', 'sched'):
                s = '%s%d' % (k, nid[0])
                nid[0] += 1
                return s
            cnt = rng.randint(1, 3)
            s = '%s%d.%d' % (k, nid[0], cnt)
            nid[0] += cnt
            return s
        main = ['new%d' % nt]
        if poll:
            main.append('wake0')
        for _ in range(rng.randint(1, 3)):
            main.append(sub())
            if resize and rng.random() < 0.4:
                main.append('resize%d' % rng.randint(0, max_threads))
        p2 = None
        if rng.random() < 0.5:
            p2 = ['up'] + [sub() for _ in range(rng.randint(1, 2))]
        main += (['sync'] if p2 else []) + ['del']
        out.append('main:' + ','.join(main) + (';p2:' + ','.join(p2) if p2 else ''))
    return out
