"""C41 - SmallBufferAllocator hands out exclusive aligned blocks.

E1  TLC, exhaustive, on the implementation-level spec spec/sba/Sba.tla (one action per schedule point
    of alloc / dealloc / grabFromCentralStore / recycleToCentralStore / bytesAllocated / thread-exit
    cleanup): MutexOK (at most one thread inside the region protected by backingStoreLock, both lock
    users), Exclusive (a block is in exactly one place: application, one thread cache, or the central
    store), AlignedInBounds, Conserved, CacheBound, ExitReturns in every state of every interleaving.
    Negative control: the same model with the CAS loop of the unrepaired bytesAllocated
    (CasReuse = TRUE) must violate MutexOK.
E2  every transition of the cover configuration's state graph (model constants ideal=1) is replayed in
    the real SmallBufferAllocator<256> (ideal=32: every batch scaled by 32, which preserves the control
    flow) under the controlled scheduler, with real thread exits ...
E3  ... and the recorded trace (action, thread, block offset and addr % N of every block handed out,
    lock word, number of backing buffers, central-store size, every thread cache) is validated by TLC
    against the spec (SbaTrace.tla, real constants), all invariants on.
E4  random / PCT controlled schedules of random programs (1-3 allocating threads, 0-2 diagnostics
    callers, batches around the cache sizes), block sizes 256 and 128 (quick) + 64, 16 (thorough).
"""
import glob
import os
import sys

import vlib

SPEC = 'spec/sba'
WHAT = 'SmallBufferAllocator exclusive aligned blocks / lock mutual exclusion'
IDEAL = {256: 32, 128: 56, 64: 96, 16: 320}   # kIdealNumTLBuffers per block size (checked via the Reset line)
COVER_PROG = 'a1:alloc1.2,free1;a2:free1;d1:bytes'
COVER2_PROG = 'a1:alloc1.1,alloc2.2,free2;a2:free1;d1:bytes'
RACE_PROG = 'a1:alloc1.1,alloc2.1,free1,free2;a2:alloc3.1,free1;d1:bytes'
NOTE = ['-noGenerateSpecTE']


def _clean():
    for f in glob.glob(os.path.join(vlib.ROOT, SPEC, '*_TTrace_*')):
        try:
            os.remove(f)
        except OSError:
            pass


def run(ctx):
    thorough = ctx.tier == 'thorough'
    exe = ctx.build('drv_sba', ['harness/drv/drv_sba.cpp', 'harness/ctl/ctl.cpp'],
                    dispenso=['small_buffer_allocator.cpp'],
                    flags=['-I' + os.path.join(vlib.REPO, 'dispenso', 'third-party')])
    try:
        _run(ctx, exe, thorough)
    finally:
        _clean()


def _complete_schedules(dot, out):
    """bin/walker.py's transition cover, with every schedule extended to a terminal state of the graph.

    The controller finishes an exhausted schedule with the lowest-index runnable thread; if that thread
    is spinning on the lock (GrabSpin / BytesCas) the tail never ends.  Schedules that end in a state in
    which every thread is Done need no tail."""
    import collections
    import json
    sys.path.insert(0, os.path.join(vlib.ROOT, 'bin'))
    import walker
    init, edges, nodes, nedges = walker.load(dot)
    if init is None:
        raise vlib.ToolError('no initial state in ' + dot)
    # node sequences of the walker's label paths (labels may be ambiguous between parallel edges that
    # differ only in the queue's choice: take the first edge of that label not yet used from the node)
    paths, total, covered = walker.cover(init, edges)
    used = collections.defaultdict(set)
    scheds = []
    actions = collections.Counter()
    steps = 0
    for labs in paths:
        u = init
        for lab in labs:
            cands = [i for i, (v, l2) in enumerate(edges[u]) if l2 == lab]
            fresh = [i for i in cands if i not in used[u]]
            i = (fresh or cands)[0]
            used[u].add(i)
            u = edges[u][i][0]
        # BFS to a terminal node (no edge leaving the node)
        prev = {u: None}
        dq = collections.deque([u])
        end = None
        while dq:
            x = dq.popleft()
            if all(v == x for v, _ in edges.get(x, ())):
                end = x
                break
            for v, lab in edges.get(x, ()):
                if v not in prev:
                    prev[v] = (x, lab)
                    dq.append(v)
        tail = []
        while end is not None and prev[end] is not None:
            x, lab = prev[end]
            tail.append(lab)
            end = x
        tail.reverse()
        sch = []
        for lab in list(labs) + tail:
            st = walker.parse_label(lab)
            if st is None or 't' not in st:
                continue
            st.pop('x', None)
            sch.append(st)
            actions[st['a']] += 1
        steps += len(sch)
        scheds.append(sch)
    edges_used = sum(len(x) for x in used.values())
    with open(out, 'w') as f:
        for sch in scheds:
            f.write(json.dumps(sch, separators=(',', ':')) + '\n')
    os.remove(dot)
    return {'nodes': len(nodes), 'edges': nedges, 'reachable_edges': total, 'covered_edges': covered,
            'distinct_edges_walked': edges_used, 'paths': len(scheds), 'steps': steps, 'actions': dict(actions)}


def _replay(ctx, exe, cfg, prog, chunk, label):
    dot = os.path.join(ctx.work, label + '.dot')
    ctx.check_model(SPEC, 'MCSba.tla', cfg, WHAT, label=label + ' (E1)', dump=dot, workers=4, extra=NOTE)
    sched = os.path.join(ctx.work, label + '.sched')
    info = _complete_schedules(dot, sched)
    if info['covered_edges'] != info['reachable_edges']:
        raise vlib.ToolError('walker did not cover the graph: %r' % info)
    ctx.cov['graph_' + label] = info
    tr = os.path.join(ctx.work, '%s_%d.ndjson' % (label, chunk))
    tot, _ = ctx.driver(exe, ['--out', tr, '--chunk', chunk, '--prog', prog, '--scale', IDEAL[chunk],
                              '--schedules', sched], WHAT, label='%s replay N=%d' % (label, chunk))
    ctx.validate(SPEC, 'SbaTrace.tla', 'SbaTrace.cfg', tr, WHAT, executions=tot.get('completed', 0),
                 label='%s replay N=%d' % (label, chunk), timeout=1500)
    _complete(ctx, tot, label)
    return tr


def _complete(ctx, tot, label):
    # diverged / stuck / deadlocked / crashed runs were already reported as violations by ctx.driver (the
    # partial trace is still validated: TLC then names the step the specification cannot explain)
    reported = (not tot) or tot.get('diverged', 0) or tot.get('stuck', 0) or tot.get('deadlocks', 0)
    if not reported and tot.get('completed', 0) != tot.get('executions', -1):
        raise vlib.ToolError('driver run "%s": %s executions but only %s completed' %
                             (label, tot.get('executions'), tot.get('completed')))


def _run(ctx, exe, thorough):
    # E1 + E2 + E3: cover graph -----------------------------------------------------------------
    tr = _replay(ctx, exe, 'MC_cover.cfg', COVER_PROG, 256, 'cover')
    ctx.sample_trace(tr, 10, skip=1)
    if thorough:
        _replay(ctx, exe, 'MC_cover.cfg', COVER_PROG, 64, 'cover64')
        _replay(ctx, exe, 'MC_cover2.cfg', COVER2_PROG, 256, 'cover2')
        _replay(ctx, exe, 'MC_race.cfg', RACE_PROG, 256, 'race')
        ctx.check_model(SPEC, 'MCSba.tla', 'MC_deep.cfg', WHAT, label='deep: batches > cache, 2 bytes calls',
                        workers=4, extra=NOTE, timeout=1500)
        ctx.check_model(SPEC, 'MCSba.tla', 'MC_two.cfg', WHAT, label='ideal=2 (orderings of bulk dequeues)',
                        workers=4, extra=NOTE, timeout=1500)
    else:
        ctx.check_model(SPEC, 'MCSba.tla', 'MC_race.cfg', WHAT, label='race: two grabbers + diagnostics',
                        workers=4, extra=NOTE)

    # negative control: the model of the unrepaired CAS loop must break mutual exclusion -----------
    res = ctx.tlc(SPEC, 'MCSba.tla', 'MC_unrepaired.cfg', workers=4, label='negative control CasReuse=TRUE',
                  extra=NOTE, count=False)
    if res.violation != 'Invariant MutexOK':
        raise vlib.ToolError('negative control: the model of the unrepaired bytesAllocated CAS loop does '
                             'not violate MutexOK (got %r): the invariant is vacuous' % res.violation)
    ctx.cov['negative_control'] = 'MC_unrepaired.cfg (CasReuse=TRUE) violates MutexOK as expected'

    # E4 + E3: random schedules of random programs -------------------------------------------------
    plan = [(256, 0, 70), (256, 3, 40), (128, 0, 25)]
    if thorough:
        plan = [(256, 0, 600), (256, 3, 300), (128, 0, 200), (128, 3, 100), (64, 0, 100), (64, 3, 50),
                (16, 0, 20)]
    allr = os.path.join(ctx.work, 'rand_all.ndjson')
    execs = 0
    tots = []
    with open(allr, 'w') as out:     # one TLC start for all random traces (each execution begins with a Reset)
        for chunk, pct, n in plan:
            tr = os.path.join(ctx.work, 'rand_%d_p%d.ndjson' % (chunk, pct))
            label = 'random N=%d pct%d' % (chunk, pct)
            tot, _ = ctx.driver(exe, ['--out', tr, '--chunk', chunk, '--random', n, '--seed',
                                      ctx.seed + 101 * pct, '--randprog', '--pct', pct], WHAT, label=label)
            tots.append((tot, label))
            execs += tot.get('completed', 0)
            with open(tr) as f:
                for line in f:
                    out.write(line)
    ctx.validate(SPEC, 'SbaTrace.tla', 'SbaTrace.cfg', allr, WHAT, executions=execs,
                 label='random programs, all block sizes', timeout=3000)
    for tot, label in tots:
        _complete(ctx, tot, label)
    ctx.assumptions += [
        'TLA+ interleaving semantics are sequentially consistent (weak-memory effects are C10)',
        'the moodycamel central store is a black box: a linearizable bag whose bulk dequeue, when quiescent, '
        'returns min(requested, size) items of its choice',
        'work between two schedule points (malloc, backingStore.push_back, thread-local cache updates) is atomic '
        'w.r.t. other threads only under the controlled scheduler; the damage of two threads inside push_back '
        'is not modelled - MutexOK is what excludes it',
        'the replayed cover graph has model constants ideal=1/maxtl=2/permalloc=4; the real constants keep the '
        'proportions maxtl=2*ideal, permalloc=4*ideal for every block size, so scaling batches preserves control flow',
        'TLC, the JSON/IOUtils community modules and g++ are trusted',
    ]
