"""C21 - CompletionEvent and Latch waits never miss a wake-up (and never return early).

E1  TLC on spec/event/Event.tla (one action per atomic access / futex call of the Linux
    CompletionEventImpl, CompletionEvent and Latch; modelled futex with wake-all, spurious returns):
    safety NeverEarly, NoLostWakeup, WakeOwed, WordOK on the cover scenarios; progress
    WaitersReturn == [](completed => <> nobody is inside a wait) and Termination under weak fairness of
    the threads with NO spurious wake-ups / time-outs, on the family "latch counts 1..3, every way to
    reach zero with count_down(n) / arrive_and_wait, 1-2 waiters; events with 1-2 waiters".
    Negative control: the pre-fix design (count_down notifies iff the previous count was 1) must
    violate the progress property.
E2  every transition of the cover state graphs (all scenarios, one TLC run) is replayed in the real
    CompletionEvent / Latch under the controlled scheduler with the modelled futex ...
E3  ... and the recorded traces (action, thread, futex outcome, call results, status word, futex wait
    queue, woken set) are validated by TLC against the spec (EventTrace.tla), all invariants on.  A
    lost wake-up shows as {"e":"Deadlock"}: accepted only if the spec agrees nothing is runnable, and
    then NoLostWakeup decides (a program whose latch never reaches zero deadlocks legitimately; one such
    run is part of the check).
E4  seeded random / PCT controlled schedules of random contract-respecting programs.
"""
import json
import os
import re

SPEC = 'spec/event'
WHAT = 'CompletionEvent/Latch wake-up'
SRCS = ['harness/drv/drv_event.cpp', 'harness/ctl/ctl.cpp']
# actions of Event.tla that the C21 configurations do not use (timed waits are C20's)
TIMED = ('CeWfLd0', 'CeWfLd', 'CeWuLd', 'FutexTimeout')


def scen_text(ctx, name):
    """spec/event/<name>.ndjson (read by TLC) -> the line format read by drv_event (same order)."""
    from vlib import ROOT
    src = os.path.join(ROOT, SPEC, name + '.ndjson')
    dst = os.path.join(ctx.work, name + '.scen')
    with open(src) as f, open(dst, 'w') as g:
        for line in f:
            s = json.loads(line)
            th = ['%s:%s' % (t, ','.join('%s/%d/%d/%d/%d' % (o['op'], o['n'], o['us'], o['clk'], o['tol'])
                                         for o in ops)) for t, ops in s['prog'].items()]
            g.write('%s %d %d;%s\n' % (s['kind'], s['init'], s['tgt'], ';'.join(th)))
    return dst


def multi_init(dot, out):
    """The cover configurations have one initial state per scenario; bin/walker.py starts from the
    first initial node only.  Add a synthetic root whose edges `Scen("<i>")` lead to the initial state
    of scenario i (the value of the spec variable `scen`); the driver reads that first schedule step
    to pick the program."""
    inits = []
    with open(dot) as f:
        lines = f.readlines()
    for l in lines:
        m = re.match(r'^(-?\d+) \[label="((?:[^"\\]|\\.)*)"(.*)$', l)
        if m and 'style = filled' in m.group(3):
            k = re.search(r'scen = (\d+)', m.group(2))
            inits.append((m.group(1), int(k.group(1))))
    with open(out, 'w') as g:
        g.write(lines[0])
        g.write('999 [label="root",style = filled]\n')
        for node, k in sorted(inits, key=lambda x: x[1]):
            g.write('999 -> %s [label="Scen(\\"%d\\")",color="black",fontcolor="black"];\n' % (node, k))
        g.writelines(lines[1:])
    os.remove(dot)
    return len(inits)


def validate(ctx, module, cfg, trace, what, **kw):
    """ctx.validate + removal of the *_TTrace_* files TLC drops into the spec directory on a violation."""
    import glob
    from vlib import ROOT
    try:
        return ctx.validate(SPEC, module, cfg, trace, what, **kw)
    finally:
        for f in glob.glob(os.path.join(ROOT, SPEC, '*_TTrace_*')):
            try:
                os.remove(f)
            except OSError:
                pass


def cat(files, out):
    with open(out, 'w') as g:
        for f in files:
            with open(f) as h:
                g.write(h.read())
    return out


def cover_replay(ctx, exe, cfg, scen, what, exempt):
    """E1 on a cover configuration + E2 replay of every transition; returns (trace file, executions)."""
    dot = os.path.join(ctx.work, scen + '.dot')
    ctx.check_model(SPEC, 'MCEvent.tla', cfg, what, label='cover ' + scen, dump=dot, workers=4,
                    vacuity_exempt=exempt, extra=['-noGenerateSpecTE'])
    dot2 = os.path.join(ctx.work, scen + '.root.dot')
    ninit = multi_init(dot, dot2)
    sched = os.path.join(ctx.work, scen + '.sched')
    info = ctx.walker(dot2, sched)
    info['scenarios'] = ninit
    ctx.cov['cover_graph_' + scen] = info
    if info.get('covered_edges') != info.get('reachable_edges'):
        from vlib import ToolError
        raise ToolError('walker did not cover the whole graph: %s' % info)
    tr = os.path.join(ctx.work, scen + '.ndjson')
    tot, _ = ctx.driver(exe, ['--out', tr, '--scen', scen_text(ctx, scen), '--schedules', sched], what,
                        label='cover replay ' + scen, allow_incomplete=True)
    return tr, tot.get('completed', 0)


def check_live(ctx, cfg, what, label, exempt, timeout=900):
    """check_model for a configuration with temporal PROPERTIES.  bin/vlib.py does not recognise TLC's
    "Temporal property X was violated" message and raises a tool error; turn it into the violation it is."""
    from vlib import ToolError
    try:
        return ctx.check_model(SPEC, 'MCEvent.tla', cfg, what, workers=4, timeout=timeout, label=label,
                               vacuity_exempt=exempt, extra=['-noGenerateSpecTE'])
    except ToolError as e:
        m = re.search(r'Temporal property (\w+) was violated', str(e))
        if not m:
            raise
        path = ctx.save_replay('%s-MCEvent.tla-%s.txt' % (ctx.prop, cfg.replace('.cfg', '')),
                               'TLC: temporal property %s violated on MCEvent.tla/%s\n\n%s' % (m.group(1), cfg, e))
        ctx.violation('model:MCEvent.tla:%s:Temporal %s' % (cfg, m.group(1)),
                      '%s: progress property %s violated in the model' % (what, m.group(1)), path)
        return None


def expect_violation(ctx, cfg, want, label):
    """Negative control: the configuration must violate `want` ("Invariant X" / "Temporal X")."""
    from vlib import ToolError
    got = None
    try:
        res = ctx.tlc(SPEC, 'MCEvent.tla', cfg, workers=4, count=False, extra=['-noGenerateSpecTE'], label=label)
        got = res.violation
    except ToolError as e:
        m = re.search(r'Temporal property (\w+) was violated', str(e))
        if not m:
            raise
        got = 'Temporal ' + m.group(1)
    if got != want:
        raise ToolError('vacuous property: %s does not violate %s (got %s)' % (cfg, want, got))


def run(ctx):
    from vlib import ToolError
    thorough = ctx.tier == 'thorough'
    exe = ctx.build('drv_event', SRCS)

    # E1 + E2 ---------------------------------------------------------------------------------
    tr_cover, n_cover = cover_replay(ctx, exe, 'MC_cover_c21.cfg', 'scen_cover_c21', WHAT, TIMED)

    # E1 progress ------------------------------------------------------------------------------
    live_exempt = TIMED + ('FutexSpurious', 'EvCompleted', 'EvReset')
    if thorough:
        check_live(ctx, 'MC_live.cfg', WHAT + ' (progress)',
                   'progress, WF per thread: counts 1..3, all decrement splits, 1-2 waiters', live_exempt, 1500)
    else:
        check_live(ctx, 'MC_live_quick.cfg', WHAT + ' (progress)',
                   'progress: counts 1..3, count_down(1..3)/arrive_and_wait, 1-2 waiters (<= 3 threads)',
                   live_exempt)
    # negative control: the design dispenso shipped (notify iff previous count == 1) loses the wake-up
    expect_violation(ctx, 'MC_bug.cfg', 'Temporal WaitersReturn',
                     'negative control: pre-fix count_down(n) must violate WaitersReturn')
    if thorough:
        expect_violation(ctx, 'MC_bug_inv.cfg', 'Invariant NoLostWakeup',
                         'negative control: pre-fix count_down(n) must violate NoLostWakeup')

    # E4 ---------------------------------------------------------------------------------------
    traces = [tr_cover]
    execs = n_cover
    n = 4000 if thorough else 300
    for pct in (0, 3):
        tr = os.path.join(ctx.work, 'rand_p%d.ndjson' % pct)
        tot, _ = ctx.driver(exe, ['--out', tr, '--randprog', 'c21', '--random', n, '--seed', ctx.seed + pct,
                                  '--pct', pct], WHAT, label='random programs pct%d' % pct, allow_incomplete=True)
        traces.append(tr)
        execs += tot.get('completed', 0)
    # without spurious wake-ups nothing but the real wake-up can rescue a sleeping waiter
    tr = os.path.join(ctx.work, 'rand_nospurious.ndjson')
    tot, _ = ctx.driver(exe, ['--out', tr, '--randprog', 'c21', '--random', n, '--seed', ctx.seed + 7,
                              '--nospurious'], WHAT, label='random programs, no spurious wake-ups',
                        allow_incomplete=True)
    traces.append(tr)
    execs += tot.get('completed', 0)
    # a latch that never reaches zero: the Deadlock event must be accepted (and only then)
    tr = os.path.join(ctx.work, 'stuck.ndjson')
    tot, _ = ctx.driver(exe, ['--out', tr, '--scen', scen_text(ctx, 'scen_stuck'), '--index', 1, '--random', 1,
                              '--seed', ctx.seed, '--nospurious'], WHAT, label='legitimately stuck latch',
                        allow_incomplete=True)
    if tot.get('deadlocks', 0) != 1:
        raise ToolError('the stuck-latch control run did not deadlock: %s' % tot)
    traces.append(tr)

    # E3 ---------------------------------------------------------------------------------------
    allt = cat(traces, os.path.join(ctx.work, 'all.ndjson'))
    validate(ctx, 'EventTrace.tla', 'EventTrace.cfg', allt, WHAT, executions=execs,
             label='cover replay + random + stuck control')
    # E5: free-running races (real futex, inert hooks): the windows BETWEEN two hook points of wait() ----------
    race = os.path.join(ctx.work, 'race.ndjson')
    rounds = 3000000 if thorough else 600000
    tot, _ = ctx.driver(exe, ['--out', race, '--race', rounds, '--seed', ctx.seed], WHAT,
                        label='free-running wait() vs notify()/count_down() races', allow_incomplete=True, timeout=1500)
    validate(ctx, 'RaceObs.tla', 'RaceObs.cfg', race, WHAT, executions=tot.get('executions', 0),
             label='free-running races: every waiter returns once the completing call returned')
    ctx.cov['free_running_race_rounds'] = tot.get('executions', 0)
    ctx.sample_trace(tr_cover, 14)
    ctx.sample_trace(tr, 8)
    ctx.assumptions += [
        'free-running rounds (E5): a waiter counts as lost if it has not returned 10 s (wall clock) after the completing call returned',
        'TLA+ interleaving semantics are sequentially consistent (weak-memory effects are C10)',
        'the futex is the model of harness/ctl: FUTEX_WAIT compares and blocks atomically, FUTEX_WAKE(INT_MAX) '
        'wakes every queued waiter, waits may return spuriously (R4)',
        'programs respect the documented contracts: one publisher per event, reset only when the event is '
        'otherwise unused, latch decrements never exceed the count',
        'only the Linux/FreeBSD CompletionEventImpl is compiled and checked (not os_sync / WaitOnAddress / condvar)',
        'TLC, the JSON/IOUtils community modules and g++ are trusted',
    ]
