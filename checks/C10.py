"""C10 - no data races under the weak memory model (declared memory orders).

Each implementation-level spec is composed with spec/lib/MemOrder.tla (vector-clock happens-before over
the DECLARED orders: acquire/release/acq_rel/seq_cst, release sequences, RMWs).  The order of every atomic
access is extracted from the CURRENT working tree by bin/extract_orders.py (the statement that follows the
DISPENSO_VERIF_POINT naming the spec action), so weakening an order in the source changes the model TLC checks.
TLC then checks RaceFree (no unordered conflicting non-atomic accesses) over all interleavings.
The HB module itself is validated on message-passing litmus programs (clean and racy) in every run.
"""
import os
import shutil
import re
import subprocess
import sys

import vlib

WHAT = 'no data race on non-atomic state under the declared memory orders'

# component -> (spec dir, files to copy, source files (relative to dispenso/), Orders module, MC module, [(cfg, label, tier)])
COMPONENTS = [
    ('mpmc', 'spec/mpmc', ['Mpmc.tla', 'MpmcHB.tla', 'MCMpmcHB.tla', 'MC_hb1.cfg', 'MC_hb2.cfg'],
     ['mpmc_ring_buffer.h'], 'OrdersMpmc', 'MCMpmcHB.tla',
     [('MC_hb1.cfg', 'MpmcRingBuffer 2P+2C cap 2: push, batch, pop, pop->OpResult', 'quick'),
      ('MC_hb2.cfg', 'MpmcRingBuffer 1P+2C: push/emplace, pop/pop_into, mixed', 'quick')]),
    ('spsc', 'spec/spsc', ['Spsc.tla', 'SpscHB.tla', 'MCSpscHB.tla', 'MC_hb.cfg', 'MC_hb2.cfg'],
     ['spsc_ring_buffer.h'], 'OrdersSpsc', 'MCSpscHB.tla',
     [('MC_hb.cfg', 'SPSCRingBuffer: push/emplace/batch vs pop/pop_batch/pop->OpResult/pop_into, capacity 2', 'quick'),
      ('MC_hb2.cfg', 'SPSCRingBuffer: 6 single pushes (all variants) vs 6 pops (all variants), slots reused', 'quick')]),
    ('event', 'spec/event', ['Event.tla', 'TimedWaitProps.tla', 'EventHB.tla', 'MCEventHB.tla', 'MC_hb.cfg'],
     ['latch.h', 'detail/completion_event_impl.h'], 'OrdersEvent', 'MCEventHB.tla',
     [('MC_hb.cfg', 'CompletionEvent notify/wait/waitFor and Latch count_down/arrive_and_wait/wait/try_wait publishing data', 'quick')]),
    ('asyncreq', 'spec/asyncreq',
     ['AsyncReq.tla', 'AsyncReqHB.tla', 'MCAsyncReqHB.tla', 'MC_hb1.cfg', 'MC_hb2.cfg', 'MC_hb3.cfg', 'MC_hb_pub1.cfg', 'MC_hb_pub2.cfg'],
     ['async_request.h'], 'OrdersAsyncReq', 'MCAsyncReqHB.tla',
     [('MC_hb1.cfg', 'AsyncRequest 1 consumer + 1 producer, up to 4 rounds (slot reused), polling on both sides', 'quick'),
      ('MC_hb2.cfg', 'AsyncRequest 2 consumers x 2 producers, all operations, request/emplace/get of a round by different threads', 'thorough'),
      ('MC_hb3.cfg', 'AsyncRequest 2 consumers + 1 producer, std::optional with trivially movable T (move only reads obj_)', 'thorough'),
      ('MC_hb_pub1.cfg', 'AsyncRequest publishing request data: 1 consumer, 1 producer reading after updateRequested()/tryEmplaceUpdate()', 'quick'),
      ('MC_hb_pub2.cfg', 'AsyncRequest publishing request data: 1 consumer, 2 producers', 'thorough')]),
    ('drwlock', 'spec/drwlock', ['DRWLock.tla', 'DRWLockHB.tla', 'MCDRWLockHB.tla', 'MC_hb1.cfg', 'MC_hb2.cfg', 'MC_hb3.cfg'],
     ['detail/rw_lock_impl.h', 'detail/completion_event_impl.h'], 'OrdersDRWLock', 'MCDRWLockHB.tla',
     [('MC_hb1.cfg', 'DistributedRWLock N=2: lock/try_lock(roll-back, drain)/unlock vs lock_shared/try_lock_shared on both slots, data cell under the lock', 'quick'),
      ('MC_hb2.cfg', 'DistributedRWLock N=1/2: writer-writer-reader chains (spin loop, 2nd ShAdd/SetWb), threads that are reader and writer, try variants', 'quick'),
      ('MC_hb3.cfg', 'DistributedRWLock N=2: 3 threads x 2 segments, all six operations, every thread reader and writer', 'thorough')]),
    ('rwlock', 'spec/rwlock', ['RWLock.tla', 'RWLockHB.tla', 'MCRWLockHB.tla', 'MC_hb1.cfg', 'MC_hb2.cfg'],
     ['rw_lock.h', 'detail/rw_lock_impl.h', 'detail/completion_event_impl.h'], 'OrdersRWLock', 'MCRWLockHB.tla',
     [('MC_hb1.cfg', 'RWLock 3 threads: lock/try_lock/unlock, lock_shared/try_lock_shared/unlock_shared, lock_downgrade; retrying reader, writer after writer, try_lock over draining readers + roll-back', 'thorough'),
      ('MC_hb2.cfg', 'RWLock lock_upgrade/lock_downgrade with a single writer thread (documented contract) vs blocking and try readers', 'quick')]),
    ('taskset', 'spec/taskset',
     ['TaskSet.tla', 'MCTaskSet.tla', 'TaskSetHB.tla', 'MCTaskSetHB.tla', 'MC_hb1.cfg', 'MC_hb2.cfg', 'MC_hb3.cfg'],
     ['task_set.cpp', 'detail/task_set_impl.h', 'task_set.h'], 'OrdersTaskSet', 'MCTaskSetHB.tla',
     [('MC_hb1.cfg', 'TaskSet: inline/queued/ring/bulk/force-queued paths, throwers, tryWait+wait, set reused after a delivered exception, destructor', 'quick'),
      ('MC_hb2.cfg', 'ConcurrentTaskSet: racing throwers, fork-join recursion, two scheduling threads, waiter != creator, nested set with cascading cancel (child list + mutex)', 'quick'),
      ('MC_hb3.cfg', 'kHeavy (schedulePlaced/bulkPlaced), 2-thread pools, cancel from a second thread, 4 tasks from two threads', 'thorough')]),
    # (MC_hbx_* = exactly the extracted orders; the MC_hb_* variants of spec/future assume an acquire before dealloc and
    #  were only used while the release-only last decrement of the reference count was an open finding: fix 3ffa040)
    ('future', 'spec/future',
     ['FutureBase.tla', 'WhenAll.tla', 'Future.tla', 'FutureHB.tla', 'MCFutureHB.tla'] +
     ['MC_hbx_%s.cfg' % n for n in ('drop', 'two', 'then', 'then2', 'wall2', 'wany', 'timed', 'wall', 'wallt', 'wanyt', 'wany3')],
     ['detail/future_impl.h', 'detail/future_impl2.h', 'detail/completion_event_impl.h'], 'OrdersFuture', 'MCFutureHB.tla',
     [('MC_hbx_two.cfg', 'Future: queue runner vs inline waiter, 2 owners get + destroy', 'quick'),
      ('MC_hbx_then.cfg', 'Future::then before/while/after completion, continuation read by main', 'quick'),
      ('MC_hbx_drop.cfg', 'creator drops its handle while the queue thread runs the functor', 'quick'),
      ('MC_hbx_wanyt.cfg', 'when_any tuple overload', 'thorough'),
      ('MC_hbx_wallt.cfg', 'when_all tuple overload', 'thorough'),
      ('MC_hbx_then2.cfg', 'two threads push on one then-chain (push/take CAS failures)', 'thorough'),
      ('MC_hbx_wall2.cfg', 'when_all of 2 inputs (iterators)', 'thorough'),
      ('MC_hbx_wany.cfg', 'when_any of 2 inputs (iterators)', 'thorough'),
      ('MC_hbx_timed.cfg', 'wait_for / wait_until / is_ready', 'thorough'),
      ('MC_hbx_wall.cfg', 'when_all + destruction of inputs', 'thorough'),
      ('MC_hbx_wany3.cfg', 'when_any, 2 queue threads + getter', 'thorough')]),
    ('sba', 'spec/sba', ['Sba.tla', 'SbaHB.tla', 'MCSbaHB.tla', 'MC_hb1.cfg', 'MC_hb2.cfg', 'MC_hb3.cfg'],
     ['detail/small_buffer_allocator_impl.h', 'small_buffer_allocator.cpp'], 'OrdersSba', 'MCSbaHB.tla',
     [('MC_hb1.cfg', 'SmallBufferAllocator backingStoreLock: 2 grabbers (ticket winner/loser+spin, 2nd malloc) that also call bytesAllocated + 1 diagnostics thread x2 (failed CAS); backingStore vector under the lock', 'quick'),
      ('MC_hb2.cfg', 'SmallBufferAllocator: batch larger than a slab (same thread mallocs twice, up to 3 slabs), both threads writer and reader of backingStore', 'thorough'),
      ('MC_hb3.cfg', 'SmallBufferAllocator: 3 grabbers, each also bytesAllocated', 'thorough')]),
    ('poolalloc', 'spec/poolalloc', ['PoolAlloc.tla', 'PoolAllocHB.tla', 'MCPoolAllocHB.tla', 'MC_hb1.cfg', 'MC_hb2.cfg', 'MC_hb3.cfg'],
     ['pool_allocator.cpp', 'pool_allocator.h'], 'OrdersPoolAlloc', 'MCPoolAllocHB.tla',
     [('MC_hb1.cfg', 'PoolAllocator 2 chunks/slab: 3 threads alloc (slab + free-list path)/dealloc (own chunk, chunk of an earlier phase), chunk memory reused across threads; then clear/cap/recycled+fresh slabs single-threaded; destructor', 'thorough'),
      ('MC_hb2.cfg', 'PoolAllocator 1 chunk/slab: every reuse goes dealloc -> alloc of another thread, clear() twice', 'quick'),
      ('MC_hb3.cfg', 'PoolAllocator 3 chunks/slab, 3 threads, two concurrent phases with cross-phase dealloc', 'thorough')]),
    ('cvec', 'spec/cvec', ['CVec.tla', 'CVecHB.tla', 'MCCVecHB.tla', 'MC_hb1.cfg', 'MC_hb2.cfg', 'MC_hb3.cfg', 'MC_hb4.cfg', 'MC_hbx_iterend.cfg'],
     ['concurrent_vector.h', 'detail/concurrent_vector_impl.h', 'detail/concurrent_vector_impl2.h'], 'OrdersCVec', 'MCCVecHB.tla',
     [('MC_hb1.cfg', 'ConcurrentVector push/emplace_back: 2 growers x 2, trigger + first index of the new bucket, 3 strategies, cachedPtrs on/off, both iterator kinds, reader of handed-over elements', 'thorough'),
      ('MC_hb2.cfg', 'ConcurrentVector grow_by(range/value)/grow_to_at_least + push, 3 strategies + pre-allocated bucket, reader', 'quick'),
      ('MC_hb4.cfg', 'readers stepping off the end of handed-over ranges: kAsNeeded single path, range path all strategies', 'quick'),
      ('MC_hbx_iterend.cfg', 'iterator ++ past the last element of a bucket with look-ahead allocation (fixed by 84af4de: reads buffers_, not cachedPtrs_)', 'quick'),
      ('MC_hb3.cfg', '3 growers (push, grow_by_generator, grow_to_at_least) + size()/end()/element observer, 4 configurations', 'thorough')]),
    ('arena', 'spec/arena',
     ['Arena.tla', 'ArenaHB.tla', 'MCArenaHB.tla', 'MC_hb1.cfg', 'MC_hb2.cfg', 'MC_hb3.cfg', 'MC_hb_nb_rest.cfg', 'MC_hbx_nb.cfg'],
     ['concurrent_object_arena.h'], 'OrdersArena', 'MCArenaHB.tla',
     [('MC_hb1.cfg', 'ConcurrentObjectArena buffer size 2: buffer entered in place into the published table, lock-free grower, hand-over readers, size/capacity, copy / copy-assign / destroy', 'quick'),
      ('MC_hb3.cfg', 'ConcurrentObjectArena buffer size 2: grow_by(4) = in-place + table doubling in one critical section, 3 growers, copy/swap/move', 'quick'),
      ('MC_hb2.cfg', 'ConcurrentObjectArena buffer size 1, table 2->4->8: operator[] / getBuffer on old elements while the table is doubled twice', 'thorough'),
      ('MC_hb_nb_rest.cfg', 'program with a concurrent numBuffers(): all locations except buffersPos_', 'quick'),
      ('MC_hbx_nb.cfg', 'numBuffers() ("Concurrency safe") vs allocateBuffer() (buffersPos_ atomic since the fix)', 'quick')]),
    ('graph', 'spec/graph',
     ['Graph.tla', 'MCGraph.tla', 'GraphHB.tla', 'MCGraphHB.tla'] + ['MC_hb%d.cfg' % i for i in range(1, 11)],
     ['graph.h', 'detail/graph_executor_impl.h', 'graph_executor.cpp'], 'OrdersGraph', 'MCGraphHB.tla',
     [('MC_hb1.cfg', 'Graph diamond, ConcurrentTaskSetExecutor, 3 threads', 'quick'),
      ('MC_hb2.cfg', 'Graph diamond, ParallelForExecutor + SingleThreadExecutor, 3 threads (wave join)', 'quick'),
      ('MC_hb7.cfg', 'Graph: 3 predecessors of one node (release sequence of 3 RMWs), cts + pf, 3 threads', 'quick'),
      ('MC_hb8.cfg', 'BiPropGraph diamond (dependsOn/biPropDependsOn mixes), cts, 3 threads: GrLd + GrDec', 'quick'),
      ('MC_hb9.cfg', 'BiPropGraph all 3-node graphs, cts, 2 evaluations with setIncomplete + ForwardPropagator (GrLd skips a completed dependent, data of an earlier evaluation)', 'quick'),
      ('MC_hb10.cfg', 'Graph diamond, ParallelForExecutor, 2 evaluations (setIncomplete, ForwardPropagator / setAllNodesIncomplete)', 'thorough'),
      ('MC_hb3.cfg', 'BiPropGraph all 3-node graphs, cts + pf, 2 evaluations', 'thorough'),
      ('MC_hb4.cfg', 'Graph all 4-node DAGs, cts + pf, 2 threads', 'thorough'),
      ('MC_hb5.cfg', 'Graph diamond, cts + pf, 3 threads, 2 evaluations with 2 marks', 'thorough'),
      ('MC_hb6.cfg', 'BiPropGraph diamond + shortcut 1->4, cts + pf, 3 threads', 'thorough')]),
    ('timedtask', 'spec/timedtask',
     ['TimedTask.tla', 'MCTimedTask.tla', 'TimedTaskHB.tla', 'MCTimedTaskHB.tla', 'MC_hb1.cfg', 'MC_hb2.cfg', 'MC_hb3.cfg', 'MC_hb4.cfg'],
     ['timed_task.h', 'timed_task.cpp', 'detail/timed_task_impl.h', 'detail/epoch_waiter.h'], 'OrdersTimedTask', 'MCTimedTaskHB.tla',
     [('MC_hb1.cfg', 'TimedTask on ImmediateInvoker: run by creator/scheduler thread, re-arm, cancel, calls(), destructor, detach (last owner destroys impl), functor returning false, scheduler destroyed first (6 programs)', 'quick'),
      ('MC_hb2.cfg', 'TimedTask on a pool thread: functor returns false (wrapper clears func vs next kick-off), calls()/destructor racing with runs', 'thorough'),
      ('MC_hb3.cfg', 'pool: 3 runs due at once, first returns false; detached task on a pool, impl destroyed by last owner', 'thorough'),
      ('MC_hb4.cfg', 'two tasks from two creating threads, queue holds two impls (comparator reads nextAbsTime), re-arm by creator, scheduler pops both', 'thorough')]),
    ('pipeline', 'spec/pipeline',
     ['Gate.tla', 'Pipeline.tla', 'PipelineHB.tla', 'MCPipelineHB.tla', 'MC_hb1.cfg', 'MC_hb2.cfg', 'MC_hb3.cfg', 'MC_hb4.cfg'],
     ['detail/pipeline_impl.h', 'task_set.cpp', 'detail/task_set_impl.h', 'detail/completion_event_impl.h'],
     'OrdersPipeline', 'MCPipelineHB.tla',
     [('MC_hb1.cfg', 'pipeline serial stages: functor state handed over through resources_, backlog queue, inline continuation / force-queued continuation, caller helping, 0/1/2-thread pools, one-stage pipeline', 'quick'),
      ('MC_hb3.cfg', 'pipeline with throwing generator / sink / unlimited stage, two generator instances: exception slot, cancelled set, discarded / dropped / skipped items', 'quick'),
      ('MC_hb2.cfg', 'pipeline parallel (limit 2) and unlimited stages, every hand-over through the pool (never inline)', 'thorough'),
      ('MC_hb4.cfg', 'pipeline serial->unlimited->serial, 3 items on 2 workers, limit-2 sink with 3 items, throwing limit-2 middle stage', 'thorough')]),
    ('pool', 'spec/pool',
     ['ThreadPool.tla', 'PoolAbs.tla', 'PoolHB.tla', 'MCPoolHB.tla'] + ['MC_hb%d.cfg' % i for i in range(1, 9)] +
     ['MC_hbx4.cfg', 'MC_hbx5.cfg', 'MC_hbx6.cfg', 'MC_hbr4.cfg'],
     # (file order matters: the occurrence indices of PoolHB.tla assume thread_pool.h before thread_pool.cpp; OrdersComplete checks them)
     ['thread_pool.h', 'thread_pool.cpp', 'thread_pool_wake.cpp', 'detail/thread_pool_wake.h', 'detail/epoch_waiter.h', 'mpmc_ring_buffer.h'],
     'OrdersPool', 'MCPoolHB.tla',
     [('MC_hb1.cfg', 'ThreadPool 1 worker: schedule(ForceQueuing) + inline-or-queued schedule, destructor join/drain', 'quick'),
      ('MC_hb2.cfg', 'ThreadPool 1 worker: ring fast path (MPMC ring hand-over) + scheduleBulk via central queue', 'quick'),
      ('MC_hb3.cfg', 'ThreadPool placed scheduling into a parked pool: claim, steal ring, re-wake, central fallback', 'thorough'),
      ('MC_hb4.cfg', 'external submitter (fq + ring bulk) racing resize 0->1: first PoolWakeState, grown arenas', 'quick'),
      ('MC_hb5.cfg', 'external placed submitter racing resize 0->1 (steal ring of the grown arena)', 'quick'),
      ('MC_hb6.cfg', 'setSignalingWake (two resizes + enable store, 2nd PoolWakeState) racing a submitter', 'thorough'),
      ('MC_hb7.cfg', '2 workers, 2 wake groups: ring fast path with cascade-wrapped tasks out of a parked pool', 'thorough'),
      ('MC_hb8.cfg', '2 workers, 2 steal rings: placed submission, kernel wakes the unclaimed waiter', 'thorough'),
      ('MC_hbr4.cfg', 'declared orders only: the ring objects of a grown arena are protected by the numRings_ release/acquire pair', 'quick')]),
]
# components whose orders cannot be seen by bin/extract_orders.py (the order is a function parameter chosen at the call
# sites): the Orders module comes from a generator in the component's spec directory with the same command line; it exits
# non-zero when a source pattern it relies on is missing
GENERATORS = {'graph': 'spec/graph/hbgen.py'}
# a second generator run after the extractor: `<script> <work dir> <dispenso source dir>` writes a further Orders module
# for orders that are reached through a helper function (pool: detail::consumeLoad(), PoolWakeState::totalSleeping())
POST_GENERATORS = {'pool': 'spec/pool/hbgen.py'}
# STRICT configurations: exactly the declared orders.  The pool's other configurations would count a RELAXED load inside
# detail::consumeLoad() as a consume load (DepOrd = TRUE: the dependency ordering that the old comment in thread_pool.h
# claimed); the strict ones do not.  They found the race on the PoolWakeState object that /repo fix 2885c35 repaired
# (consumeLoad is an acquire load now) and report it again, signature `model:pool:consume-load`, if the load is ever weakened
STRICT = {'pool': [('MC_hbx5.cfg', 'declared orders only: external placed submitter racing resize 0->1', 'quick'),
                   ('MC_hbx4.cfg', 'declared orders only: external fq + ring-bulk submitter racing resize 0->1', 'thorough'),
                   ('MC_hbx6.cfg', 'declared orders only: setSignalingWake racing a submitter', 'thorough')]}
# components whose code uses std::atomic_thread_fence: composed with spec/lib/MemOrderF.tla.  `tentative` cfgs additionally
# count the discarded tentative reads of losing stealers: a violation there is replayed on the real deque and reported
# (known finding: the formal race of Chase-Lev with plain slots).
FENCE_COMPONENTS = [
    ('chaselev', 'spec/chaselev', ['ChaseLev.tla', 'ChaseLevHB.tla', 'MCChaseLevHB.tla', 'MC_hb1.cfg', 'MC_hb2.cfg', 'MC_hbt1.cfg', 'MC_hbt2.cfg'],
     ['chase_lev_deque.h'], 'OrdersChaseLev', 'MCChaseLevHB.tla',
     [('MC_hb1.cfg', 'ChaseLevDeque capacity 2: owner push x4 (wrap-around) / pop / pop_into vs 2 stealers (steal, steal_into)', 'quick'),
      ('MC_hb2.cfg', 'ChaseLevDeque capacity 1: every push reuses the slot; owner vs 2 stealers + observer', 'quick')],
     [('MC_hbt2.cfg', 1, 'o:push1,push2,pop,push3,push4;s1:steal,steal;s2:stealinto,empty', 'quick'),
      ('MC_hbt1.cfg', 2, 'o:push1,push2,pop,push3,popinto,push4;s1:steal,stealinto;s2:stealinto', 'thorough')]),
]
LITMUSF_CLEAN = ['clean_ff', 'clean_fsc', 'clean_fa', 'clean_rf']
LITMUSF_RACY = ['racy_nowf', 'racy_norf', 'racy_wrongkind', 'racy_wrongkind2']
LITMUS_CLEAN = ['clean_relacq', 'clean_seqcst', 'clean_rmw']
LITMUS_RACY = ['racy_wrelaxed', 'racy_rrelaxed', 'racy_rmwrelaxed', 'racy_broken_relseq']


def run(ctx):
    thorough = ctx.tier == 'thorough'
    # 1. self-test of the happens-before module
    for name in LITMUS_CLEAN + LITMUS_RACY:
        r = ctx.tlc('spec/lib', 'Litmus.tla', 'Litmus_%s.cfg' % name, workers=1, label='litmus ' + name, timeout=300)
        racy = r.violation == 'Invariant RaceFree'
        if racy != (name in LITMUS_RACY):
            raise vlib.ToolError('MemOrder self-test failed on litmus %s (violation=%s)' % (name, r.violation))
    for name in LITMUSF_CLEAN + LITMUSF_RACY:
        r = ctx.tlc('spec/lib', 'LitmusF.tla', 'LitmusF_%s.cfg' % name, workers=1, label='fence litmus ' + name, timeout=300)
        racy = r.violation == 'Invariant RaceFree'
        if racy != (name in LITMUSF_RACY):
            raise vlib.ToolError('MemOrderF self-test failed on fence litmus %s (violation=%s)' % (name, r.violation))
    # 2. components
    extracted = {}
    tentative = {}
    for entry in COMPONENTS + FENCE_COMPONENTS:
        comp, specdir, files, sources, ordmod, mcmod, cfgs = entry[:7]
        if len(entry) > 7:
            tentative[comp] = entry[7]
        wd = os.path.join(ctx.work, comp)
        os.makedirs(wd, exist_ok=True)
        for f in files:
            shutil.copy(os.path.join(vlib.ROOT, specdir, f), wd)
        shutil.copy(os.path.join(vlib.ROOT, 'spec/lib/MemOrder.tla'), wd)
        shutil.copy(os.path.join(vlib.ROOT, 'spec/lib/MemOrderF.tla'), wd)
        srcs = [os.path.join(vlib.REPO, 'dispenso', s) for s in sources]
        p = subprocess.run([sys.executable, os.path.join(vlib.ROOT, GENERATORS.get(comp, 'bin/extract_orders.py')), ordmod,
                            os.path.join(wd, ordmod + '.tla')] + srcs, stdout=subprocess.PIPE, stderr=subprocess.STDOUT, text=True)
        if p.returncode != 0:
            raise vlib.ToolError('extract_orders failed for %s: %s' % (comp, p.stdout[-2000:]))
        extracted[comp] = open(os.path.join(wd, ordmod + '.tla')).read()
        if comp in POST_GENERATORS:
            p = subprocess.run([sys.executable, os.path.join(vlib.ROOT, POST_GENERATORS[comp]), wd, os.path.join(vlib.REPO, 'dispenso')],
                               stdout=subprocess.PIPE, stderr=subprocess.STDOUT, text=True)
            if p.returncode != 0:
                raise vlib.ToolError('%s failed for %s (a source pattern the overlay relies on is gone): %s'
                                     % (POST_GENERATORS[comp], comp, p.stdout[-2000:]))
            extracted[comp] += '\n' + '\n'.join(open(os.path.join(wd, f)).read() for f in sorted(os.listdir(wd))
                                                 if f.startswith('Orders') and f != ordmod + '.tla')
        for cfg, label, tier in cfgs:
            if tier == 'thorough' and not thorough:
                continue
            r = ctx.tlc(wd, mcmod, cfg, workers=6, label=label, timeout=1500)
            if r.violation == 'Invariant OrdersComplete':
                raise vlib.ToolError('a hooked statement of %s has no atomic operation (stale site table):\n%s'
                                     % (comp, extracted[comp]))
            if r.violation:
                path = ctx.save_replay('C10-%s-%s.txt' % (comp, cfg.replace('.cfg', '')),
                                       'component %s, %s\nTLC: %s\n\nmemory orders extracted from the working tree:\n%s\n\n%s'
                                       % (comp, label, r.violation, extracted[comp], r.counterexample()))
                ctx.violation('model:%s:%s:%s' % (comp, cfg, r.violation), WHAT + ' [' + label + ']: ' + r.violation, path)
    # 2b. strict configurations (declared orders only)
    for comp, cfgs in STRICT.items():
        wd = os.path.join(ctx.work, comp)
        mcmod = [e for e in COMPONENTS if e[0] == comp][0][5]
        for cfg, label, tier in cfgs:
            if tier == 'thorough' and not thorough:
                continue
            r = ctx.tlc(wd, mcmod, cfg, workers=6, label=label, timeout=1500)
            ctx.cov.setdefault('strict_models', []).append({'cfg': cfg, 'violation': r.violation, 'states': r.distinct})
            if not r.violation:
                continue
            cex = r.counterexample()
            races = re.findall(r'race \|-> \{(.*?)\}', cex, flags=re.S)
            last = races[-1] if races else ''
            locs = set(re.findall(r'<<"(\w+)"', last))
            path = ctx.save_replay('C10-%s-%s.txt' % (comp, cfg.replace('.cfg', '')),
                                   'component %s, %s\nTLC: %s\nracing locations: %s\n\nmemory orders extracted from the working tree:\n%s\n\n%s'
                                   % (comp, label, r.violation, last.strip(), extracted[comp], cex))
            if r.violation == 'Invariant RaceFree' and locs and locs <= {'ws'}:
                ctx.violation('model:%s:consume-load' % comp,
                              WHAT + ': the PoolWakeState object built by resize()/setSignalingWake() is published with a release '
                              'store of wakeState_ but read through detail::consumeLoad() = a RELAXED load (+ TSan annotation); under '
                              'the declared orders a concurrently submitting thread has no happens-before edge to the construction [' + label + ']', path)
            else:
                ctx.violation('model:%s:%s:%s' % (comp, cfg, r.violation), WHAT + ' [' + label + ']: ' + r.violation, path)
    # 3. ChaseLevDeque: the discarded tentative slot reads of losing stealers
    for cfg, cap, prog, tier in tentative.get('chaselev', []):
        if tier == 'thorough' and not thorough:
            continue
        wd = os.path.join(ctx.work, 'chaselev')
        r = ctx.tlc(wd, 'MCChaseLevHB.tla', cfg, workers=1, label='ChaseLevDeque incl. tentative steal reads, capacity %d' % cap, timeout=1500)
        ctx.cov.setdefault('tentative_read_models', []).append({'cfg': cfg, 'violation': r.violation, 'states': r.distinct})
        if r.violation == 'Invariant TentativeReadRaceFree':
            cex = os.path.join(wd, cfg + '.cex.txt')
            open(cex, 'w').write(r.counterexample())
            sched = os.path.join(wd, cfg + '.sched')
            p = subprocess.run([sys.executable, os.path.join(vlib.ROOT, 'bin/hbcex2sched.py'), cex], stdout=subprocess.PIPE, text=True)
            open(sched, 'w').write(p.stdout)
            exe = ctx.build('drv_chaselev', ['harness/drv/drv_chaselev.cpp', 'harness/ctl/ctl.cpp'])
            tr = os.path.join(wd, cfg + '.ndjson')
            tot, _ = ctx.driver(exe, ['--out', tr, '--cap', cap, '--prog', prog, '--schedules', sched], WHAT,
                                label='replay of the racy interleaving on the real ChaseLevDeque')
            if tot.get('completed', 0) != 1 or tot.get('diverged', 0):
                raise vlib.ToolError('the real ChaseLevDeque does not follow the counterexample of %s (model and code disagree)' % cfg)
            ctx.cov['traces_replayed_in_impl'] = ctx.cov.get('traces_replayed_in_impl', 0) + 1
            path = ctx.save_replay('C10-chaselev-%s.txt' % cfg.replace('.cfg', ''),
                                   'ChaseLevDeque<int,%d>, program %s\nschedule (replayed on the real deque, no divergence):\n%s\n'
                                   'memory orders extracted from the working tree:\n%s\n\n%s'
                                   % (cap, prog, p.stdout, extracted['chaselev'], r.counterexample()))
            ctx.violation('model:chaselev:tentative-steal-read',
                          WHAT + ': try_steal/try_steal_into read slot[top] before their CAS; a stealer that loaded a stale top_ '
                          'reads the slot while the owner (ordered only after the WINNING stealer) writes it after wrap-around; '
                          'the losing CAS discards the value', path)
        elif r.violation:
            path = ctx.save_replay('C10-chaselev-%s.txt' % cfg.replace('.cfg', ''), r.counterexample())
            ctx.violation('model:chaselev:%s:%s' % (cfg, r.violation), WHAT + ' [ChaseLevDeque incl. tentative reads]: ' + r.violation, path)
    # 4. auxiliary monitor (labelled as such, not the deciding method): the API programs of harness/drv/drv_lifetime.cpp
    #    (pool shutdown, task sets, futures, pipelines, loops, graphs built concurrently on several threads, ...) built with
    #    ThreadSanitizer.  It observes races on state the overlays do not model (lock-protected process-wide caches, code
    #    without hooks); the library's own TSan annotations stay active, so what dispenso declares benign is not reported.
    tsan_exe = ctx.build('drv_lifetime', ['harness/drv/drv_lifetime.cpp', 'harness/ctl/ctl.cpp'], dispenso=vlib.DISPENSO_SRCS,
                         sanitize='thread')
    for k in range(3 if thorough else 1):
        tr = os.path.join(ctx.work, 'tsan_%d.ndjson' % k)
        ctx.driver(tsan_exe, ['--out', tr, '--seed', ctx.seed + k, '--rounds', 4 if thorough else 1], WHAT,
                   label='API programs under ThreadSanitizer (auxiliary monitor)', timeout=1500,
                   env={'TSAN_OPTIONS': 'halt_on_error=1 exitcode=66 second_deadlock_stack=1'})
    ctx.cov['monitor'] = 'tsan (auxiliary; a report fails the driver run)'
    ctx.sample({'extracted_orders_mpmc': extracted.get('mpmc', '')[:3000]})
    ctx.sample({'extracted_orders_event': extracted.get('event', '')[:2000]})
    ctx.cov['components'] = [c[0] for c in COMPONENTS + FENCE_COMPONENTS]
    ctx.cov['litmus'] = LITMUS_CLEAN + LITMUS_RACY + ['fence:' + n for n in LITMUSF_CLEAN + LITMUSF_RACY]
    ctx.cov['traces_validated_against_impl'] = ctx.cov.get('traces_replayed_in_impl', 0)
    ctx.assumptions += [
        'TLC explores sequentially consistent interleavings; each is a legal C++ execution and happens-before is computed from the '
        'declared orders only, so every reported race is real; races that need a non-SC execution can be missed',
        'scope = the components listed in coverage.components, not all of dispenso',
        'the action structure of each spec is kept honest by the SC conformance checks of the owning property (e.g. C34)',
        'release sequences follow the C++11-17 rule (same-thread relaxed stores continue them)',
        'fences ([atomics.fences]): release fence + later atomic write carries the fence clock, atomic read + later acquire fence '
        'acquires it; seq_cst fences add no happens-before edge of their own (spec/lib/MemOrderF.tla, self-tested on fence litmus programs)',
    ]
