"""C10 - no data races under the weak memory model (declared memory orders).

Each implementation-level spec is composed with spec/lib/MemOrder.tla (vector-clock happens-before over
the DECLARED orders: acquire/release/acq_rel/seq_cst, release sequences, RMWs).  The order of every atomic
access is extracted from the CURRENT working tree by bin/extract_orders.py (the statement that follows the
DISPENSO_VERIF_POINT naming the spec action), so weakening an order in the source changes the model TLC checks.
TLC then checks RaceFree (no unordered conflicting non-atomic accesses) over all interleavings.
The HB module itself is validated on message-passing litmus programs (clean and racy) in every run.
"""
import os
import shutil
import subprocess
import sys

import vlib

WHAT = 'no data race on non-atomic state under the declared memory orders'

# component -> (spec dir, files to copy, source files (relative to dispenso/), Orders module, MC module, [(cfg, label, tier)])
COMPONENTS = [
    ('mpmc', 'spec/mpmc', ['Mpmc.tla', 'MpmcHB.tla', 'MCMpmcHB.tla', 'MC_hb1.cfg', 'MC_hb2.cfg'],
     ['mpmc_ring_buffer.h'], 'OrdersMpmc', 'MCMpmcHB.tla',
     [('MC_hb1.cfg', 'MpmcRingBuffer 2P+2C cap 2: push, batch, pop, pop->OpResult', 'quick'),
      ('MC_hb2.cfg', 'MpmcRingBuffer 1P+2C: push/emplace, pop/pop_into, mixed', 'quick')]),
    ('spsc', 'spec/spsc', ['Spsc.tla', 'SpscHB.tla', 'MCSpscHB.tla', 'MC_hb.cfg', 'MC_hb2.cfg'],
     ['spsc_ring_buffer.h'], 'OrdersSpsc', 'MCSpscHB.tla',
     [('MC_hb.cfg', 'SPSCRingBuffer: push/emplace/batch vs pop/pop_batch/pop->OpResult/pop_into, capacity 2', 'quick'),
      ('MC_hb2.cfg', 'SPSCRingBuffer: 6 single pushes (all variants) vs 6 pops (all variants), slots reused', 'quick')]),
    ('event', 'spec/event', ['Event.tla', 'TimedWaitProps.tla', 'EventHB.tla', 'MCEventHB.tla', 'MC_hb.cfg'],
     ['latch.h', 'detail/completion_event_impl.h'], 'OrdersEvent', 'MCEventHB.tla',
     [('MC_hb.cfg', 'CompletionEvent notify/wait/waitFor and Latch count_down/arrive_and_wait/wait/try_wait publishing data', 'quick')]),
]
LITMUS_CLEAN = ['clean_relacq', 'clean_seqcst', 'clean_rmw']
LITMUS_RACY = ['racy_wrelaxed', 'racy_rrelaxed', 'racy_rmwrelaxed', 'racy_broken_relseq']


def run(ctx):
    thorough = ctx.tier == 'thorough'
    # 1. self-test of the happens-before module
    for name in LITMUS_CLEAN + LITMUS_RACY:
        r = ctx.tlc('spec/lib', 'Litmus.tla', 'Litmus_%s.cfg' % name, workers=1, label='litmus ' + name, timeout=300)
        racy = r.violation == 'Invariant RaceFree'
        if racy != (name in LITMUS_RACY):
            raise vlib.ToolError('MemOrder self-test failed on litmus %s (violation=%s)' % (name, r.violation))
    # 2. components
    extracted = {}
    for comp, specdir, files, sources, ordmod, mcmod, cfgs in COMPONENTS:
        wd = os.path.join(ctx.work, comp)
        os.makedirs(wd, exist_ok=True)
        for f in files:
            shutil.copy(os.path.join(vlib.ROOT, specdir, f), wd)
        shutil.copy(os.path.join(vlib.ROOT, 'spec/lib/MemOrder.tla'), wd)
        srcs = [os.path.join(vlib.REPO, 'dispenso', s) for s in sources]
        p = subprocess.run([sys.executable, os.path.join(vlib.ROOT, 'bin/extract_orders.py'), ordmod,
                            os.path.join(wd, ordmod + '.tla')] + srcs, stdout=subprocess.PIPE, stderr=subprocess.STDOUT, text=True)
        if p.returncode != 0:
            raise vlib.ToolError('extract_orders failed for %s: %s' % (comp, p.stdout[-2000:]))
        extracted[comp] = open(os.path.join(wd, ordmod + '.tla')).read()
        for cfg, label, tier in cfgs:
            if tier == 'thorough' and not thorough:
                continue
            r = ctx.tlc(wd, mcmod, cfg, workers=6, label=label, timeout=1500)
            if r.violation == 'Invariant OrdersComplete':
                raise vlib.ToolError('a hooked statement of %s has no atomic operation (stale site table):\n%s'
                                     % (comp, extracted[comp]))
            if r.violation:
                path = ctx.save_replay('C10-%s-%s.txt' % (comp, cfg.replace('.cfg', '')),
                                       'component %s, %s\nTLC: %s\n\nmemory orders extracted from the working tree:\n%s\n\n%s'
                                       % (comp, label, r.violation, extracted[comp], r.counterexample()))
                ctx.violation('model:%s:%s:%s' % (comp, cfg, r.violation), WHAT + ' [' + label + ']: ' + r.violation, path)
    ctx.sample({'extracted_orders_mpmc': extracted.get('mpmc', '')[:3000]})
    ctx.sample({'extracted_orders_event': extracted.get('event', '')[:2000]})
    ctx.cov['components'] = [c[0] for c in COMPONENTS]
    ctx.cov['litmus'] = LITMUS_CLEAN + LITMUS_RACY
    ctx.cov['traces_validated_against_impl'] = 0
    ctx.assumptions += [
        'TLC explores sequentially consistent interleavings; each is a legal C++ execution and happens-before is computed from the '
        'declared orders only, so every reported race is real; races that need a non-SC execution can be missed',
        'scope = the components listed in coverage.components, not all of dispenso',
        'the action structure of each spec is kept honest by the SC conformance checks of the owning property (e.g. C34)',
        'release sequences follow the C++11-17 rule (same-thread relaxed stores continue them)',
    ]
