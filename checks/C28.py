"""C28 - pipeline stages never exceed their concurrency limit (DESIGN 5.4 / C28).

E1  TLC, exhaustive, on spec/pipeline: LimitRespected (inFlight[stage] <= limit[stage] in EVERY state; plain
    function => 1; generator instances <= min(limit, pool) and <= limit) and GateSane (resources_ never above
    the limit), with clean and throwing configurations (the slot is released by the guard on a throw).
E3/E4  REAL pipelines on the REAL pool under the controlled scheduler; the stage functors log begin/end INSIDE
    the bodies with a schedule point in between, so the in-flight count the trace specification derives from
    the notes is the real overlap (R3); LimitRespected is evaluated in every state of every recorded execution.
"""
import random

import pipe_common as pc

WHAT = 'pipeline stages never exceed their concurrency limit'
VAC = ('Terminated',)


def _e1(ctx, thorough):
    ctx.check_model(pc.SPEC, 'MCPipeline.tla', 'MC_limit.cfg', WHAT, workers=4, vacuity_exempt=VAC,
                    label='limits 1/2/unlimited x pool 0..2 x inline/queued, clean and throwing')
    if thorough:
        ctx.check_model(pc.SPEC, 'MCPipeline.tla', 'MC_limit_big.cfg', WHAT, workers=4, vacuity_exempt=pc.SUPP, timeout=1500,
                        label='3 workers racing for 2 slots; generator limit 2 of 3')


def run(ctx):
    thorough = ctx.tier == 'thorough'
    exe = pc.build(ctx)
    if not pc.traces_only():
        _e1(ctx, thorough)
    pc.cleanup()
    rng = random.Random(ctx.seed + 28)
    fixed = [
        pc.cfg(1, [1, 2], 3, 5),                                  # 3 workers + caller race for 2 slots
        pc.cfg(1, [2, 1], 3, 4),                                  # 2 generator instances, serial sink
        pc.cfg(2, [2, 2, 1], 2, 4, raw=0),
        pc.cfg(2, [1, 1, 1], 3, 4, raw=1),                        # plain functions => serial
        pc.cfg(2, [3, 2, 99], 3, 4, thr=[(1, 2)]),                # the guard releases the slot on a throw
        pc.cfg(1, [99, 3], 2, 5),
    ]
    progs = fixed + [_rand_prog(rng) for _ in range(20 if thorough else 4)]
    n = 12 if thorough else 3
    tr, tot = pc.run_programs(ctx, exe, progs, n, ctx.seed, WHAT, 'limit-stressing pipelines')
    ctx.sample({'programs': progs[:8]})
    ctx.sample_trace(tr, 14, skip=60)
    ctx.assumptions += pc.ASSUME


def _rand_prog(rng):
    c, p = pc.random_cfg(rng, rng.random() < 0.3, maxk=5, p=rng.choice([2, 3, 3]))
    return c
