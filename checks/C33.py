"""C33 - ConcurrentVector concurrent growth is exact.

E1  TLC, exhaustive, on the implementation-level spec spec/cvec/CVec.tla (one action per atomic
    access: size_ fetch_add, every buffers_[b] load / store of the single and the range
    allocAsNecessary and of tryAssignBuffer, every iteration of the spins): DistinctIndices,
    NoLostNoOverwrite, FinalSize, AssignedOnce, AddrStable, StorageSound, ConstructedInStorage,
    QuiescentBacked, AllocBalance, NoLeakAfterDestroy in every state of every interleaving of ALL
    programs of 2 growers x 2 operations and 3 growers x 1 operation (push or growth by 1..3 or
    grow_to_at_least) x 3 strategies x initial sizes 0..3 (quick: the 2-grower shapes with first
    bucket 2; thorough: first bucket 1 and 2, all amounts, and 3 growers), and Termination (every spin ends under fair scheduling).
E2  every transition of the three cover graphs (one per reallocation strategy: a trigger-index push,
    a grow_to_at_least and a range growth across a bucket boundary racing, plus a reader) is replayed
    in the real ConcurrentVector under the controlled scheduler ...
E3  ... and the recorded trace (action, thread, returned position, size_, buffers_[] as block/offset,
    shouldDealloc_[], cachedPtrs_[] consistency, live element per slot, cv::alloc / dealloc calls) is
    validated by TLC against the spec (CVecTrace.tla), all invariants on.
E4  seeded random controlled schedules of random programs over all 36 trait combinations.
E5  free-running rounds (drv_cvec --stress): 2-4 real threads grow one fresh vector truly concurrently
    (no controller, inert hook points, random trait combination, first bucket 1/2/4, random programs
    of push_back / emplace_back / grow_by* / grow_by_generator / grow_to_at_least, sometimes a reader
    of the initial elements); one observation record per round (returned positions and size() in
    per-thread program order, final size and contents, reference/iterator mismatch counters, element
    lifetime counters), validated by TLC against spec/cvec/CVecObs.tla: the windows INSIDE a step of
    CVec.tla (e.g. a fetch_add split into load + store) that the controlled engines cannot open.
"""
import json
import os
import re
import shutil
import sys

sys.path.insert(0, os.path.join(os.path.dirname(os.path.abspath(__file__)), '..', 'bin'))
import vlib  # noqa: E402
import walker  # noqa: E402  (graph loader / cover() / label parser of bin/walker.py)

SPEC = 'spec/cvec'
WHAT = 'ConcurrentVector concurrent growth is exact'
COVER_PROG = 'g1:push.10,gtal.7;g2:growr.3.20;r:rd.1'


NODE = re.compile(r'^(-?\d+) \[label="((?:[^"\\]|\\.)*)"(.*)$')


def cover_schedules(dot):
    """State graph with one initial state per configuration -> for every initial state the
    configuration (F, strat, n0 read from the state label) and schedules covering every transition
    reachable from it (bin/walker.py's cover()).  bin/walker.py ends a path where nothing uncovered
    is reachable any more, possibly in the middle of an execution; the controller would then finish
    with the lowest-index runnable thread, which never ends if that thread spins on a bucket another
    thread has yet to publish.  So every path is extended along the graph (shortest way, never
    through a failing spin iteration) to a state in which every thread is done."""
    _, edges, _, nedges = walker.load(dot)
    roots = []
    with open(dot) as f:
        for line in f:
            m = NODE.match(line)
            if m and 'style = filled' in m.group(3):
                lab = m.group(2)
                cfg = {k: int(re.search(r'\b%s = (\d+)' % k, lab).group(1)) for k in ('F', 'strat', 'n0')}
                roots.append((m.group(1), cfg))
    parsed = {}

    def steps_of(u):
        if u not in parsed:
            outs = []
            for v, lab in edges.get(u, ()):
                p = walker.parse_label(lab)
                if p and 't' in p:
                    outs.append((v, {'t': p['t'], 'a': p['a']}))
            parsed[u] = outs
        return parsed[u]

    result = []
    total_paths = total_steps = covered = 0
    for root, cfg in roots:
        paths, tot, cov = walker.cover(root, edges)
        covered += cov
        scheds = []
        for labels in paths:
            cur, sch = root, []
            for lab in labels:
                p = walker.parse_label(lab)
                if not p or 't' not in p:
                    continue   # Destroy: executed by the harness at the end
                nxt = [v for v, q in steps_of(cur) if q['t'] == p['t'] and q['a'] == p['a']]
                if not nxt:
                    raise RuntimeError('path does not follow the graph: %r' % p)
                cur = nxt[0]
                sch.append({'t': p['t'], 'a': p['a']})
            seen, queue, goal = {cur: None}, [cur], None
            while queue:
                u = queue.pop(0)
                outs = [(v, q) for v, q in steps_of(u) if v != u]
                if not outs:
                    goal = u
                    break
                for v, q in outs:
                    if v not in seen:
                        seen[v] = (u, q)
                        queue.append(v)
            tail = []
            while goal is not None and seen[goal] is not None:
                goal, q = seen[goal]
                tail.append(q)
            tail.reverse()
            scheds.append(sch + tail)
        total_paths += len(scheds)
        total_steps += sum(len(x) for x in scheds)
        result.append((cfg, scheds))
    info = {'edges': nedges, 'covered_edges': covered, 'roots': len(roots), 'paths': total_paths,
            'steps': total_steps}
    return result, info


def run(ctx):
    thorough = ctx.tier == 'thorough'
    # -O0: 36 instantiations; the controlled scheduler serialises everything, optimisation is irrelevant
    exe = ctx.build('drv_cvec', ['harness/drv/drv_cvec.cpp', 'harness/ctl/ctl.cpp'], opt='-O0',
                    flags=['-Wno-psabi'])

    # E1 + E2: cover graphs (one initial state per strategy) ------------------------------------
    traces, execs = [], 0
    dot = os.path.join(ctx.work, 'cover.dot')
    ctx.check_model(SPEC, 'MCCVec.tla', 'MC_cover.cfg', WHAT,
                    label='cover: push + gtal | growr 3 | reader, F=2 n0=3, 3 strategies',
                    dump=dot, vacuity_exempt=('EndLdSize', 'SzLd'), workers=4)
    covers, info = cover_schedules(dot)
    os.remove(dot)
    ctx.cov['cover_graph'] = info
    if info['covered_edges'] != info['edges'] or info['roots'] != 3:
        raise vlib.ToolError('cover graph not covered: %r' % info)
    for cfg, scheds in covers:
        # quick: one buffer-placement / iterator-kind combination per strategy (rotating)
        combos = ((1, 1), (0, 0), (1, 0), (0, 1)) if thorough else (((1, 1), (0, 0), (1, 0))[cfg['strat']],)
        sched = os.path.join(ctx.work, 'cover_s%d.sched' % cfg['strat'])
        with open(sched, 'w') as f:
            for sch in scheds:
                f.write(json.dumps(sch, separators=(',', ':')) + '\n')
        for inl, fast in combos:
            tr = os.path.join(ctx.work, 'cover_s%d_%d%d.ndjson' % (cfg['strat'], inl, fast))
            tot, _ = ctx.driver(exe, ['--out', tr, '--F', cfg['F'], '--strat', cfg['strat'], '--inl', inl,
                                      '--fast', fast, '--n0', cfg['n0'], '--prog', COVER_PROG,
                                      '--schedules', sched], WHAT,
                                label='cover replay strategy %d inl=%d fast=%d' % (cfg['strat'], inl, fast))
            # (a crashed / diverged / stuck driver run is already reported; its trace is cut off)
            if tot.get('executions') and not (tot.get('diverged') or tot.get('stuck') or tot.get('deadlocks')):
                traces.append(tr)
                execs += tot.get('completed', 0)
    if traces:
        ctx.sample_trace(traces[-1], 14, skip=1)

    # E1: exhaustive ----------------------------------------------------------------------------
    ex = ('EndLdSize', 'SzLd', 'RdElem')
    if not thorough:
        ctx.check_model(SPEC, 'MCCVec.tla', 'MC_2q.cfg', WHAT, vacuity_exempt=ex, workers=4,
                        label='ALL programs, F=2, 3 strategies: 2 growers x 1 op (push | growth 1..3 | gtal), n0 1,3; '
                              '2 growers x 2 ops (push | growth 3 | gtal), n0 3')
    else:
        ctx.check_model(SPEC, 'MCCVec.tla', 'MC_2x1.cfg', WHAT, vacuity_exempt=ex, workers=4, timeout=3000,
                        label='ALL programs 2 growers x 1 op, F=1,2, 3 strategies, n0 0..3')
        ctx.check_model(SPEC, 'MCCVec.tla', 'MC_2x2.cfg', WHAT, vacuity_exempt=ex, workers=4, timeout=3000,
                        label='ALL programs 2 growers x 2 ops, F=2, 3 strategies, n0 0..3')
        ctx.check_model(SPEC, 'MCCVec.tla', 'MC_2x2_F1.cfg', WHAT, vacuity_exempt=ex, workers=4, timeout=3000,
                        label='ALL programs 2 growers x 2 ops, F=1, 3 strategies, n0 0..3')
        ctx.check_model(SPEC, 'MCCVec.tla', 'MC_3x1_q.cfg', WHAT, vacuity_exempt=ex, workers=4, timeout=3000,
                        label='ALL programs 3 growers x 1 op (push | growth 2 | gtal), F=2, 3 strategies, n0 3')

    # E4 ------------------------------------------------------------------------------------------
    n = 6000 if thorough else 300
    tr = os.path.join(ctx.work, 'random.ndjson')
    tot, _ = ctx.driver(exe, ['--out', tr, '--random', n, '--seed', ctx.seed, '--randprog'], WHAT,
                        label='random programs, random schedules, all trait combinations')
    if tot.get('executions') and not (tot.get('diverged') or tot.get('stuck') or tot.get('deadlocks')):
        traces.append(tr)
        execs += tot.get('completed', 0)
        ctx.sample_trace(tr, 8, skip=1)

    # E3: one TLC run over the concatenation ------------------------------------------------------
    alltr = os.path.join(ctx.work, 'all.ndjson')
    with open(alltr, 'wb') as out:
        for t in traces:
            with open(t, 'rb') as f:
                shutil.copyfileobj(f, out)
    if traces:
        ctx.validate(SPEC, 'CVecTrace.tla', 'CVecTrace.cfg', alltr, WHAT, executions=execs,
                     label='cover + random traces', timeout=3000)

    # E5: free-running rounds (real threads, inert hooks): races inside one step of CVec.tla -------
    obs = os.path.join(ctx.work, 'stress.ndjson')
    rounds = 32000 if thorough else 2000
    tot, _ = ctx.driver(exe, ['--out', obs, '--stress', rounds, '--seed', ctx.seed], WHAT,
                        label='free-running growth rounds, all trait combinations', allow_incomplete=True,
                        timeout=1500)
    if tot.get('executions'):
        ctx.validate(SPEC, 'CVecObs.tla', 'CVecObs.cfg', obs, WHAT, executions=tot.get('completed', 0),
                     label='free-running rounds: distinct indices, exact final size, no overwrite, stable references',
                     timeout=3000)
    ctx.cov['free_running_rounds'] = tot.get('completed', 0)

    ctx.assumptions += [
        'free-running rounds (E5): per round only what the public API returns is observed (returned positions and '
        'size() in per-thread program order, final size/contents after the join, mismatch counters of references and '
        'iterators taken earlier, element lifetime counters); no cross-thread order is recorded; a round that does '
        'not finish within 10 s of wall-clock time counts as a hang',
        'TLA+ interleaving semantics are sequentially consistent (weak-memory effects are C10)',
        'only growth operations and reads of already published elements run concurrently (the documented '
        'concurrency-safe subset); elements 1..n0 are pushed by the constructing thread before the threads start',
        'loads of buffers_[b] by a thread that has already seen that word non-null are folded into the step that '
        'saw it (the word is write-once: AssignedOnce / AddrStable are checked on every state)',
        'element construction between two schedule points is atomic w.r.t. other threads only under the controlled scheduler',
        'blocks are identified by pointer contiguity (bucket b+1 starts exactly where bucket b ends), never by address',
        'TLC, the JSON/IOUtils community modules and g++ are trusted',
    ]
