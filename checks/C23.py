"""C23 - DistributedRWLock mutual exclusion and progress.

E1  TLC, exhaustive, on the implementation-level spec spec/drwlock/DRWLock.tla: N in {1,2} (4 in
    the thorough tier) slots, each the lock word of RWLockImpl on a futex; two-phase lock
    (setWriteBit on every slot, then waitForReaderDrain on every slot), try_lock with ascending
    roll-back, ascending unlock, readers on arbitrary slots.  ExclHold / ExclCs (exclusion across
    ALL slots), WordExact (every slot word is exactly "who owns its writer bit" + "who owns a
    reader unit on it": a failed try_lock leaves no trace), TryNeverConflicts (action property:
    try variants never acquire on conflict, writers never touch reader counts, a failing try_lock
    leaves every word as the other threads have it), QuiescentZero, NoStuck / NoLostWake;
    Termination and BlockedProceeds under weak fairness (FairSpec).
E2  every transition of three cover configurations' state graphs (N = 2) is replayed in the real
    DistributedRWLockImpl<2> under the controlled scheduler with the modelled futex ...
E3  ... and the recorded trace (action, thread, futex outcome, woken set, returned value, writer
    bit and reader count of every slot, occupancy counters after every step) is validated by TLC
    against the spec (DRWLockTrace.tla), all invariants on.
E4  random and PCT controlled schedules of random programs on DistributedRWLockImpl<1>, <2>, <4>
    (readers on arbitrary slots through arbitrary indices, blocking and try writers, spurious
    futex returns), validated the same way.
E5  free-running rounds (harness/drv/rwlock_stress.h): real threads, real futex, no controller, on
    DistributedRWLockImpl<1|2|4> (readers on arbitrary indices) and on the public DistributedRWLock<2> and
    DistributedRWLock<16> (slot = threadId()); two plain counters as protected data; one observation
    record per batch of rounds, validated by TLC against spec/rwlock/RWLockObs.tla (exclusion, no
    lost update, a failed try_lock leaves no trace, progress - whatever the interleaving INSIDE the
    steps of DRWLock.tla).
"""
from C22 import calibrate, clean_tlc_droppings, cover_replay, free_running, random_runs, validate_all

SPEC = 'spec/drwlock'
WHAT = 'DistributedRWLock mutual exclusion and progress'


def run(ctx):
    thorough = ctx.tier == 'thorough'
    clean_tlc_droppings(SPEC)
    exe = ctx.build('drv_drwlock', ['harness/drv/drv_drwlock.cpp', 'harness/ctl/ctl.cpp'],
                    dispenso=['thread_id.cpp'])   # threadId(): the slot choice of the public class (E5)
    cept = calibrate(ctx, exe)
    ctx.cov['completion_event_wait_has_own_point'] = cept
    env = {'CEPT': str(cept)}
    X = ('-noGenerateSpecTE',)
    never = ('CeWaitLd',) if not cept else ()

    # E1 + E2 on the cover configurations (cfgs: FairSpec, all invariants and properties) -------
    covers = [
        ('coverA', None, 't1:lock,unlock;t2:try_lock,unlock;t3:lock_shared.1,unlock_shared.1', None),
        ('coverB', None, 't1:lock,unlock;t2:lock_shared.0,unlock_shared.0;t3:try_lock_shared.1,unlock_shared.1', None),
        ('coverC', None, 't1:try_lock,unlock;t2:lock_shared.0,unlock_shared.0;t3:lock_shared.1,unlock_shared.1', None),
    ]
    ctr, cex = cover_replay(ctx, SPEC, 'MCDRWLock.tla', 'MC_cover.cfg', exe, covers, env, WHAT,
                            exempt=never + ('FutexSpurious',), drv_args=['--n', 2])

    # E1 exhaustive -------------------------------------------------------------------------------
    ctx.check_model(SPEC, 'MCDRWLock.tla', 'MC_quick.cfg', WHAT,
                    label='N=1 and N=2: 3 programs of 3 threads x 2-3 segments, spurious wake-ups',
                    vacuity_exempt=never, workers=4, env=env, extra=X)
    if thorough:
        ctx.check_model(SPEC, 'MCDRWLock.tla', 'MC_n2b.cfg', WHAT, label='FairSpec: N=2, 3 threads x 3 segments, spurious',
                        vacuity_exempt=never, workers=4, env=env, extra=X)
        ctx.check_model(SPEC, 'MCDRWLock.tla', 'MC_n1.cfg', WHAT, label='FairSpec: N=1, 4 threads x 2 segments',
                        vacuity_exempt=never + ('FutexSpurious',), workers=4, env=env, extra=X, timeout=1200)
        ctx.check_model(SPEC, 'MCDRWLock.tla', 'MC_n2.cfg', WHAT, label='N=2, 4 threads x 2 segments',
                        vacuity_exempt=never + ('FutexSpurious',), workers=4, env=env, extra=X, timeout=1200)
        ctx.check_model(SPEC, 'MCDRWLock.tla', 'MC_n4.cfg', WHAT, label='N=4, 4 threads x 2 segments',
                        vacuity_exempt=never + ('FutexSpurious',), workers=4, env=env, extra=X, timeout=1200)

    # E4 ------------------------------------------------------------------------------------------
    n = 900 if thorough else 70
    s = ctx.seed
    runs = [('n1', ['--n', 1, '--random', n, '--seed', s, '--randprog']),
            ('n2', ['--n', 2, '--random', n, '--seed', s + 11, '--randprog']),
            ('n2_pct3', ['--n', 2, '--random', n, '--seed', s + 22, '--randprog', '--pct', 3]),
            ('n4_spurious', ['--n', 4, '--random', n, '--seed', s + 33, '--randprog', '--spurious']),
            ('n4_pct2', ['--n', 4, '--random', n, '--seed', s + 44, '--randprog', '--pct', 2])]
    rtr, rex = random_runs(ctx, exe, runs, WHAT)
    # E3 ------------------------------------------------------------------------------------------
    validate_all(ctx, SPEC, 'DRWLockTrace', [('cover replay', ctr, cex), ('random schedules', rtr, rex)], WHAT,
                 together=not thorough)
    clean_tlc_droppings(SPEC)
    # E5 ------------------------------------------------------------------------------------------
    free_running(ctx, exe, WHAT, 'DistributedRWLockImpl<1|2|4>, DistributedRWLock<2>, DistributedRWLock<16>')
    ctx.assumptions += [
        'TLA+ interleaving semantics are sequentially consistent (weak-memory effects are C10)',
        'programs stay inside the contract of std::shared_mutex: no recursive locking, unlock only by the holder, '
        'unlock_shared with the index used by lock_shared',
        'DistributedRWLock<N> itself only forwards to DistributedRWLockImpl<N> with index = threadId(); the driver '
        'calls the Impl with explicit indices (any thread-to-slot mapping); N = 16 is instantiated in the '
        'free-running rounds only (the slot loops are uniform in N; N in {1,2,4} traces are validated, N in {1,2,4} '
        'model-checked)',
        'the futex is the harness\' model of FUTEX_WAIT/FUTEX_WAKE (wakes any waiters, spurious returns possible); '
        'progress assumes weak fairness of threads only',
        'TLC, the JSON/IOUtils community modules and g++ are trusted',
    ]
