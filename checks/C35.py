"""C35 - SPSCRingBuffer is an exactly-once bounded FIFO (one producer thread, one consumer thread).

E1  TLC, exhaustive, on the implementation-level spec spec/spsc/Spsc.tla (one action per atomic
    access of try_push/try_emplace/try_push_batch/try_pop*/try_pop_batch/empty/full/size and the
    destructor drain): Bounded, FifoExactlyOnce, LiveMatches, DecisionsExact (push refused iff full /
    pop iff empty at the instant of that thread's load of the peer index), QuiescentExact,
    LifetimeOK, ResultsMatch, ObserversInRange, QuiescentAccounting, NoLeakAfterDestroy in every
    state of every interleaving; ALL producer x consumer histories of length L (quick 2, thorough 3)
    over the operation alphabets for kBufferSize 2,3,4 (quick: 2,3 and reduced alphabets); thorough adds fixed 4-op programs with a
    third, observing thread for kBufferSize 2..5.
E2  every transition of the cover configuration's state graph is replayed in the real
    SPSCRingBuffer<Tracked,2,false> under the controlled scheduler ...
E3  ... and the recorded trace (action, thread, returned values, head/tail/live payload per slot,
    lifetime-error counter after every step, live objects after the destructor) is validated by TLC
    against the spec (SpscTrace.tla), all invariants on.
E4  random controlled schedules (uniform and PCT) of random contract-respecting programs over six
    template instantiations (requested capacity 1..4, power-of-two and exact buffer sizes).
E5  free-running rounds (drv_spsc --stress): a producer, a consumer and sometimes an observer thread run
    random programs on the real ring truly concurrently - no controller, the hooks are inert, so the
    windows INSIDE a specification step (two loads of one index, a re-read after the bounds check) are
    exercised, which E2-E4 cannot do.  One observation record per round (per-thread results in program
    order; every 8th round is a long "stream" whose results are tallied); TLC validates every record
    against spec/spsc/SpscObs.tla: exactly-once FIFO, decisions consistent with a monotone view of the
    peer's index, observers in range, quiescent accounting, payload lifetimes, no hang.
"""
import os

SPEC = 'spec/spsc'
WHAT = 'SPSCRingBuffer exactly-once bounded FIFO'
# the machine is shared: keep the JVM from starting one GC/JIT thread per core
JOPTS = ('-XX:ParallelGCThreads=2', '-XX:CICompilerCount=2')
COVER_PROG = 'p:batch1.2,push3,size,batch4.5;c:pop,popbatch1,popbatch2,popr'


def run(ctx):
    thorough = ctx.tier == 'thorough'
    exe = ctx.build('drv_spsc', ['harness/drv/drv_spsc.cpp', 'harness/ctl/ctl.cpp'])

    # E1 -------------------------------------------------------------------------------------
    dot = os.path.join(ctx.work, 'cover.dot')
    ctx.check_model(SPEC, 'MCSpsc.tla', 'MC_cover.cfg', WHAT, label='cover 1P+1C, n=3, 4 ops each',
                    dump=dot, vacuity_exempt=('ObsBoth', 'ObsBoth2'), workers=4, java_opts=JOPTS)
    ctx.check_model(SPEC, 'MCSpsc.tla', 'MC_all2q.cfg', WHAT, vacuity_exempt=('Init', 'ObsLd1', 'ObsLd2'),
                    label='all producer x consumer histories of length 2 (reduced alphabets), n=2,3', workers=4, java_opts=JOPTS)
    if thorough:
        ctx.check_model(SPEC, 'MCSpsc.tla', 'MC_all2.cfg', WHAT, vacuity_exempt=('Init',),
                        label='all producer x consumer histories of length 2, n=2,3,4', workers=4, java_opts=JOPTS)
        for cfg in ('MC_4ops_n2.cfg', 'MC_4ops_n3.cfg', 'MC_4ops_n4.cfg', 'MC_4opsB_n3.cfg', 'MC_4opsB_n4.cfg',
                    'MC_4opsB_n5.cfg'):
            ctx.check_model(SPEC, 'MCSpsc.tla', cfg, WHAT, label=cfg, workers=4, java_opts=JOPTS)
        ctx.check_model(SPEC, 'MCSpsc.tla', 'MC_all3.cfg', WHAT, vacuity_exempt=('Init', 'ObsLd1', 'ObsLd2'),
                        label='all producer x consumer histories of length 3 (reduced alphabets), n=2,3,4', workers=4,
                        timeout=1100, heap='12g', java_opts=JOPTS)

    # E2 + E4, then one E3 run over everything recorded -----------------------------------------
    sched = os.path.join(ctx.work, 'cover.sched')
    info = ctx.walker(dot, sched)
    ctx.cov['cover_graph'] = info
    parts = []
    tr = os.path.join(ctx.work, 'cover.ndjson')
    tot, _ = ctx.driver(exe, ['--out', tr, '--ring', 'c2x', '--prog', COVER_PROG, '--schedules', sched],
                        WHAT, label='cover replay')
    execs = tot.get('completed', 0)
    parts.append(tr)
    ctx.sample_trace(tr, 14)
    n = 3000 if thorough else 400
    for pct in (0, 3):
        tr = os.path.join(ctx.work, 'rand_p%d.ndjson' % pct)
        tot, _ = ctx.driver(exe, ['--out', tr, '--ring', 'mix', '--random', n, '--seed', ctx.seed + 7 * pct,
                                  '--randprog', '--pct', pct], WHAT, label='random mix pct%d' % pct)
        execs += tot.get('completed', 0)
        parts.append(tr)
    ctx.sample_trace(tr, 10)
    # executions are separated by Reset lines, so the traces concatenate (one JVM start)
    alltr = os.path.join(ctx.work, 'all.ndjson')
    with open(alltr, 'w') as out:
        for p in parts:
            with open(p) as f:
                out.write(f.read())
    ctx.validate(SPEC, 'SpscTrace.tla', 'SpscTrace.cfg', alltr, WHAT, executions=execs,
                 label='cover replay + random pct0 + random pct3', timeout=1100)
    # E5: free-running rounds (real threads, inert hooks): the windows BETWEEN two hook points ---------------
    chunks = 3 if thorough else 1            # thorough: 15 x the quick number of rounds, one TLC run per chunk
    rounds = 24000 if thorough else 4800
    free = 0
    for k in range(chunks):
        tr = os.path.join(ctx.work, 'stress%d.ndjson' % k)
        tot, _ = ctx.driver(exe, ['--out', tr, '--stress', rounds, '--seed', ctx.seed + 1000 * k, '--streamevery', 8,
                                  '--streamlen', 400], WHAT, label='free-running producer/consumer rounds #%d' % k,
                            allow_incomplete=True, timeout=300)
        ctx.validate(SPEC, 'SpscObs.tla', 'SpscObs.cfg', tr, WHAT, executions=tot.get('executions', 0),
                     label='free-running rounds #%d: FIFO exactly once, consistent decisions, lifetimes' % k,
                     timeout=900)
        free += tot.get('executions', 0)
        if k == 0:
            ctx.sample_trace(tr, 4)
    ctx.cov['free_running_rounds'] = free
    ctx.assumptions += [
        'E5 observes only what the public API returns to each thread in its program order (plus payload lifetime '
        'tallies and the quiescent state at the end of a round); operations of different threads are not ordered, so '
        'a race whose effect no caller can see in ~10^5 racing operations is not detected; x86-64 hardware memory model',
        'TLA+ interleaving semantics are sequentially consistent (weak-memory effects are C10)',
        'contract (R1): at most one thread issues producer operations and at most one issues consumer operations',
        'empty()/full() load both indices inside one expression: the model checks both evaluation orders as '
        'separate steps, the controlled executions can only observe them back to back',
        'payload operations between two schedule points are atomic w.r.t. other threads only under the controlled scheduler',
        'TLC, the JSON/IOUtils community modules and g++ are trusted',
    ]
