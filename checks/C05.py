"""C05 - task exceptions are captured and rethrown exactly once; throwing never breaks completion accounting.

E1  TLC on TaskSet.tla: guard machine kUnset->kSetting->kSet->kUnset and slot, DeliveredWereCaptured, DeliveredOnce,
    NoExceptionLost (a wait()/tryWait() that completes normally leaves no captured exception behind; the first one that
    observes completion after a capture delivers it), GuardSane, plus the C02 barrier/accounting invariants with throwers;
    racing throwers, inline propagation from schedule(), capture on the bulk inline path, repeated wait/tryWait.
E4+E3  random controlled executions with throwing tasks (identifiable exception ids); the driver notes which id each
    wait()/tryWait()/schedule() call propagated; TLC validates every step (guard word after every step, ids delivered).
"""
import random

import taskset_common as tc

WHAT = 'captured exceptions are delivered exactly once by the first wait/tryWait observing completion; accounting survives throwers'

ALWAYS = [
    # deterministic (no pool threads): a thrower on the bulk INLINE path (invokeInline catches and captures), the rest of the bulk is
    # dropped because the capture cancels the set; wait rethrows once, the second wait reports cancellation
    'mult=1;sets=ts.1.0;throws=2;d1=newpool0,new1,bulk1.1.3,wait1,wait1,del1,delpool',
    'mult=1;sets=ctsH.1.0;throws=1,2;d1=newpool0,new1,bulk1.1.2,trywait1.1,trywait1.1,wait1,del1,delpool',
    # thrower run inline by schedule(): propagates to the caller, nothing captured; thrower in a package: captured
    'mult=1;sets=ts.1.0;throws=2,3;d1=newpool0,new1,bulkfq1.1.1,sched1.2,wait1,schedfq1.3,wait1,wait1,del1,delpool',
]
FIXED = [
    'mult=32;sets=ctsL.4.0;throws=1,2,3;d1=newpool2,new1,schedfq1.1,schedfq1.2,schedfq1.3,trywait1.2,wait1,wait1,trywait1.1,del1,delpool',
    'mult=1;sets=ts.1.0;throws=2,4;d1=newpool1,new1,sched1.1,sched1.2,bulk1.3.3,trywait1.0,wait1,wait1,del1,delpool',
    'mult=1;sets=ts.1.0;throws=1,3;d1=newpool0,new1,schedfq1.1,bulk1.2.3,wait1,sched1.5,wait1,del1,delpool',
    'mult=1;sets=ctsH.1.0;throws=3,4,5;d1=newpool2,new1,sched1.1,sched1.2,sched1.3,sched1.4,bulk1.5.3,sync,wait1,wait1,del1,delpool;d2=await1,schedfq1.8',
    'mult=1;sets=ctsL.1.0,ts.4.0;throws=3,4;d1=newpool1,new1,sched1.1,sched1.2,wait1,wait1,del1,delpool;b1=new2,sched2.3,bulk2.4.2,trywait2.1,wait2,wait2,del2',
    'mult=32;sets=ts.4.0;throws=1,2;d1=newpool3,new1,bulkfq1.1.2,bulk1.3.2,trywait1.4,trywait1.4,wait1,del1,delpool',
]


def run(ctx):
    thorough = ctx.tier == 'thorough'
    exe = tc.build(ctx)
    tc.check_models(ctx, 'MC_c05_thorough.cfg' if thorough else 'MC_c05_quick.cfg', WHAT,
                    '2 racing throwers + tryWait + repeated wait; thrower cancels a TaskSet; thrower among inline/queued/bulk tasks'
                    + ('; + bulk FQ, kHeavy, recursion' if thorough else ''))
    rng = random.Random(ctx.seed * 7919 + 5)
    g = tc.Gen(rng)
    n = 6 if thorough else 3
    scens = [g.single(throws=0.5, cancel=0.15, nested=0.4) for _ in range(60 if thorough else 14)]
    r = tc.run_scenarios(ctx, exe, [
        ('deterministic thrower programs', ALWAYS, 1),
        ('fixed programs', FIXED if thorough else FIXED[ctx.seed % 2::2], n),
        ('random programs with throwers', scens, n)], WHAT, ctx.seed)
    ctx.sample({'programs': scens[:5]})
    if r['traces']:
        ctx.sample_trace(r['traces'][0], 14, skip=40)
    ctx.assumptions += tc.ASSUME + ['one thread at a time calls wait()/tryWait() on a set (concurrent waiters race on exception_ - outside the documented use)',
                                    'a functor run inline by schedule() propagates its exception to the scheduling caller (documented); '
                                    'exceptions that lose the guard CAS are dropped (documented: only the first is kept)']
