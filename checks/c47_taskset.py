"""Task-set half of C47: schedule(f, ForceQueuingTag) / scheduleBulk(n, gen, ForceQueuingTag) on a TaskSet or
ConcurrentTaskSet never run the functor inside the submitting call on a pool with >= 1 thread.

How it is decided: in TaskSet.tla a force-queued package is handed to the pool at TsPkgInc / TsBulkIncN and can be started
by the submitting thread inside that call only after forceEnqueue's load of numThreads_ returned 0 (TpFqLoadThreads); the
bulk FQ path (scheduleBulkEnqueue) never runs inline.  In trace validation a force-queued package that the real code runs
on the caller before the call returned is recorded as ForceQueuedRanInline (invariant ForceQueuedNotInline); an FQ call
that takes a task-set-level inline path instead of TsPkgInc is a rejected trace.

Merge: checks/C47.py calls  `import c47_taskset; c47_taskset.run_taskset_part(ctx)`  at the end of run(ctx).
"""
import random

import taskset_common as tc

WHAT = 'ForceQueuingTag submissions to TaskSet/ConcurrentTaskSet never run inside the submitting call on a pool with threads'

FIXED = [
    # load multipliers 1: plain schedule() does run inline here, the FQ variants must not
    'mult=1;sets=ts.1.0;throws=;d1=newpool1,new1,schedfq1.1,schedfq1.2,schedfq1.3,sched1.4,bulkfq1.5.3,schedfq1.8,wait1,del1,delpool',
    'mult=1;sets=ctsL.1.0;throws=;d1=newpool2,new1,schedfq1.1,schedfq1.2,sched1.3,bulkfq1.4.4,schedfq1.8,sync,wait1,del1,delpool;d2=await1,schedfq1.9,bulkfq1.10.2',
    'mult=1;sets=ctsH.1.0;throws=;d1=newpool1,new1,schedfq1.1,schedfq1.2,schedfq1.3,sched1.4,bulkfq1.5.3,wait1,del1,delpool;b1=schedfq1.8,bulkfq1.9.2',
    'mult=1;sets=ctsH.1.0,ts.1.0;throws=;d1=newpool3,new1,schedfq1.1,bulkfq1.2.3,wait1,del1,delpool;b1=new2,schedfq2.5,bulkfq2.6.2,schedfq2.8,wait2,del2',
]


def run_taskset_part(ctx):
    thorough = ctx.tier == 'thorough'
    exe = tc.build(ctx)
    tc.check_models(ctx, 'MC_c47_thorough.cfg' if thorough else 'MC_c47_quick.cfg', WHAT,
                    'TaskSet on 2 workers: schedule(FQ), scheduleBulk(FQ), ring fast path' + ('; ConcurrentTaskSet FQ x2; kHeavy' if thorough else ''))
    rng = random.Random(ctx.seed * 7919 + 47)
    g = tc.Gen(rng)
    scens = []
    for _ in range(30 if thorough else 8):
        s = g.single(throws=0.0, cancel=0.1, nested=0.3, pools=(1, 2, 3))
        scens.append(s.replace('mult=32', 'mult=1'))
    r = tc.run_scenarios(ctx, exe, [('task sets: force-queued submissions', FIXED, 6 if thorough else 2),
                                    ('task sets: random programs, load multiplier 1', scens, 6 if thorough else 2)], WHAT, ctx.seed + 47)
    ctx.assumptions += ['task-set part: ' + a for a in tc.ASSUME[:2]]
    return r


def run(ctx):     # stand-alone:  bin/vcheck c47_taskset quick
    run_taskset_part(ctx)
