"""Shared by C14 / C48 / C15: API-level specs of the parallel loops (spec/parfor/ParForApi.tla,
ForEach.tla), the driver harness/drv/drv_loops.cpp (real parallel_for / for_each_n on the real pool
under the controlled scheduler, and free-running with rendezvous bodies), scenario generators."""
import json
import os
import re

import pool_common
import vlib

SPEC = 'spec/parfor'
SKIP_E1 = bool(os.environ.get('VERIF_LOOPS_SKIP_E1'))   # development switch for mutation runs
ASSUME = [
    'the pool is abstract at this level (a scheduled task is started by any pool thread, or by the caller inside '
    'scheduleBulk / TaskSet::wait); its own behaviour is C01-C09',
    'controlled executions interleave at the pool/task-set schedule points and at one point inside every loop body; the '
    "loops' own atomics (chunk index, stripe cursors) execute within a step; the free-running executions cover their races",
    'one loop call per task set and states container at a time (documented contract); bodies do not call into the pool',
    'dynamic multi-group path (> 16 workers) not reached (pools <= 8 threads)',
    'sequentially consistent interleavings (weak memory: C10); trusted: TLC, g++, the controlled scheduler (harness/ctl)',
]


def build(ctx):
    return ctx.build('drv_loops', ['harness/drv/drv_loops.cpp', 'harness/ctl/ctl.cpp'], dispenso=vlib.DISPENSO_SRCS,
                     flags=pool_common.TUNE + ['-DDISPENSO_TUNE_WAKE_GROUP_SIZE=2'])


def check_model(ctx, module, cfg, what, **kw):
    """ctx.check_model with a small heap (the models are small, the machine is shared) and one retry when
    the JVM disappears without a verdict (killed from outside: 'TLC did not finish')"""
    kw.setdefault('heap', '3g')
    kw.setdefault('workers', 4)
    kw.setdefault('timeout', 1500)
    try:
        return ctx.check_model(SPEC, module, cfg, what, **kw)
    except vlib.ToolError as e:
        if 'TLC did not finish' not in str(e):
            raise
        vlib.log('NOTE: TLC ended without a verdict on %s/%s; running it once more' % (module, cfg))
        return ctx.check_model(SPEC, module, cfg, what, **kw)


def negative_control(ctx, module, cfg, what, expect):
    """The model of the code BEFORE the fix must violate the property (expect = invariant name): shows
    that the specification can exhibit the defect and that the invariant detects it."""
    try:
        res = ctx.tlc(SPEC, module, cfg, workers=4, label='negative control: ' + what, timeout=300, count=False, heap='3g')
    except vlib.ToolError as e:
        if 'TLC did not finish' not in str(e):
            raise
        res = ctx.tlc(SPEC, module, cfg, workers=4, label='negative control: ' + what, timeout=300, count=False, heap='3g')
    ctx.cov.setdefault('negative_controls', []).append(
        {'cfg': cfg, 'what': what, 'violation': res.violation, 'states': res.distinct})
    if res.violation != 'Invariant ' + expect:
        raise vlib.ToolError('negative control %s/%s: expected a violation of %s, got %s' % (module, cfg, expect, res.violation))
    for f in os.listdir(os.path.join(vlib.ROOT, SPEC)):
        if '_TTrace_' in f:
            try:
                os.remove(os.path.join(vlib.ROOT, SPEC, f))
            except OSError:
                pass
    return res


def scen_str(api, d):
    return api + ':' + ','.join('%s=%d' % (k, d[k]) for k in sorted(d))


def pf_scenario(rng, big=False):
    """one random stateful parallel_for call within the documented contract"""
    N = rng.choice([0, 1, 2, 2, 3, 3]) if not big else rng.choice([3, 8, 8, 8])
    d = dict(N=N, n=rng.choice([0, 1, 2, 3, 4, 5, 6, 7, 8, 9, 11, 12] if not big else [5, 9, 16, 23, 31, 40]),
             start=rng.choice([0, 0, 3, -5, 1000]), mode=rng.choice([0, 0, 1, 1, 2]),
             wait=rng.choice([0, 1]), g=rng.choice([1, 1, 2, 3, 4]), mi=rng.choice([1, 1, 1, 2, 3]),
             reuse=rng.choice([0, 0, 1]), pre=rng.choice([0, 0, 1, 2, 6]), cont=rng.choice([0, 0, 1, 2]),
             cts=rng.choice([0, 0, 1]), mult=rng.choice([32, 32, 1]), slm=rng.choice([4, 4, 1]),
             inpool=rng.choice([0, 0, 0, 1]))
    d['mt'] = rng.choice([0, 1, 2, 2, 3, 3, 4, 5, 2147483647] if not big else [1, 2, 3, 4, 5, 6, 9, 2147483647])
    if rng.random() < 0.04:
        d['mtneg'] = 1
    if d['mode'] == 2:
        d['c'] = rng.choice([1, 1, 2, 3, 5])
        d['g'] = 1
    return scen_str('pf', d)


def fe_scenario(rng, big=False):
    N = rng.choice([0, 0, 1, 2, 3]) if not big else rng.choice([3, 8, 8])
    d = dict(N=N, n=rng.choice(range(0, 10)) if not big else rng.choice([4, 9, 17, 30]),
             wait=rng.choice([0, 1]), cat=rng.choice([0, 1, 2]), cts=rng.choice([0, 0, 1]),
             mult=rng.choice([32, 32, 1]), slm=rng.choice([4, 4, 1]), inpool=rng.choice([0, 0, 0, 1]),
             mt=rng.choice([0, 1, 2, 3, 4, 2147483647] if not big else [1, 2, 3, 5, 9, 2147483647]))
    return scen_str('fe', d)


# the inputs of the defects found (kept as regression scenarios: they fail on the unfixed code)
PF_REGRESSION = [
    # static chunking, wait=false, granularity tail (C14/C48: runTail() on the caller)
    'pf:N=2,n=7,mode=0,mt=2,wait=0,g=3', 'pf:N=3,n=11,mode=0,mt=3,wait=0,g=4,cont=2', 'pf:N=1,n=5,mode=0,mt=2,wait=0,g=2,slm=1',
    # explicit chunk size, size <= N + wait: adjustChunkSizing discards maxThreads (C48)
    'pf:N=3,n=3,mode=2,c=1,mt=1,wait=0', 'pf:N=3,n=4,mode=2,c=1,mt=2,wait=1', 'pf:N=3,n=3,mode=2,c=2,mt=0,wait=0',
    # dynamic no-wait tail (run by the last worker), stripes with tail, in-pool caller
    'pf:N=2,n=11,mode=1,mt=3,wait=0,g=2', 'pf:N=3,n=12,mode=1,wait=1,g=5', 'pf:N=3,n=6,mode=0,wait=1,inpool=1',
    # the caller is a plain task on a worker of the same pool: caller-chunk selection by ring index, also with
    # fewer chunks than pool threads (ring index beyond the chunk count)
    'pf:N=3,n=9,mode=0,wait=1,inpool=1,mt=2', 'pf:N=3,n=2,mode=0,wait=1,inpool=1', 'pf:N=2,n=8,mode=1,wait=1,inpool=1,g=3',
]
FE_REGRESSION = [
    # zero-thread pool, wait=false: staticChunkSize(n, 0) (C15)
    'fe:N=0,n=3,wait=0,mt=2', 'fe:N=0,n=5,wait=0,cat=1', 'fe:N=0,n=4,wait=0,cat=2,cts=1', 'fe:N=0,n=4,wait=1',
    'fe:N=2,n=7,wait=0,cat=2', 'fe:N=3,n=9,wait=1,cat=1,mt=3', 'fe:N=2,n=1,wait=0', 'fe:N=2,n=0,wait=0',
    # the caller is a plain task on a worker of the same pool (it has a ring index of its own)
    'fe:N=2,n=7,wait=1,cat=0,inpool=1', 'fe:N=3,n=9,wait=1,cat=0,inpool=1,mt=3', 'fe:N=3,n=5,wait=1,cat=0,inpool=1,mt=2',
    'fe:N=3,n=6,wait=1,cat=1,inpool=1', 'fe:N=2,n=5,wait=0,cat=0,inpool=1',
]


def run_controlled(ctx, exe, scens, runs, seed, what, module, cfg, label, pct=3, maxsteps=30000, validate=True):
    """runs x len(scens) random controlled executions, validated by TLC.  The driver stops after an
    execution that was cut (step bound / nothing runnable): it is restarted for the rest.  A cut before
    the loop call completed is re-run alone and reported only if it repeats."""
    total = runs * len(scens)
    tr = os.path.join(ctx.work, label.replace(' ', '_') + '.ndjson')
    open(tr, 'w').close()
    skip, completed, cut = 0, 0, []
    for attempt in range(8):
        part = tr + '.part%d' % attempt
        tot, out = ctx.driver(exe, ['--out', part, '--scen', '|'.join(scens), '--runs', runs, '--seed', seed,
                                    '--pct', pct, '--maxsteps', maxsteps, '--skip', skip], what,
                              label=label, allow_incomplete=True)
        if not tot:
            break
        if os.path.exists(part):
            with open(tr, 'a') as f:
                f.write(open(part).read())
            os.remove(part)
        completed += tot.get('completed', 0)
        m = re.search(r'^LOOPS next=(\d+) total=(\d+) callincomplete=(\d+)', out, re.M)
        if not m:
            break
        nxt = int(m.group(1))
        if int(m.group(3)):
            cut.append(nxt - 1)
        elif tot.get('executions', 0) > tot.get('completed', 0):
            completed += 1          # only the pool tear-down was cut: the call itself was validated
        skip = nxt
        if skip >= total:
            break
    ctx.cov.setdefault('incomplete_executions', 0)
    for x in cut:
        # the loop call did not complete within the step bound: repeat that execution alone
        part = tr + '.cut%d' % x
        tot, out = ctx.driver(exe, ['--out', part, '--scen', scens[x // runs], '--runs', 1, '--seed', seed * 7 + x,
                                    '--pct', 0, '--maxsteps', 4 * maxsteps], what, label=label + ' (repeat of a cut execution)',
                              allow_incomplete=True)
        ctx.cov['incomplete_executions'] += 1
        if tot and re.search(r'callincomplete=1', out):
            path = ctx.save_replay('%s-stalled.txt' % ctx.prop, 'scenario %s\nthe loop call did not complete within the step bound (twice)\n\n%s'
                                   % (scens[x // runs], ctx._trace_context(part, sum(1 for _ in open(part)))))
            ctx.violation('stalled:' + scens[x // runs], what + ': the loop call never completes [' + label + ']', path)
    res = ctx.validate(SPEC, module, cfg, tr, what + ' [' + label + ']', executions=completed, label=label) if validate else None
    return tr, completed, res


def validate_all(ctx, parts, what, module, cfg, label):
    """one TLC run over the concatenation of several recorded traces [(path, executions), ...]"""
    tr = os.path.join(ctx.work, label.replace(' ', '_') + '_all.ndjson')
    with open(tr, 'w') as f:
        for p, _ in parts:
            f.write(open(p).read())
    try:
        return ctx.validate(SPEC, module, cfg, tr, what + ' [' + label + ']', executions=sum(n for _, n in parts), label=label, heap='3g')
    except vlib.ToolError as e:
        if 'TLC did not finish' not in str(e):
            raise
        return ctx.validate(SPEC, module, cfg, tr, what + ' [' + label + ']', executions=sum(n for _, n in parts), label=label, heap='3g')


def run_free(ctx, exe, scens, runs, seed, what, module, cfg, label, validate=True):
    tr = os.path.join(ctx.work, label.replace(' ', '_') + '.ndjson')
    tot, out = ctx.driver(exe, ['--out', tr, '--scen', '|'.join(scens), '--runs', runs, '--seed', seed, '--free'], what,
                          label=label, timeout=300)
    res = ctx.validate(SPEC, module, cfg, tr, what + ' [' + label + ']', executions=tot.get('completed', 0), label=label) if validate else None
    return tr, tot.get('completed', 0), res


def peak_concurrency(trace, begin='bb', end='be'):
    """measured from the recorded events (evidence only, not an oracle)"""
    peak = cur = 0
    with open(trace) as f:
        for l in f:
            if '"Reset"' in l:
                cur = 0
            elif '["%s",' % begin in l:
                cur += 1
                peak = max(peak, cur)
            elif '["%s",' % end in l:
                cur -= 1
    return peak
