"""C48 - maxThreads bounds the concurrency of parallel loops (DESIGN 5.1 / C48).

E1  TLC: ConcurrencyBound / PeakBound (never more than max(1, maxThreads) bodies in progress) in every
    state of every interleaving (ParForApi.tla, ForEach.tla); PlanBound (scheduled tasks + caller
    participation <= maxThreads) for every option combination of a wide domain (MC_api_plan).
    Negative controls: the ORIGINAL static no-wait tail and the ORIGINAL adjustChunkSizing violate it.
E3/E4 controlled executions of the real parallel_for / for_each_n validated by TLC with the bound as
    invariant (in-body begin/end notes; the number of bodies in progress is projected after every step).
    Free-running executions on 8-thread pools with rendezvous bodies (a body waits <= 2 ms until
    maxThreads + 1 bodies are in progress - which must never happen), validated the same way.
"""
import random

import loops_common as lc

WHAT = 'maxThreads bounds the concurrency of parallel loops'


def run(ctx):
    thorough = ctx.tier == 'thorough'
    exe = lc.build(ctx)
    if not lc.SKIP_E1:   # (mutation runs of the dispenso code skip the code-independent model checking)
        lc.check_model(ctx, 'MCParForApi.tla', 'MC_api_plan_thorough.cfg' if thorough else 'MC_api_plan.cfg', WHAT,
                        label='plan level: tasks + caller <= maxThreads, every option combination',
                        vacuity_exempt=('Next',))
        lc.check_model(ctx, 'MCParForApi.tla', 'MC_api_inter_thorough.cfg' if thorough else 'MC_api_inter.cfg', WHAT,
                        label='parallel_for: all interleavings')
        lc.check_model(ctx, 'MCForEach.tla', 'MC_fe_inter_thorough.cfg' if thorough else 'MC_fe_c48.cfg', WHAT,
                        label='for_each_n: all interleavings')
        lc.negative_control(ctx, 'MCParForApi.tla', 'MC_api_neg_tail_c48.cfg',
                            'original static no-wait tail: maxThreads chunks + the tail on the caller', 'ConcurrencyBound')
        lc.negative_control(ctx, 'MCParForApi.tla', 'MC_api_neg_clamp_c48.cfg',
                            'original adjustChunkSizing discards maxThreads for small explicitly chunked ranges', 'ConcurrencyBound')
    rng = random.Random(ctx.seed + 48)

    def low(s):  # bias towards small maxThreads: the bound is then tight
        return s if rng.random() < 0.3 else lc.re.sub(r'mt=\d+', 'mt=%d' % rng.choice([0, 1, 2, 2, 3]), s)
    scens = lc.PF_REGRESSION[:6] + [low(lc.pf_scenario(rng)) for _ in range(80 if thorough else 16)]
    tr, done, _ = lc.run_controlled(ctx, exe, scens, 8 if thorough else 3, ctx.seed, WHAT, 'ParForApiTrace.tla',
                                    'ParForApiTrace.cfg', 'controlled executions of parallel_for', validate=False)
    fes = [low(lc.fe_scenario(rng)) for _ in range(60 if thorough else 12)]
    tr2, done2, _ = lc.run_controlled(ctx, exe, fes, 6 if thorough else 2, ctx.seed, WHAT, 'ForEachTrace.tla',
                                      'ForEachTrace.cfg', 'controlled executions of for_each_n', validate=False)
    ctx.sample({'scenarios': scens[:8] + fes[:4]})
    big = ['pf:N=8,n=23,mode=0,mt=3,wait=0,g=4', 'pf:N=8,n=6,mode=2,c=1,mt=2,wait=1', 'pf:N=8,n=5,mode=2,c=1,mt=1,wait=0',
           'pf:N=8,n=31,mode=1,mt=4,wait=0,g=3', 'pf:N=8,n=40,mode=1,mt=5,wait=1'] + \
        [low(lc.pf_scenario(rng, big=True)) for _ in range(120 if thorough else 24)]
    trf, donef, _ = lc.run_free(ctx, exe, big, 6 if thorough else 2, ctx.seed, WHAT, 'ParForApiTrace.tla', 'ParForApiTrace.cfg',
                                'free-running parallel_for with rendezvous bodies', validate=False)
    bigfe = [low(lc.fe_scenario(rng, big=True)) for _ in range(60 if thorough else 10)]
    trf2, donef2, _ = lc.run_free(ctx, exe, bigfe, 4 if thorough else 2, ctx.seed, WHAT, 'ForEachTrace.tla', 'ForEachTrace.cfg',
                                  'free-running for_each_n with rendezvous bodies', validate=False)
    lc.validate_all(ctx, [(tr, done), (trf, donef)], WHAT, 'ParForApiTrace.tla', 'ParForApiTrace.cfg',
                    'controlled + free-running executions of parallel_for')
    lc.validate_all(ctx, [(tr2, done2), (trf2, donef2)], WHAT, 'ForEachTrace.tla', 'ForEachTrace.cfg',
                    'controlled + free-running executions of for_each_n')
    ctx.sample_trace(trf, 10, skip=1)
    ctx.cov['evaluations'] = done + done2 + donef + donef2
    ctx.cov['peak_concurrent_bodies_observed'] = {'parallel_for': max(lc.peak_concurrency(tr), lc.peak_concurrency(trf)),
                                                  'for_each': max(lc.peak_concurrency(tr2, 'fb', 'fe'), lc.peak_concurrency(trf2, 'fb', 'fe'))}
    ctx.assumptions += lc.ASSUME
