"""Shared machinery of the pipeline checks (C27 C28 C29): spec/pipeline, harness/drv/drv_pipeline.cpp.

A *program* is a chain of pipeline configurations run one after the other on one pool inside one
controlled execution ("cfg|cfg"); the driver takes a list of programs ("prog@prog") and runs every
program under n seeded schedules (uniform random and PCT).  Every recorded execution is validated by
TLC against PipelineTrace.tla with all C27/C28/C29 invariants on.
"""
import os
import random
import re

import pool_common
import vlib

SPEC = 'spec/pipeline'
ASSUME = [
    'ConcurrentTaskSet and ThreadPool are abstract in the specification: packageTask = otc+1 and a bag of wrapped tasks; '
    'any idle worker or the helping caller may start a task; a cancelled set skips it (task-set internals: C02/C04/C05, pool: C01-C09)',
    'ConcurrentTaskSet::schedule\'s choice between queueing and inline execution is a free choice in the model '
    '(it depends on pool load); in validated traces it is the choice the real code made',
    'trySetCurrentException / hasException / the packageTask cancellation check are atomic steps (they live in task_set files '
    'whose hooks belong to other checks); the generator instances are never run inline by the task set (private pool)',
    'moodycamel::ConcurrentQueue is a linearizable bag without spurious dequeue failures (operations are never concurrent under the controlled scheduler)',
    'sequentially consistent interleavings (weak memory: C10); Linux futex back-end; the inline depth limit is 2 in the model, 32 in traces',
    'the driver spells out the four statements of dispenso::pipeline() to be able to project the gates\' words; '
    'runs with api=1 call dispenso::pipeline() itself (validated without projection)',
]
# supplementary model runs (larger / liveness configurations) are not subject to the vacuity check: the main
# configuration set of each check takes every action
SUPP = ('Terminated', 'TaskSkip', 'DrOp', 'PlGenSubmit', 'PlWaitGen', 'FutexWait', 'FutexRet', 'PlWaitCts', 'DrRet', 'PlGenHasExc',
        'DrGen', 'PlGenDone', 'FutexWake', 'PlSchIncOut', 'PlSchUnl', 'PlSchEnq', 'PlSchAcq', 'PlSchDeq', 'PlSchSubmit', 'PlSchRel',
        'PlUnlHasExc', 'DrBody', 'PlCbDeq', 'PlCbSubmit', 'PlCbRel', 'PlCatch', 'PlGuardRel', 'PlDecOut', 'PlWtLoadOut',
        'PlWtHasExc', 'PlWtDiscDeq', 'PlWtDiscDec', 'PlWtDeq', 'PlWtAcq', 'PlWtAcqUndo', 'PlWtAcqExc', 'PlWtAcqDec', 'PlWtSubmit',
        'PlWuLoadOut', 'PlWuHasExc', 'PlWuDeq', 'TaskStart')
INVS = 'GateSane AtMostOnce InputIsPredecessorsOutput AllDelivered SingleRuns LimitRespected RethrowsFirst NoLeak PoolClean'


def build(ctx, sanitize=False):
    return ctx.build('drv_pipeline', ['harness/drv/drv_pipeline.cpp', 'harness/ctl/ctl.cpp'],
                     dispenso=vlib.DISPENSO_SRCS, flags=pool_common.TUNE + ['-DDISPENSO_TUNE_WAKE_GROUP_SIZE=2'],
                     sanitize=sanitize)


def cfg(n, lim, p, k, filt=(), thr=(), raw=0, api=0, ops=None):
    s = 'n=%d;lim=%s;p=%d;k=%d' % (n, ','.join(str(x) for x in lim), p, k)
    if filt:
        s += ';filt=' + ','.join('%d.%d' % f for f in filt)
    if thr:
        s += ';thr=' + ','.join('%d.%d' % t for t in thr)
    if ops:
        s += ';ops=' + ','.join(str(o) for o in ops)
    if raw:
        s += ';raw=1'
    if api:
        s += ';api=1'
    return s


def random_cfg(rng, throws, maxk=4, pmax=3, p=None, refs=False):
    n = rng.choice([0, 1, 1, 2, 2, 2, 3, 3])
    p = rng.randint(0, pmax) if p is None else p
    k = rng.randint(1, maxk)
    raw = 1 if rng.random() < 0.15 else 0
    lim = [rng.choice([1, 1, 2, 2, 3, 99]) for _ in range(n + 1)]
    if raw:
        lim = [1] * (n + 1)
    filt = []
    ops = [0] * max(0, n - 1)
    for g in range(1, n):
        if rng.random() < 0.5:
            ops[g - 1] = 1
            for it in range(1, k + 1):
                if rng.random() < 0.3:
                    filt.append((g, it))
    if refs and not raw:
        # a transform behind dispenso::stage(f, 1) may hand out a reference to a result buffer it reuses (driver kind 2)
        for g in range(1, n):
            if ops[g - 1] == 0 and rng.random() < 0.5:
                ops[g - 1], lim[g] = 2, 1
    thr = []
    if throws:
        for _ in range(rng.choice([1, 1, 1, 2])):
            s = rng.randint(0, n)
            it = rng.choice([1, (k + 1) // 2, k])      # first / middle / last
            if (s, it) not in thr:
                thr.append((s, it))
    return cfg(n, lim, p, k, filt, thr, raw=raw, api=(1 if rng.random() < 0.1 else 0), ops=ops), p


def run_programs(ctx, exe, progs, n, seed, what, label, fix=1, maxsteps=30000, timeout=900, sanitized=False, pct=None):
    """runs every program under n schedules (restarting the driver after an execution that cannot be unwound),
    validates all traces in one TLC run.  Returns (trace path, totals)."""
    tag = re.sub(r'\W+', '_', label)
    parts = []
    tot = {'executions': 0, 'completed': 0, 'steps': 0, 'deadlocks': 0}
    start = 0
    total = n * len(progs)
    stalled = []
    restarts = 0
    while start < total and restarts < 12:
        tr = os.path.join(ctx.work, '%s_%d.ndjson' % (tag, len(parts)))
        args = ['--out', tr, '--progs', '@'.join(progs), '--random', n, '--seed', seed, '--fix', fix,
                '--from', start, '--maxsteps', maxsteps] + ([] if pct is None else ['--pct', pct])
        t, out = ctx.driver(exe, args, what, label=label, allow_incomplete=True, timeout=timeout)
        parts.append(tr)
        if not t:
            break
        for k in tot:
            tot[k] += t.get(k, 0)
        m = re.search(r'^NEXT (\d+) OF (\d+)', out, re.M)
        nxt = int(m.group(1)) if m else total
        for inc in re.finditer(r'^INCOMPLETE (.*)$', out, re.M):
            stalled.append((inc.group(1), tr))
        if nxt <= start:
            break
        start = nxt
        restarts += 1
    # an execution that never completes: pipeline() does not terminate (re-run once with the same seed first)
    for desc, tr in stalled[:2]:
        m = re.search(r'exec=(\d+)', desc)
        e = int(m.group(1))
        tr2 = os.path.join(ctx.work, '%s_rerun%d.ndjson' % (tag, e))
        t2, out2 = ctx.driver(exe, ['--out', tr2, '--progs', '@'.join(progs), '--random', n, '--seed', seed, '--fix', fix,
                                   '--from', e, '--count', 1, '--maxsteps', maxsteps] + ([] if pct is None else ['--pct', pct]),
                              what, label=label + ' rerun',
                              allow_incomplete=True, timeout=timeout)
        if 'INCOMPLETE' in out2:
            path = ctx.save_replay('%s-stalled.txt' % ctx.prop,
                                   'programs %s\nexecution %s never completes (step bound / deadlock)\n\n%s' %
                                   (progs, desc, ctx._trace_context(tr2, sum(1 for _ in open(tr2)))))
            ctx.violation('stalled:' + desc.split(' seed')[0], what + ': pipeline() never returns [' + label + ']', path)
    whole = os.path.join(ctx.work, tag + '.ndjson')
    with open(whole, 'w') as f:
        for p in parts:
            if os.path.exists(p):
                f.write(open(p).read())
    sites = {}
    for line in open(whole):
        m = re.match(r'\{"e":"((?:Pl|Dr)\w+)"', line)
        if m:
            sites[m.group(1)] = sites.get(m.group(1), 0) + 1
    ctx.cov.setdefault('trace_sites', {})[label] = sites
    ctx.cov.setdefault('max_inflight_observed', {})[label] = observed_overlap(whole)
    if os.path.getsize(whole):
        ctx.validate(SPEC, 'PipelineTrace.tla', 'PipelineTrace.cfg', whole, what + ' [' + label + ']',
                     executions=tot['completed'], label=label, timeout=timeout)
    cleanup()
    return whole, tot


def observed_overlap(trace):
    """coverage information only (the verdict is TLC's): for every stage limit, the largest number of bodies of one stage
    that were really in flight together in the recorded executions (shows that the limits were reached, not just respected)"""
    import json
    best = {}
    lim, infl = [], {}
    for line in open(trace):
        if '"Reset"' in line:
            ev = json.loads(line)
            lim, infl = ev['lim'], {}
            continue
        if '"begin"' not in line and '"end"' not in line and '"throw"' not in line:
            continue
        ev = json.loads(line)
        for n in ev.get('r', []):
            if not isinstance(n, list):
                continue
            if n[0] == 'begin':
                g = n[2] // 10
                infl[g] = infl.get(g, 0) + 1
                key = 'limit %s' % (lim[g] if g < len(lim) else '?')
                best[key] = max(best.get(key, 0), infl[g])
            elif n[0] in ('end', 'throw'):
                infl[n[2]] = infl.get(n[2], 0) - 1
    return best


def traces_only():
    """mutation testing of the dispenso code only needs the code-dependent engines (E3/E4); E1 does not read the code"""
    return os.environ.get('VERIF_PIPE_TRACES_ONLY') == '1'


def cleanup():
    d = os.path.join(vlib.ROOT, SPEC)
    for f in os.listdir(d):
        if '_TTrace_' in f:
            os.remove(os.path.join(d, f))


def negative_control(ctx, cfgname, expect, what):
    """the specification of the code BEFORE a fix must violate the property"""
    res = ctx.tlc(SPEC, 'MCPipeline.tla', cfgname, workers=4, label='negative control: ' + what, timeout=300, count=False)
    ctx.cov.setdefault('negative_controls', []).append({'cfg': cfgname, 'what': what, 'violation': res.violation,
                                                        'states': res.distinct})
    cleanup()
    if not res.violation or expect not in res.violation:
        raise vlib.ToolError('negative control %s did not produce %s (got %s)' % (cfgname, expect, res.violation))
