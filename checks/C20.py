"""C20 - timed waits: ready means done, timeout means time elapsed (CompletionEvent::waitFor/waitUntil).

(The Future::wait_for / wait_until half of C20 is added by the futures component; it re-uses
spec/event/TimedWaitProps.tla, the timed-wait actions of Event.tla (completed status `tgt` is a
variable) and the E5 validator TimedObs.tla, whose records carry a free-text `kind`.)

E1  TLC on spec/event/Event.tla with the environment's time-outs and spurious futex returns enabled,
    logical clock = least time consistent with the expired timespecs: NeverEarly (ready => the notify
    store happened), TimeoutAfterElapsed (timeout => clock - call time >= request; zero / negative
    requests time out at once), TimespecCoversRemaining (timespec handed to FUTEX_WAIT >= remaining time),
    for zero / negative / sub-ms / long requests, waitFor and waitUntil, racing notify.
E2  every transition of that cover graph is replayed in the real CompletionEvent under the controlled
    scheduler (waitUntil runs on a test clock whose reading is an input of the program) ...
E3  ... and validated by TLC (EventTrace.tla): the FutexTimeout line carries the timespec the code handed
    to the modelled futex, the spec requires it to cover the remaining time and advances the clock.
E4  seeded random / PCT controlled schedules of random timed programs.
E5  free-running rounds (real futex, steady_clock, truly concurrent notify): one record per timed wait,
    elapsed measured outside the call (R5); TLC (TimedObs.tla) checks timeout => elapsed >= requested and
    ready => completed flag set and notify entered.
"""
import os

import C21

SPEC = C21.SPEC
WHAT = 'CompletionEvent timed waits'
LATCH = ('LtCdSub', 'LtTryLd', 'LtAwSub', 'EvReset')


def run(ctx):
    thorough = ctx.tier == 'thorough'
    exe = ctx.build('drv_event', C21.SRCS)

    # E1 + E2 ---------------------------------------------------------------------------------
    tr_cover, execs = C21.cover_replay(ctx, exe, 'MC_cover_c20.cfg', 'scen_cover_c20', WHAT, LATCH)

    # E4 ---------------------------------------------------------------------------------------
    traces = [tr_cover]
    n = 4000 if thorough else 300
    for pct in (0, 3):
        tr = os.path.join(ctx.work, 'rand_p%d.ndjson' % pct)
        tot, _ = ctx.driver(exe, ['--out', tr, '--randprog', 'c20', '--random', n, '--seed', ctx.seed + pct,
                                  '--pct', pct], WHAT, label='random timed programs pct%d' % pct,
                            allow_incomplete=True)
        traces.append(tr)
        execs += tot.get('completed', 0)

    # E3 ---------------------------------------------------------------------------------------
    allt = C21.cat(traces, os.path.join(ctx.work, 'all.ndjson'))
    C21.validate(ctx, 'EventTrace.tla', 'EventTrace.cfg', allt, WHAT, executions=execs,
                 label='cover replay + random timed programs')
    ctx.sample_trace(tr_cover, 12)

    # E5 ---------------------------------------------------------------------------------------
    obs = os.path.join(ctx.work, 'obs.ndjson')
    rounds = 1500 if thorough else 150
    tot, _ = ctx.driver(exe, ['--out', obs, '--free', rounds, '--seed', ctx.seed], WHAT,
                        label='free-running timed waits (real futex, steady_clock)', timeout=900)
    C21.validate(ctx, 'TimedObs.tla', 'TimedObs.cfg', obs, WHAT + ' (real time)', executions=tot.get('steps', 0),
                 label='E5 real-time observation records')
    ctx.cov['realtime_records'] = tot.get('steps', 0)
    ctx.sample_trace(obs, 8)
    ctx.assumptions += [
        'controlled runs: time is the logical clock of Event.tla (least time consistent with the expired timespecs); '
        'the Clock of waitUntil is a test clock whose single reading is an input of the program',
        'the microsecond value logged for a timespec may be 1 short when the request is not exactly representable '
        'as a double number of seconds (declared per op as `tol`; 0 for multiples of 1/64 s)',
        'free-running runs: elapsed time is measured outside the call with steady_clock and rounded down (R5); '
        'the kernel never expires a relative futex timeout early',
        'the futex model of harness/ctl (compare-and-block, wake-all, spurious returns, time-outs any time) (R4)',
        'only the Linux/FreeBSD CompletionEventImpl is compiled and checked',
        'TLC, the JSON/IOUtils community modules and g++ are trusted',
    ]

    # Future::wait_for / wait_until half of C20 (futures component, checks/c20_future.py).  It needs that
    # component's hooks (sites Fu*) in the tree under VERIF_REPO; without them it is skipped and recorded.
    from vlib import REPO
    fut = os.path.join(os.path.dirname(os.path.abspath(__file__)), 'c20_future.py')
    try:
        hooked = 'DISPENSO_VERIF_POINT("Fu' in open(os.path.join(REPO, 'dispenso/detail/future_impl.h')).read()
    except OSError:
        hooked = False
    if os.path.exists(fut) and hooked:
        import c20_future
        c20_future.run_future_part(ctx)
        ctx.cov['future_half'] = 'included'
    else:
        ctx.cov['future_half'] = 'skipped: %s' % ('no Fu* hooks in VERIF_REPO' if os.path.exists(fut)
                                                   else 'checks/c20_future.py absent')
