"""C14 - parallel_for never uses one state object concurrently (DESIGN 5.1 / C14).

E1  TLC on spec/parfor/ParForApi.tla (API-level model of one stateful parallel_for call over an
    abstract pool): OneBodyPerState, StateExists, StatesNonEmptyAfterReturn, SlotsDistinct, ... in every
    state of every interleaving of the body invocations (MC_api_inter), on the overlap-free schedules of
    a larger parameter domain (MC_api_seq); negative control: the model of the ORIGINAL static no-wait
    tail (runTail() on the caller) violates OneBodyPerState.
E3/E4 the REAL parallel_for on the REAL pool under the controlled scheduler (random + PCT schedules of the
    pool's schedule points; the body logs begin/end INSIDE the body with the index of the State object it
    was handed, found by address): every step validated by TLC against the spec (body notes = BodyBegin /
    BodyEnd of that thread on that state, pool steps = stutter, per-state in-use counters projected after
    every step must equal the spec's), invariants on.
    Free-running executions with rendezvous bodies on pools of 3/8 threads, validated the same way from
    begin/end events written under the trace lock from inside the body.
"""
import random

import loops_common as lc

WHAT = 'parallel_for never uses one state object concurrently'
MOD, CFG = 'ParForApiTrace.tla', 'ParForApiTrace.cfg'


def run(ctx):
    thorough = ctx.tier == 'thorough'
    exe = lc.build(ctx)
    # E1 ---------------------------------------------------------------------------------------
    if not lc.SKIP_E1:   # (mutation runs of the dispenso code skip the code-independent model checking)
        lc.check_model(ctx, 'MCParForApi.tla', 'MC_api_inter_thorough.cfg' if thorough else 'MC_api_inter.cfg', WHAT,
                        label='all interleavings of the body invocations')
        lc.check_model(ctx, 'MCParForApi.tla', 'MC_api_seq_thorough.cfg' if thorough else 'MC_api_seq.cfg', WHAT,
                        label='overlap-free schedules, wide parameter domain')
        lc.negative_control(ctx, 'MCParForApi.tla', 'MC_api_neg_tail_c14.cfg',
                            'original static no-wait tail on the caller shares states[0] with chunk 0', 'OneBodyPerState')
    # E3/E4 ------------------------------------------------------------------------------------
    rng = random.Random(ctx.seed)
    scens = lc.PF_REGRESSION + [lc.pf_scenario(rng) for _ in range(120 if thorough else 26)]
    tr, done, _ = lc.run_controlled(ctx, exe, scens, 8 if thorough else 3, ctx.seed, WHAT, MOD, CFG,
                                    'controlled executions of parallel_for', validate=False)
    ctx.sample({'scenarios': scens[:12]})
    ctx.sample_trace(tr, 10, skip=16)
    big = [s.replace('N=2', 'N=8').replace('N=3,', 'N=8,').replace('N=1,', 'N=3,') for s in lc.PF_REGRESSION[:7]] + \
        [lc.pf_scenario(rng, big=True) for _ in range(150 if thorough else 30)]
    trf, donef, _ = lc.run_free(ctx, exe, big, 6 if thorough else 2, ctx.seed, WHAT, MOD, CFG,
                                'free-running parallel_for with rendezvous bodies', validate=False)
    lc.validate_all(ctx, [(tr, done), (trf, donef)], WHAT, MOD, CFG, 'controlled + free-running executions of parallel_for')
    ctx.sample_trace(trf, 8, skip=1)
    ctx.cov['evaluations'] = done + donef
    ctx.cov['peak_concurrent_bodies_observed'] = max(lc.peak_concurrency(tr), lc.peak_concurrency(trf))
    ctx.assumptions += lc.ASSUME + [
        'a call with an empty range runs no body and leaves the container untouched: the non-empty claim is for non-empty ranges']
