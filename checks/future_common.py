"""Shared machinery of the Future checks (C18, C19, c20_future)."""
import importlib.util
import json
import os
import random

import vlib
import pool_common

SPEC = 'spec/future'
_spec = importlib.util.spec_from_file_location('future_gen', os.path.join(vlib.ROOT, SPEC, 'gen.py'))
gen = importlib.util.module_from_spec(_spec)
_spec.loader.exec_module(gen)

INVS = ('TypeOK NoBad FuncOnce ReadyImpliesRan GetsAgree DeallocOnce RefsSane ThenAfterReady TsWaitImpliesReady '
        'CountersSane AtEnd WhenAllReady WhenAnyReady CombFOnce')
ENV_EVENTS = ('FutexTimeout', 'FutexSpurious')
# TLC actions that a given model cannot take are not vacuity failures (each model exercises a part of the spec)
ALL_ACTIONS = ('Start DrOp DrEnd GateUp GateSync DrRunQ FuRunCas FuNotify FutexWake FuTscDec FuTscInc FuChainLd '
               'FuChainTake FuWaitLd FuWaitBlock FutexWait FutexRet FuIncRef FuDecRef FuDealloc FuReadyLd FuThenLd '
               'FuThenHeadLd FuThenPush FuThenRecheck FuWaDec FuWaCountLd FuWyCas FuWyWinnerLd FuWyInlineCas '
               'FuWyWinnerLd2 PoolEnter PoolReturn FutexTimeout FutexSpurious Terminated').split()

ASSUME = [
    'sequentially consistent interleavings (weak-memory effects, e.g. the release-only fetch_sub before dealloc, are C10)',
    'the ThreadPool / TaskSet internals are abstract at this level (a bag of queued futures; pool-internal steps of the real '
    'pool are stuttering steps whose projection must leave the futures\' words unchanged); pool properties: C01..C09',
    'CompletionEventImpl (Linux futex path) is entered through the modelled futex of harness/ctl: compare-and-block, wake-all, '
    'time-outs and spurious returns at any time (R4); its status loads are folded into the preceding schedule point',
    'std::shared_ptr / std::vector / std::tuple internals of when_all / when_any are trusted (their reference counts are '
    'projected, not interleaved)',
    'bounded programs: <= 7 shared states, <= 8 handles, <= 4 driver threads, pool of 0-2 workers with small spin constants',
    'trusted: TLC, the JSON/IOUtils community modules, g++, the controlled scheduler (harness/ctl)',
]


def build(ctx, sanitize=False):
    flags = pool_common.TUNE + ['-DDISPENSO_TUNE_WAKE_GROUP_SIZE=2']
    if sanitize:
        flags = flags + ['-DDISPENSO_NO_SMALL_BUFFER_ALLOCATOR']
    return ctx.build('drv_future', ['harness/drv/drv_future.cpp', 'harness/ctl/ctl.cpp'], dispenso=vlib.DISPENSO_SRCS,
                     flags=flags, sanitize=sanitize)


def write_progs(path, texts):
    with open(path, 'w') as f:
        for t in texts:
            f.write('%s\t%s\n' % (t, gen.header(t)))


def annotate(raw, out):
    """Pure data transformation of a recorded trace (no judgement):
       n  = site of the same thread's next event in the same execution ("" if none)
       r  = notes with plain numbers n turned into ["n", n, 0] so that the sequence is homogeneous."""
    evs = []
    with open(raw) as f:
        for line in f:
            line = line.strip()
            if line:
                try:
                    evs.append(json.loads(line))
                except ValueError:
                    break      # truncated tail of a crashed driver
    nxt = {}
    for i in range(len(evs) - 1, -1, -1):
        ev = evs[i]
        e = ev.get('e')
        if e == 'Reset':
            nxt = {}
            continue
        if e in ('End', 'Deadlock', 'Diverged'):
            nxt = {}
            continue
        t = ev.get('t')
        if e in ENV_EVENTS:
            continue
        ev['n'] = nxt.get(t, '')
        nxt[t] = e
        ev['r'] = [(x if isinstance(x, list) else ['n', x, 0]) for x in ev.get('r', [])]
    with open(out, 'w') as f:
        for ev in evs:
            f.write(json.dumps(ev, separators=(',', ':')) + '\n')
    return len(evs)


def cat(paths, out):
    with open(out, 'w') as o:
        for p in paths:
            with open(p) as f:
                for line in f:
                    o.write(line)
    return out


def cfg_for(ctx, fixed):
    """trace cfg: WyFix follows the code under test (does the worktree contain the when_any fix?)"""
    return 'FutureTrace_fixed.cfg' if fixed else 'FutureTrace.cfg'


def code_has_wany_fix():
    p = os.path.join(vlib.REPO, 'dispenso/detail/future_impl2.h')
    try:
        return 'verif-fix: when_any inline winner' in open(p).read()
    except OSError:
        return False


def run_and_validate(ctx, exe, texts, what, label, n=4, seed=1, pct=3, spurious=False, fixed=None, maxsteps=30000,
                     allow_stall_pct=True):
    """random controlled executions of the given programs, annotated, validated by TLC"""
    fixed = code_has_wany_fix() if fixed is None else fixed
    tag = label.replace(' ', '_').replace('/', '_')
    progs = os.path.join(ctx.work, 'progs_%s.txt' % tag)
    write_progs(progs, texts)
    raw = os.path.join(ctx.work, 'raw_%s.ndjson' % tag)
    args = ['--out', raw, '--progs', progs, '--random', n, '--seed', seed, '--pct', pct, '--maxsteps', maxsteps]
    if spurious:
        args.append('--spurious')
    tot, out = ctx.driver(exe, args, what, label=label, allow_incomplete=True)
    tr = os.path.join(ctx.work, 'tr_%s.ndjson' % tag)
    if not os.path.exists(raw):
        return None, tot
    annotate(raw, tr)
    res = ctx.validate(SPEC, 'FutureTrace.tla', cfg_for(ctx, fixed), tr, what + ' [' + label + ']',
                       executions=tot.get('completed', 0), label=label)
    if tot and tot.get('executions', 0) > tot.get('completed', 0) + tot.get('deadlocks', 0) and not res.violation:
        # an execution hit the step bound: with PCT priorities a spinning waiter (TaskSet::wait) can starve the worker
        # it waits for; under the uniform random scheduler it means the program does not terminate
        path = ctx.save_replay('%s-stalled.txt' % ctx.prop, 'programs:\n%s\nan execution did not finish within %d steps\n\n%s'
                               % ('\n'.join(texts), maxsteps, ctx._trace_context(tr, sum(1 for _ in open(tr)))))
        ctx.violation('stalled:' + label, what + ': an execution never completes [' + label + ']', path)
    return tr, tot


def model(ctx, name, what, label, workers_const='MCNoWorkers', fixed=False, spurious=False, dump=None, exempt=None):
    """E1: TLC on one of the generated MC programs"""
    cfgdir = os.path.join(vlib.ROOT, SPEC)
    cfg = 'MC_%s.cfg' % name
    return ctx.check_model(SPEC, 'MCFuture.tla', cfg, what, label=label, dump=dump, workers=4,
                           vacuity_exempt=tuple(ALL_ACTIONS) if exempt is None else exempt)
