"""Shared machinery of the Future checks (C18, C19, c20_future)."""
import importlib.util
import json
import os
import random
import re

import vlib
import pool_common

SPEC = 'spec/future'
_spec = importlib.util.spec_from_file_location('future_gen', os.path.join(vlib.ROOT, SPEC, 'gen.py'))
gen = importlib.util.module_from_spec(_spec)
_spec.loader.exec_module(gen)

INVS = ('TypeOK NoBad FuncOnce ReadyImpliesRan GetsAgree DeallocOnce RefsSane ThenAfterReady TsWaitImpliesReady '
        'CountersSane AtEnd WhenAllReady WhenAnyReady CombFOnce')
ENV_EVENTS = ('FutexTimeout', 'FutexSpurious')
# TLC actions that a given model cannot take are not vacuity failures (each model exercises a part of the spec)
ALL_ACTIONS = ('Start DrOp DrEnd GateUp GateSync DrRunQ FuRunCas FuNotify FutexWake FuTscDec FuTscInc FuChainLd '
               'FuChainTake FuWaitLd FuWaitBlock FutexWait FutexRet FuIncRef FuDecRef FuDealloc FuReadyLd FuThenLd '
               'FuThenHeadLd FuThenPush FuThenRecheck FuWaDec FuWaCountLd FuWyCas FuWyWinnerLd FuWyInlineCas '
               'FuWyWinnerLd2 PoolEnter PoolReturn FutexTimeout FutexSpurious Terminated').split()

ASSUME = [
    'sequentially consistent interleavings (weak-memory effects, e.g. the release-only fetch_sub before dealloc, are C10)',
    'the ThreadPool / TaskSet internals are abstract at this level (a bag of queued futures; pool-internal steps of the real '
    'pool are stuttering steps whose projection must leave the futures\' words unchanged); pool properties: C01..C09',
    'CompletionEventImpl (Linux futex path) is entered through the modelled futex of harness/ctl: compare-and-block, wake-all, '
    'time-outs and spurious returns at any time (R4); its status loads are folded into the preceding schedule point',
    'std::shared_ptr / std::vector / std::tuple internals of when_all / when_any are trusted (their reference counts are '
    'projected, not interleaved)',
    'bounded programs: <= 7 shared states, <= 8 handles, <= 4 driver threads, pool of 0-2 workers with small spin constants',
    'trusted: TLC, the JSON/IOUtils community modules, g++, the controlled scheduler (harness/ctl)',
]


def build(ctx, sanitize=False):
    flags = pool_common.TUNE + ['-DDISPENSO_TUNE_WAKE_GROUP_SIZE=2']
    if sanitize:
        flags = flags + ['-DDISPENSO_NO_SMALL_BUFFER_ALLOCATOR']
    return ctx.build('drv_future', ['harness/drv/drv_future.cpp', 'harness/ctl/ctl.cpp'], dispenso=vlib.DISPENSO_SRCS,
                     flags=flags, sanitize=sanitize)


def write_progs(path, texts):
    with open(path, 'w') as f:
        for t in texts:
            f.write('%s\t%s\n' % (t, gen.header(t)))


def annotate(raw, out):
    """Pure data transformation of a recorded trace (no judgement):
       n  = site of the same thread's next event in the same execution ("" if none)
       r  = notes with plain numbers n turned into ["n", n, 0] so that the sequence is homogeneous."""
    evs = []
    with open(raw) as f:
        for line in f:
            line = line.strip()
            if line:
                try:
                    evs.append(json.loads(line))
                except ValueError:
                    break      # truncated tail of a crashed driver
    nxt = {}
    for i in range(len(evs) - 1, -1, -1):
        ev = evs[i]
        e = ev.get('e')
        if e == 'Reset':
            nxt = {}
            continue
        if e in ('End', 'Deadlock', 'Diverged'):
            nxt = {}
            continue
        t = ev.get('t')
        if e in ENV_EVENTS:
            continue
        ev['n'] = nxt.get(t, '')
        nxt[t] = e
        ev['r'] = [(x if isinstance(x, list) else ['n', x, 0]) for x in ev.get('r', [])]
    with open(out, 'w') as f:
        for ev in evs:
            f.write(json.dumps(ev, separators=(',', ':')) + '\n')
    return len(evs)


def cleanup():
    """TLC writes a trace-exploration module next to the spec when a trace is rejected: remove them"""
    d = os.path.join(vlib.ROOT, SPEC)
    for f in os.listdir(d):
        if '_TTrace_' in f:
            try:
                os.remove(os.path.join(d, f))
            except OSError:
                pass


def cat(paths, out):
    with open(out, 'w') as o:
        for p in paths:
            with open(p) as f:
                for line in f:
                    o.write(line)
    return out


def cfg_for(ctx, fixed):
    """trace cfg: WyFix follows the code under test (does the worktree contain the when_any fix?)"""
    return 'FutureTrace_fixed.cfg' if fixed else 'FutureTrace.cfg'


def code_has_wany_fix():
    p = os.path.join(vlib.REPO, 'dispenso/detail/future_impl2.h')
    try:
        return 'if (shared->winner.compare_exchange_strong(expected, size_t{0}' in open(p).read()
    except OSError:
        return False


def run_and_validate(ctx, exe, texts, what, label, n=4, seed=1, pct=3, spurious=False, fixed=None, maxsteps=30000,
                     allow_stall_pct=True):
    """random controlled executions of the given programs, annotated, validated by TLC"""
    fixed = code_has_wany_fix() if fixed is None else fixed
    tag = label.replace(' ', '_').replace('/', '_')
    progs = os.path.join(ctx.work, 'progs_%s.txt' % tag)
    write_progs(progs, texts)
    raw = os.path.join(ctx.work, 'raw_%s.ndjson' % tag)
    args = ['--out', raw, '--progs', progs, '--random', n, '--seed', seed, '--pct', pct, '--maxsteps', maxsteps]
    if spurious:
        args.append('--spurious')
    tr = os.path.join(ctx.work, 'tr_%s.ndjson' % tag)
    tot = {}
    # a violation is reported only if it repeats when the same seeds are run again (a controlled run on an overloaded
    # machine can report a spurious "nothing runnable" while a really blocked thread - join - is slow to come back)
    for attempt in (0, 1):
        final = attempt == 1
        tot, out = ctx.driver(exe, args, what, label=label, allow_incomplete=True, report=final)
        nlines = annotate(raw, tr) if os.path.exists(raw) else 0
        if nlines == 0:
            continue        # the driver crashed before it recorded anything (reported by ctx.driver on the final attempt)
        res = ctx.validate(SPEC, 'FutureTrace.tla', cfg_for(ctx, fixed), tr, what + ' [' + label + ']',
                           executions=tot.get('completed', 0), label=label, report=final)
        stalled = bool(tot) and tot.get('executions', 0) > tot.get('completed', 0) + tot.get('deadlocks', 0)
        if stalled and final and not res.violation:
            # an execution hit the step bound under the (fair with probability 1) random scheduler: it does not terminate
            path = ctx.save_replay('%s-stalled.txt' % ctx.prop, 'programs:\n%s\nan execution did not finish within %d steps'
                                   '\n\n%s' % ('\n'.join(texts), maxsteps, ctx._trace_context(tr, sum(1 for _ in open(tr)))))
            ctx.violation('stalled:' + label, what + ': an execution never completes [' + label + ']', path)
        if tot and not res.violation and not stalled:
            break
    cleanup()
    return tr, tot


# actions every model must take at least once (vacuity check); everything else is exempt for that model
COMMON = 'Start DrOp DrEnd FuRunCas FuNotify FutexWake FuChainLd FuWaitLd FuDecRef FuDealloc Terminated'
MUST = {
    'cover': COMMON + ' GateUp DrRunQ FuWaitBlock FutexWait FutexRet FuIncRef',
    'three': COMMON + ' GateUp DrRunQ FuWaitBlock FutexWait FutexRet FuIncRef',
    'exc': COMMON + ' GateUp DrRunQ FuIncRef FuThenLd FuThenHeadLd FuThenPush FuThenRecheck FuChainTake FuReadyLd',
    'pool': COMMON + ' GateUp FuIncRef PoolEnter PoolReturn FuWaitBlock FutexWait FutexRet',
    'newthread': COMMON + ' GateUp FuIncRef FuWaitBlock FutexWait FutexRet',
    'then': COMMON + ' GateUp DrRunQ FuIncRef FuThenLd FuThenHeadLd FuThenPush FuThenRecheck FuChainTake FuReadyLd',
    'then2': COMMON + ' GateUp DrRunQ FuIncRef FuThenLd FuThenHeadLd FuThenPush FuThenRecheck FuChainTake FuReadyLd',
    'tset': COMMON + ' GateUp FuIncRef FuTscInc FuTscDec FuThenLd FuThenHeadLd FuThenPush FuThenRecheck FuChainTake '
                     'FuReadyLd PoolEnter PoolReturn',
    'wall': COMMON + ' GateUp DrRunQ FuIncRef FuThenLd FuThenHeadLd FuThenPush FuThenRecheck FuChainTake FuWaDec FuWaCountLd',
    'wall1': COMMON + ' GateUp DrRunQ FuIncRef FuThenLd FuThenHeadLd FuThenPush FuThenRecheck FuChainTake FuWaDec FuWaCountLd '
                      'FuReadyLd FuWaitBlock FutexWait FutexRet',
    'wall0': 'Start DrOp DrEnd FuWaitLd FuDecRef FuDealloc Terminated',
    'wallts': COMMON + ' GateUp DrRunQ FuIncRef FuThenLd FuThenHeadLd FuThenPush FuThenRecheck FuChainTake FuWaDec '
                       'FuTscInc FuTscDec PoolReturn FuReadyLd',
    # task-set overloads of when_all / when_any (C19): the result's own slot in the set's counter (FuTscInc / FuTscDec)
    'wallts6': COMMON + ' GateUp DrRunQ FuIncRef FuThenLd FuThenHeadLd FuThenPush FuThenRecheck FuChainTake FuWaDec '
                        'FuTscInc FuTscDec PoolReturn FuReadyLd',
    'walltst': COMMON + ' GateUp DrRunQ FuIncRef FuThenLd FuThenHeadLd FuThenPush FuThenRecheck FuChainTake FuWaDec '
                        'FuTscInc FuTscDec PoolReturn FuReadyLd',
    'walltst6': COMMON + ' GateUp DrRunQ FuIncRef FuThenLd FuThenHeadLd FuThenPush FuThenRecheck FuChainTake FuWaDec '
                         'FuTscInc FuTscDec PoolReturn FuReadyLd FuWaCountLd',
    'wanyts': COMMON + ' GateUp DrRunQ FuIncRef FuThenLd FuThenHeadLd FuThenPush FuThenRecheck FuChainTake FuWyCas '
                       'FuTscInc FuTscDec PoolReturn FuReadyLd',
    'walltsin': COMMON + ' FuIncRef FuThenLd FuThenHeadLd FuThenPush FuThenRecheck FuChainTake FuWaDec FuTscInc FuTscDec '
                         'PoolEnter PoolReturn FuReadyLd',
    'walltsin6': COMMON + ' FuIncRef FuThenLd FuThenHeadLd FuThenPush FuThenRecheck FuChainTake FuWaDec FuTscInc FuTscDec '
                          'PoolEnter PoolReturn FuReadyLd',
    'wany': COMMON + ' GateUp DrRunQ FuIncRef FuThenLd FuThenHeadLd FuThenPush FuThenRecheck FuChainTake FuWyCas FuWyWinnerLd '
                     'FuWyInlineCas FuWyWinnerLd2',
    'wany1': COMMON + ' GateUp DrRunQ FuIncRef FuThenLd FuThenHeadLd FuThenPush FuThenRecheck FuChainTake FuWyCas FuWyWinnerLd '
                      'FuWyInlineCas FuWyWinnerLd2',
    'wanyt': COMMON + ' GateUp DrRunQ FuIncRef FuThenLd FuThenHeadLd FuThenPush FuThenRecheck FuChainTake FuWyCas FuWyWinnerLd '
                      'FuWyInlineCas FuWyWinnerLd2',
    'wallt': COMMON + ' GateUp DrRunQ FuIncRef FuThenLd FuThenHeadLd FuThenPush FuThenRecheck FuChainTake FuWaDec FuWaCountLd',
    'timed': COMMON + ' GateUp DrRunQ FuIncRef FutexWait FutexRet FutexTimeout',
    'timed_d': COMMON + ' GateUp DrRunQ FuIncRef FutexWait FutexRet FutexTimeout FuReadyLd',
}


def model(ctx, name, what, label, fixed=False, dump=None, timeout=900):
    """E1: TLC on one of the generated MC programs, or on a group of them (spec/future/gen.py: MC, GROUPS)"""
    cfg = 'MC_%s.cfg' % name
    if fixed and os.path.exists(os.path.join(vlib.ROOT, SPEC, 'MC_%s_fixed.cfg' % name)):
        cfg = 'MC_%s_fixed.cfg' % name
    members = gen.GROUPS.get(name, [name])
    must = set()
    for m in members:
        must |= set(MUST[m].split())
    if name in gen.GROUPS:
        label = label + ': ' + ' | '.join(gen.MC[m] for m in members)
    return ctx.check_model(SPEC, 'MCFuture_%s.tla' % name, cfg, what, label=label, dump=dump, workers=4, timeout=timeout,
                           vacuity_exempt=tuple(a for a in ALL_ACTIONS if a not in must))


def cover_replay(ctx, exe, name, what, fixed=False):
    """E1 + E2 + E3: model-check the cover program `name`, turn its state graph into transition-covering schedules,
    replay every schedule in the real code and validate what was recorded"""
    dot = os.path.join(ctx.work, 'cover_%s.dot' % name)
    model(ctx, name, what, 'cover configuration %s: %s' % (name, gen.MC[name]), fixed=fixed, dump=dot)
    sched = os.path.join(ctx.work, 'cover_%s.sched' % name)
    info = ctx.walker(dot, sched)
    ctx.cov.setdefault('cover_graphs', {})[name] = info
    progs = os.path.join(ctx.work, 'progs_cover_%s.txt' % name)
    write_progs(progs, [gen.MC[name]])
    raw = os.path.join(ctx.work, 'raw_cover_%s.ndjson' % name)
    tot, _ = ctx.driver(exe, ['--out', raw, '--progs', progs, '--schedules', sched], what, label='cover replay ' + name)
    tr = os.path.join(ctx.work, 'tr_cover_%s.ndjson' % name)
    if not os.path.exists(raw) or annotate(raw, tr) == 0:
        return tr       # the driver crashed before it recorded anything (already reported by ctx.driver)
    ctx.validate(SPEC, 'FutureTrace.tla', cfg_for(ctx, fixed), tr, what + ' [cover replay %s]' % name,
                 executions=tot.get('completed', 0), label='cover replay ' + name)
    cleanup()
    return tr
