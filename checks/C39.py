"""C39 - OnceFunction invokes and destroys its callable exactly once.

E1  TLC, exhaustive, on spec/seq/OnceFn.tla (registers empty / armed(inline | spill(size class)) /
    consumed / moved; Create, Move, Call, Cleanup): every legal operation sequence over 3 registers and
    up to 3 callables drawn from representatives of every storage decision, and over 2 registers for ALL
    99 sizeof x alignof combinations of the property's quantifier: InvokedWhenCalled, DestroyedOnce,
    InvokedImpliesDestroyed, AlignOK, SizeOK, BlocksReturned, RegsOK.
E2  every transition of the cover configuration's state graph (3 registers, move chains up to 3) is
    replayed on the real OnceFunction; every Create takes the next of the 11 sizes x 9 alignments callable
    types (template instantiations) and one of three construction forms (in place from a temporary,
    move-assigned from another OnceFunction, from an lvalue), every Move one of two forms.
E2c callables WITHOUT data members.  Every Callable<S, A> of the rotation has bytes[S]; the 100th slot of the
    rotation (cover replay, random sequences, directed run) is a std::is_empty callable type (sizeof 1, alignof 1)
    whose constructions, moves, invocations and destructions are booked through statics (identity by address
    outside of the object: prototype, husks, "the value" = everything else), and whose re-entrant form nests an
    empty callable too.  "No data members" is not "nothing to tear down" (guards / tracers): an implementation
    that special-cases stateless callables (no destructor call, no construction, two destructions) is judged by
    the same trace specification - dtor/live/inv per callable after every operation.
E3  each recorded operation (inline/spill decision, address % alignof at construction / invocation /
    destruction, bytes intact after the memcpy moves, where it was destroyed, which size class' thread
    cache received the block, invocation/live/destruction counters of every callable, husks, blocks
    outstanding per small-buffer class, heap blocks outstanding) is validated by TLC against the spec
    (OnceFnTrace.tla evaluates KindOf/ClassOf on the real sizeof/alignof), all invariants on.
E4  random legal operation sequences; thorough: the same under AddressSanitizer/UBSan as auxiliary monitor.
E2b storage owned until destruction ENDS (the release is the last thing operator() / cleanupNotRun() do).
    Counting constructions / destructions cannot see a block that is handed back to its pool (or free()d)
    before or while the callable is invoked / destroyed: nothing is observable unless somebody allocates from
    the same class in between - which is what a capture does whose destructor schedules follow-up work.  So
    (1) every callable samples, inside operator() and as its destructor ends, the blocks outstanding per class
    / on the heap: they must be those of the step's pre-state (OnceFnTrace!OwnedToTheEnd); (2) in two of every
    three rounds of the type rotation (cover replay and random sequences) the callable is RE-ENTRANT: its
    operator() and its destructor create and consume (invoke / cleanupNotRun) a nested OnceFunction holding a
    callable of the same sizeof/alignof - same storage decision, same size class, same thread cache; the
    nested callable must not overlap the live outer one, both must keep their bytes (the outer one checks
    its pattern as the last statement of its destructor), the nested one is destroyed exactly once;
    (3) directed executions (--reentrant): all 99 types + 2 of heap class 1024 x both nested-consume forms x
    {run, cleanupNotRun, moved then run, moved twice then cleanupNotRun, two blocks of the class taken and the
    older one consumed first}.
"""
import os
import re

import vlib

SPEC = 'spec/seq'
WHAT = 'OnceFunction invoke/destroy exactly once, aligned storage, block returned to its class'
NOTE = ['-noGenerateSpecTE']
SRCS = ['harness/drv/drv_oncefn.cpp', 'harness/ctl/ctl.cpp']
WRAP = ['-Wl,--wrap=malloc,--wrap=free']
ROT = 11 * 9 + 1     # callable types of the driver's rotation: Callable<S, A> (bytes[S]) + the member-less callable


def _flags():
    return ['-I' + os.path.join(vlib.REPO, 'dispenso', 'third-party')]


def _types_covered(ctx, tot, out, label):
    m = re.search(r'^CREATES (\d+) TYPES (\d+)', out, re.M)
    if not m:
        if not tot:
            return 0     # the driver crashed: already reported as a violation by ctx.driver
        raise vlib.ToolError('driver run "%s" printed no CREATES line' % label)
    creates, types = int(m.group(1)), int(m.group(2))
    ctx.cov.setdefault('creates', {})[label] = creates
    if types != ROT:
        raise vlib.ToolError('driver has %d callable types, expected 11 x 9 + 1 = %d' % (types, ROT))
    return creates


def _schedules(dot, out):
    """bin/walker.py's transition cover; the edge labels are Create("f1", [size |-> .., align |-> ..]),
    Move("f1", "f2"), Call("f1"), Cleanup("f1"): the move target (dropped by walker's own writer) is kept by
    folding it into the action name (MoveToF2), the model's kind is dropped (the driver substitutes all
    real callable types)."""
    import collections
    import json
    import sys
    sys.path.insert(0, os.path.join(vlib.ROOT, 'bin'))
    import walker
    init, edges, nodes, nedges = walker.load(dot)
    if init is None:
        raise vlib.ToolError('no initial state in ' + dot)
    paths, total, covered = walker.cover(init, edges)
    actions = collections.Counter()
    steps = 0
    with open(out, 'w') as f:
        for labs in paths:
            sch = []
            for lab in labs:
                st = walker.parse_label(lab)
                if st is None or 't' not in st:
                    raise vlib.ToolError('unexpected edge label ' + lab)
                a = st['a']
                if a == 'Move':
                    a = 'MoveToF' + st['x'][0].lstrip('f')
                sch.append({'t': st['t'], 'a': a})
                actions[st['a']] += 1
            steps += len(sch)
            f.write(json.dumps(sch, separators=(',', ':')) + '\n')
    os.remove(dot)
    return {'nodes': len(nodes), 'edges': nedges, 'reachable_edges': total, 'covered_edges': covered,
            'paths': len(paths), 'steps': steps, 'actions': dict(actions)}


def _explain(trace, line):
    """Diagnosis only (the verdict is TLC's): which of the 'storage owned until destruction ends' observations
    of the rejected Call / Cleanup line deviates from the pre-state recorded on the line before it."""
    try:
        with open(trace) as f:
            lines = f.readlines()
        import json
        ev = json.loads(lines[line - 1])
        prev = json.loads(lines[line - 2])
    except Exception:
        return
    if ev.get('e') not in ('Call', 'Cleanup') or 'out' not in prev:
        return
    c = ev.get('id', 0)
    if c and len(ev.get('dtor', [])) >= c and ev['dtor'][c - 1] != 1:
        vlib.log('  diagnosis: %s consumed callable %d, which was destroyed %d times by then (exactly once is '
                 'required; still alive: %d, invoked: %d)'
                 % ('operator()' if ev['e'] == 'Call' else 'cleanupNotRun()', c, ev['dtor'][c - 1],
                    ev['live'][c - 1], ev['inv'][c - 1]))
        for k in range(line - 2, -1, -1):     # its Create line: which type
            try:
                cr = json.loads(lines[k])
            except Exception:
                break
            if cr.get('e') == 'Reset':
                break
            if cr.get('e') == 'Create' and cr.get('id') == c:
                vlib.log('  diagnosis: the callable has sizeof %d, alignof %d, storage %s%s'
                         % (cr['size'], cr['align'], cr['kind'],
                            ', NO data members (std::is_empty) and a destructor that books through statics'
                            if cr.get('empty') else ''))
                break
    why = []
    if 'iout' in ev and (ev['iout'] != prev['out'] or ev['ilout'] != prev['lout']):
        why.append('the callable\'s block was already released when operator() ran (outstanding inside operator() '
                   '%r/%r, before the step %r/%r)' % (ev['iout'], ev['ilout'], prev['out'], prev['lout']))
    if ev.get('dout') != prev['out'] or ev.get('dlout') != prev['lout']:
        why.append('the callable\'s block was released BEFORE its destructor finished (outstanding at the end of the '
                   'destructor %r/%r, before the step %r/%r)' % (ev.get('dout'), ev.get('dlout'), prev['out'],
                                                                 prev['lout']))
    if ev.get('nover'):
        why.append('a OnceFunction created during the invocation / destruction got storage overlapping the live '
                   'callable (%d times)' % ev['nover'])
    if ev.get('nbad'):
        why.append('the nested callable was clobbered')
    if ev.get('re') and not ev.get('intact', 1):
        why.append('the callable\'s bytes were overwritten before its destruction ended')
    for w in why:
        vlib.log('  diagnosis: storage not owned until destruction ended: ' + w)


def run(ctx):
    thorough = ctx.tier == 'thorough'
    exe = ctx.build('drv_oncefn', SRCS, dispenso=['small_buffer_allocator.cpp'], flags=_flags(), libs=WRAP)

    # E1 -------------------------------------------------------------------------------------
    dot = os.path.join(ctx.work, 'cover.dot')
    ctx.check_model(SPEC, 'MCOnceFn.tla', 'MCOnceFn_cover.cfg', WHAT, label='cover: 3 registers, 2 callables',
                    dump=dot, workers=4, extra=NOTE)
    ctx.check_model(SPEC, 'MCOnceFn.tla', 'MCOnceFn_all1.cfg', WHAT, workers=4, extra=NOTE,
                    label='3 registers, 1 callable, all 99 sizeof x alignof')
    ctx.check_model(SPEC, 'MCOnceFn.tla', 'MCOnceFn_repr2.cfg', WHAT, workers=4, extra=NOTE,
                    label='3 registers, 2 callables, representatives of every storage decision')
    if thorough:
        ctx.check_model(SPEC, 'MCOnceFn.tla', 'MCOnceFn_repr.cfg', WHAT, workers=4, extra=NOTE, timeout=1500,
                        label='3 registers, 3 callables, representatives of every storage decision')
        ctx.check_model(SPEC, 'MCOnceFn.tla', 'MCOnceFn_all.cfg', WHAT, workers=4, extra=NOTE, timeout=1500,
                        label='2 registers, 2 callables, all 99 sizeof x alignof')

    # E2 + E3 ---------------------------------------------------------------------------------
    sched = os.path.join(ctx.work, 'cover.sched')
    info = _schedules(dot, sched)
    if info['covered_edges'] != info['reachable_edges']:
        raise vlib.ToolError('walker did not cover the graph: %r' % info)
    ctx.cov['cover_graph'] = info
    tr = os.path.join(ctx.work, 'cover.ndjson')
    passes = 12 if thorough else 3
    tot, out = ctx.driver(exe, ['--out', tr, '--schedules', sched, '--passes', passes, '--seed', ctx.seed], WHAT,
                          label='cover replay')
    creates = _types_covered(ctx, tot, out, 'cover replay')
    if tot and creates < 2 * ROT:
        raise vlib.ToolError('cover replay created only %d callables: the type rotation did not go round twice'
                             % creates)
    cover_execs = tot.get('completed', 0)
    ctx.sample_trace(tr, 8)

    # E4 + E3 ---------------------------------------------------------------------------------
    n = 6000 if thorough else 500
    tr2 = os.path.join(ctx.work, 'random.ndjson')
    tot, out = ctx.driver(exe, ['--out', tr2, '--random', n, '--maxops', 14, '--seed', ctx.seed + 7], WHAT,
                          label='random sequences')
    _types_covered(ctx, tot, out, 'random sequences')
    rand_execs = tot.get('completed', 0)

    # E2b: directed re-entrant payloads (see the module comment) ---------------------------------
    tr3 = os.path.join(ctx.work, 'reentrant.ndjson')
    tot, out = ctx.driver(exe, ['--out', tr3, '--reentrant', '--seed', ctx.seed + 3], WHAT,
                          label='re-entrant payloads, every type x consume path')
    _types_covered(ctx, tot, out, 're-entrant payloads')
    if tot and tot.get('completed', 0) != (ROT + 2) * 2 * 5:
        raise vlib.ToolError('re-entrant run completed %r executions, expected %d'
                             % (tot.get('completed'), (ROT + 2) * 2 * 5))
    reent_execs = tot.get('completed', 0)
    # the rotation of the cover replay and the random run must have produced all three payload modes
    modes = {}
    empties = {}      # member-less callables (the only type of sizeof 1 that is created from the 100th slot of the
                      # rotation; the driver's static_assert guarantees std::is_empty): per trace, per payload mode
    for name, t in (('cover', tr), ('random', tr2), ('reentrant', tr3)):
        with open(t) as f:
            for line in f:
                if '"e":"Create"' in line:
                    m = re.search(r'"re":(\d)', line)
                    if name != 'reentrant':
                        modes[m.group(1) if m else '?'] = modes.get(m.group(1) if m else '?', 0) + 1
                    if '"empty":1' in line:
                        empties.setdefault(name, {}).setdefault(m.group(1) if m else '?', 0)
                        empties[name][m.group(1) if m else '?'] += 1
    ctx.cov['memberless_callables'] = empties
    if cover_execs and (not empties.get('cover') or len(empties.get('reentrant', {})) != 2):
        raise vlib.ToolError('member-less callables created: %r, expected some in the cover replay and both '
                             're-entrant modes in the directed run' % empties)
    ctx.cov['payload_modes'] = modes
    if cover_execs and set(modes) != {'0', '1', '2'}:
        raise vlib.ToolError('payload modes in the cover/random traces: %r, expected plain + 2 re-entrant' % modes)

    both = os.path.join(ctx.work, 'cover_and_random.ndjson')   # one TLC start for all traces
    with open(both, 'w') as o:
        for t in (tr, tr2, tr3):
            with open(t) as f:
                for line in f:
                    o.write(line)
    res = ctx.validate(SPEC, 'OnceFnTrace.tla', 'OnceFnTrace.cfg', both, WHAT,
                       executions=cover_execs + rand_execs + reent_execs,
                       label='cover replay + random sequences + re-entrant payloads', timeout=1500)
    if res.violation and res.rejected_line:
        _explain(both, res.rejected_line)

    if thorough:
        san = ctx.build('drv_oncefn', SRCS, dispenso=['small_buffer_allocator.cpp'], flags=_flags(), libs=WRAP,
                        sanitize=True)
        tr = os.path.join(ctx.work, 'random_san.ndjson')
        tot, out = ctx.driver(san, ['--out', tr, '--random', 3000, '--maxops', 14, '--seed', ctx.seed + 13], WHAT,
                              label='random sequences under ASan/UBSan')
        ctx.validate(SPEC, 'OnceFnTrace.tla', 'OnceFnTrace.cfg', tr, WHAT, executions=tot.get('completed', 0),
                     label='random sequences under ASan/UBSan', timeout=1500)

    for f in os.listdir(os.path.join(vlib.ROOT, SPEC)):
        if f.startswith(('MCOnceFn_TTrace_', 'OnceFnTrace_TTrace_')):
            try:
                os.remove(os.path.join(vlib.ROOT, SPEC, f))
            except OSError:
                pass
    ctx.assumptions += [
        'only documented uses are issued: operator()/cleanupNotRun() on an armed OnceFunction, construction / '
        'move into an object that owns nothing; callables are trivially relocatable (the documented contract)',
        'sequential component: every operation is atomic at its return; concurrency of the small buffer allocator '
        'underneath is C41',
        'alignment of spilled storage relies on C41 (blocks of size N are N-aligned) and is also observed directly '
        '(address % alignof, address % size class)',
        'the thread cache of the small buffer allocator is inspected through its private thread-locals '
        '(-fno-access-control); malloc/free are observed with -Wl,--wrap',
        'TLC, the JSON/IOUtils community modules and g++ are trusted',
    ]
