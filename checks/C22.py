"""C22 - RWLock mutual exclusion and progress.

E1  TLC, exhaustive, on the implementation-level spec spec/rwlock/RWLock.tla (one action per atomic
    access of rw_lock_impl.h, the wait loop of CompletionEventImpl and the modelled futex):
    ExclHold / ExclCs (writers <= 1, writer => no reader; at the code's linearisation points and
    as occupancy inside the critical sections), WordExact (the lock word is exactly "who owns the
    writer bit" + "who owns a reader unit": a failed try_lock restores it), TryNeverConflicts
    (action property), QuiescentZero, NoStuck / NoLostWake (no deadlock, no lost wake-up) in every
    state of every interleaving; Termination and BlockedProceeds under weak fairness (FairSpec).
E2  every transition of three cover configurations' state graphs is replayed in the real RWLock
    under the controlled scheduler with the modelled futex ...
E3  ... and the recorded trace (action, thread, futex outcome, woken set, returned value, writer
    bit / reader count / occupancy counters after every step) is validated by TLC against the spec
    (RWLockTrace.tla), all invariants on.
E4  random and PCT controlled schedules of random contract-abiding programs (2-4 threads, up to 3
    lock/unlock segments each, incl. upgrade with a single write-locking thread, downgrade,
    spurious futex returns), validated the same way.  A deadlock of the real code shows as a
    `Deadlock` event: the driver run is reported and the trace is rejected.
E5  free-running rounds (harness/drv/rwlock_stress.h): real threads, real futex, no controller (the
    hook points are inert), on RWLock and UnalignedRWLock: 2-4 threads hammer one lock with every
    operation of the contract (lock_upgrade by the single write-locking thread of its batch); the
    protected data are two plain counters.  One observation record per batch of rounds (torn
    reader snapshots, torn / lost writer updates, final counters, try results, quiescent probes
    through try_lock / try_lock_shared, watchdog) validated by TLC against spec/rwlock/RWLockObs.tla
    (exclusion, no lost update, quiescent zero, progress - whatever the interleaving INSIDE the steps
    of RWLock.tla, which E2-E4 cannot vary).
"""
import glob
import json
import os
import re
import shutil
import subprocess
import sys

SPEC = 'spec/rwlock'
WHAT = 'RWLock mutual exclusion and progress'
INVS = 'TypeOK ExclHold ExclCs WordExact QuiescentZero NoStuck NoLostWake'


# --------------------------------------------------------------------------- shared with C23
def calibrate(ctx, exe):
    """Does CompletionEventImpl::wait() carry its own schedule point (hooks of the CompletionEvent
    component merged)?  The specs model both layouts; TLC gets the answer through $CEPT."""
    p = subprocess.run([exe, '--calibrate'], stdout=subprocess.PIPE, stderr=subprocess.STDOUT, text=True,
                       timeout=60)
    m = re.search(r'CEPT=(\d)', p.stdout)
    if not m:
        import vlib
        raise vlib.ToolError('driver calibration failed: ' + p.stdout[-500:])
    return int(m.group(1))


def clean_tlc_droppings(specdir):
    import vlib
    for f in glob.glob(os.path.join(vlib.ROOT, specdir, '*_TTrace_*')):
        try:
            os.remove(f)
        except OSError:
            pass


def complete_schedules(dot, sched):
    """bin/walker.py covers every transition but its paths may stop in the middle of an execution;
    the controller would then finish with the lowest-index runnable thread, which may be one that
    spins on a held writer bit for ever.  Extend every schedule along the graph to a terminal state
    (shortest way, never taking a self-loop)."""
    import walker
    init, edges, nodes, nedges = walker.load(dot)
    step_of = {}

    def key(lab):
        st = walker.parse_label(lab)
        if st is None or 't' not in st:
            return None
        st.pop('x', None)
        return json.dumps(st, sort_keys=True)

    out_edges = {}
    for u, lst in edges.items():
        d = {}
        for v, lab in lst:
            k = key(lab)
            if k is not None and v != u:
                d.setdefault(k, v)
        out_edges[u] = d
    # distance to the nearest terminal node (no non-self-loop successor), by backward BFS
    pred = {}
    for u, d in out_edges.items():
        for k, v in d.items():
            pred.setdefault(v, []).append(u)
    terminal = [x for x in nodes if not out_edges.get(x)]
    dist = {x: 0 for x in terminal}
    nxt = {}
    frontier = list(terminal)
    while frontier:
        new = []
        for v in frontier:
            for u in pred.get(v, ()):
                if u not in dist:
                    dist[u] = dist[v] + 1
                    new.append(u)
        frontier = new
    for u, d in out_edges.items():
        best = None
        for k, v in d.items():
            if v in dist and (best is None or dist[v] < dist[best[1]]):
                best = (k, v)
        if best:
            nxt[u] = best
    added = 0
    lines = []
    with open(sched) as f:
        for line in f:
            sch = json.loads(line)
            cur = init
            ok = True
            for st in sch:
                k = json.dumps(st, sort_keys=True)
                loops = [1 for v, lab in edges.get(cur, ()) if v == cur and key(lab) == k]
                if k in out_edges.get(cur, {}):
                    cur = out_edges[cur][k]
                elif loops:
                    pass
                else:
                    ok = False
                    break
            if ok:
                while out_edges.get(cur):
                    k, v = nxt[cur]
                    sch.append(json.loads(k))
                    cur = v
                    added += 1
            lines.append(json.dumps(sch, separators=(',', ':')))
    with open(sched, 'w') as f:
        f.write('\n'.join(lines) + '\n')
    return added


def concat(ctx, name, traces):
    allt = os.path.join(ctx.work, name)
    with open(allt, 'w') as o:
        for t in traces:
            with open(t) as f:
                shutil.copyfileobj(f, o)
    return allt


def split_cover_dot(dot, covers):
    """One TLC run explores all cover programs (the program is part of the state, the graphs are
    disjoint); split the dumped graph into one dot file per initial state and match each to its
    cover by the program text in the initial state's label."""
    init_nodes = []
    node_lines = {}
    edge_lines = {}
    succ = {}
    with open(dot) as f:
        for line in f:
            m = re.match(r'^(-?\d+) -> (-?\d+) ', line)
            if m:
                edge_lines.setdefault(m.group(1), []).append(line)
                succ.setdefault(m.group(1), []).append(m.group(2))
                continue
            m = re.match(r'^(-?\d+) \[label="', line)
            if m:
                node_lines[m.group(1)] = line
                if 'style = filled' in line:
                    init_nodes.append(m.group(1))
    out = {}
    for ini in init_nodes:
        lsig = label_signature(node_lines[ini])
        name = None
        for cname, cfg, prog, exempt in covers:
            if prog_signature(prog) == lsig:
                name = cname
        if name is None or name in out:
            import vlib
            raise vlib.ToolError('cannot match an initial state of %s to a cover program' % dot)
        seen = {ini}
        stack = [ini]
        while stack:
            u = stack.pop()
            for v in succ.get(u, ()):
                if v not in seen:
                    seen.add(v)
                    stack.append(v)
        path = os.path.join(os.path.dirname(dot), name + '.dot')
        with open(path, 'w') as o:
            o.write('strict digraph DiskGraph {\n')
            o.write(node_lines[ini])
            for u in seen:
                if u != ini:
                    o.write(node_lines[u])
            for u in seen:
                for l in edge_lines.get(u, ()):
                    o.write(l)
            o.write('}\n')
        out[name] = path
    if len(out) != len(covers):
        import vlib
        raise vlib.ToolError('cover dump has %d initial states, expected %d' % (len(out), len(covers)))
    os.remove(dot)
    return out


def prog_signature(prog):
    """'t1:lock,unlock;t2:lock_shared.1' -> {thread: ([op names], [slots])}"""
    sig = {}
    for th in prog.split(';'):
        name, ops = th.split(':')
        names, slots = [], []
        for o in ops.split(','):
            op, _, sl = o.partition('.')
            names.append(op)
            slots.append(int(sl or 0))
        sig[name] = (names, slots)
    return sig


def label_signature(label):
    """the same, read from the `prog = [ t1 |-> <<[op |-> "lock", s |-> 0], ...>>, ... ]` conjunct of
    a state label (TLC prints record fields in an order of its own)."""
    label = label.replace('\\n', ' ').replace('\\"', '"')
    m = re.search(r'prog = \[(.*?)>> \]', label, re.S)
    sig = {}
    if not m:
        return sig
    for tm in re.finditer(r'(\w+) \|->\s*<<(.*?)(?=>>)', m.group(1) + '>>', re.S):
        body = tm.group(2)
        names = re.findall(r'op \|-> "(\w+)"', body)
        slots = [int(x) for x in re.findall(r'\bs \|-> (\d+)', body)]
        sig[tm.group(1)] = (names, slots or [0] * len(names))
    return sig


def cover_replay(ctx, specdir, mcmodule, cfg, exe, covers, env, what, exempt=(), drv_args=()):
    """E1 on the cover cfg (all cover programs in one TLC run, +dump), E2 replay of every
    transition of every program's graph; returns (trace, executions)."""
    traces = []
    execs = 0
    dot_all = os.path.join(ctx.work, 'cover_all.dot')
    ctx.check_model(specdir, mcmodule, cfg, what, label='cover programs ' + ' '.join(c[0] for c in covers),
                    dump=dot_all, vacuity_exempt=exempt, workers=4, env=env, extra=('-noGenerateSpecTE',))
    dots = split_cover_dot(dot_all, covers)
    for name, _cfg, prog, _ex in covers:
        dot = dots[name]
        dot2 = dot + '.keep'
        shutil.copyfile(dot, dot2)
        sched = os.path.join(ctx.work, name + '.sched')
        info = ctx.walker(dot, sched)
        info['completion_steps'] = complete_schedules(dot2, sched)
        os.remove(dot2)
        ctx.cov['cover_graph_' + name] = info
        tr = os.path.join(ctx.work, name + '.ndjson')
        tot, _ = ctx.driver(exe, ['--out', tr, '--prog', prog, '--schedules', sched] + list(drv_args), what,
                            label='cover replay ' + name)
        execs += tot.get('completed', 0)
        traces.append(tr)
    ctx.sample_trace(traces[0], 16)
    return concat(ctx, 'cover_all.ndjson', traces), execs


def random_runs(ctx, exe, runs, what):
    """E4: runs = [(label, [driver args])]; returns (trace, executions)."""
    traces = []
    execs = 0
    for label, args in runs:
        tr = os.path.join(ctx.work, 'rand_%s.ndjson' % label)
        tot, _ = ctx.driver(exe, ['--out', tr] + args, what, label='random ' + label)
        execs += tot.get('completed', 0)
        traces.append(tr)
    ctx.sample_trace(traces[-1], 10, skip=1)
    return concat(ctx, 'rand_all.ndjson', traces), execs


def validate_all(ctx, specdir, tracemodule, parts, what, together):
    """E3: parts = [(label, trace, executions)].  One JVM start costs seconds on a loaded machine, so
    the quick tier validates everything in one TLC run (each execution starts with a Reset line
    that carries its tag, so a rejection still names the execution)."""
    if together:
        allt = concat(ctx, 'all.ndjson', [p[1] for p in parts])
        parts = [('+'.join(p[0] for p in parts), allt, sum(p[2] for p in parts))]
    for label, tr, execs in parts:
        ctx.validate(specdir, tracemodule + '.tla', tracemodule + '.cfg', tr, what, executions=execs, label=label,
                     timeout=1500)


def free_running(ctx, exe, what, locks):
    """E5: free-running batches of the driver's --stress mode, one record per batch, validated by
    spec/rwlock/RWLockObs.tla (shared by C22 and C23).  The driver stops starting new batches when its
    wall-clock budget is used up (a loaded machine gives fewer rounds, never another verdict); a hang
    of the real code is reported by the driver's watchdog as a record with "stuck":1."""
    thorough = ctx.tier == 'thorough'
    rounds = 80000000 if thorough else 4000000
    ms = 60000 if thorough else 3500
    obs = os.path.join(ctx.work, 'stress.ndjson')
    tot, _ = ctx.driver(exe, ['--out', obs, '--stress', rounds, '--seed', ctx.seed, '--ms', ms], what,
                        label='free-running rounds on ' + locks, allow_incomplete=True, timeout=ms // 1000 + 120)
    batches = sum(1 for _ in open(obs)) if os.path.exists(obs) else 0
    ctx.validate('spec/rwlock', 'RWLockObs.tla', 'RWLockObs.cfg', obs, what, executions=batches,
                 label='free-running batches: exclusion, no lost update, quiescent zero, progress', timeout=1500)
    clean_tlc_droppings('spec/rwlock')
    ctx.cov['free_running_rounds'] = tot.get('executions', 0)
    ctx.cov['free_running_batches'] = batches
    ctx.sample_trace(obs, 2)
    ctx.assumptions.append(
        'free-running rounds (E5) on %s: real threads and futex, no controlled scheduler; observed per batch (128 '
        'barrier-started rounds, or 1024 programs per thread run back to back): reader snapshots of two plain counters '
        'with a != b, writer sections that found them torn or overwritten, final counters against the number of write '
        'sections, try_lock / try_lock_shared results, try_lock + try_lock_shared probes whenever the lock is '
        'quiescent, lock words after the batch; a thread counts as stuck if the batch has not finished after 10 s of '
        'wall time' % locks)


# ------------------------------------------------------------------------------------- C22
def run(ctx):
    thorough = ctx.tier == 'thorough'
    clean_tlc_droppings(SPEC)
    exe = ctx.build('drv_rwlock', ['harness/drv/drv_rwlock.cpp', 'harness/ctl/ctl.cpp'])
    cept = calibrate(ctx, exe)
    ctx.cov['completion_event_wait_has_own_point'] = cept
    env = {'CEPT': str(cept)}
    X = ('-noGenerateSpecTE',)
    never = ('CeWaitLd',) if not cept else ()

    # E1 + E2 + E3 on the cover configurations ---------------------------------------------------
    covers = [
        ('coverA', None, 't1:lock,unlock;t2:lock_shared,unlock_shared;t3:try_lock_shared,unlock_shared', None),
        ('coverB', None, 't1:try_lock,unlock;t2:lock_shared,unlock_shared;t3:lock,unlock', None),
        ('coverC', None,
         't1:lock_shared,upgrade,downgrade,unlock_shared;t2:lock_shared,unlock_shared;t3:try_lock_shared,unlock_shared',
         None),
    ]
    # (MC_cover.cfg: FairCover, all invariants, TryNeverConflicts, Termination, BlockedProceeds; every action
    #  of the spec but the spurious futex return must be taken)
    ctr, cex = cover_replay(ctx, SPEC, 'MCRWLock.tla', 'MC_cover.cfg', exe, covers, env, WHAT,
                            exempt=never + ('FutexSpurious',))

    # E1 exhaustive -------------------------------------------------------------------------------
    # (the cover configurations above already ran under FairSpec with Termination / BlockedProceeds)
    ctx.check_model(SPEC, 'MCRWLock.tla', 'MC_quick.cfg', WHAT,
                    label='3 programs of 3 threads x 2-3 segments: all op kinds, single upgrader, spurious wake-ups',
                    vacuity_exempt=never, workers=4, env=env, extra=X)
    if thorough:
        ctx.check_model(SPEC, 'MCRWLock.tla', 'MC_3x3.cfg', WHAT, label='FairSpec: 3 threads x 2-3 segments',
                        vacuity_exempt=never + ('FutexSpurious', 'UpgSub'), workers=4, env=env, extra=X)
        ctx.check_model(SPEC, 'MCRWLock.tla', 'MC_upg.cfg', WHAT, label='FairSpec: single upgrader + 2 readers, spurious wake-ups',
                        vacuity_exempt=never + ('TryOr', 'TryDrainLd', 'TryRollback'), workers=4, env=env, extra=X)
        ctx.check_model(SPEC, 'MCRWLock.tla', 'MC_4w.cfg', WHAT, label='FairSpec: 4 threads x 1-2 segments',
                        vacuity_exempt=never + ('FutexSpurious', 'UpgSub', 'DownAdd'), workers=4, env=env, extra=X)
        ctx.check_model(SPEC, 'MCRWLock.tla', 'MC_4x3.cfg', WHAT, label='FairSpec: 4 threads x 3 segments, DrainSpins 16',
                        vacuity_exempt=never + ('FutexSpurious', 'UpgSub'), workers=4, env=env, extra=X,
                        timeout=1700, heap='12g')

    # E4 ------------------------------------------------------------------------------------------
    n = 1200 if thorough else 100
    s = ctx.seed
    runs = [('uniform', ['--random', n, '--seed', s, '--randprog']),
            ('pct2', ['--random', n, '--seed', s + 101, '--randprog', '--pct', 2]),
            ('pct4_unaligned', ['--random', n, '--seed', s + 202, '--randprog', '--pct', 4, '--unaligned']),
            ('spurious', ['--random', n, '--seed', s + 303, '--randprog', '--spurious'])]
    rtr, rex = random_runs(ctx, exe, runs, WHAT)
    # E3 ------------------------------------------------------------------------------------------
    validate_all(ctx, SPEC, 'RWLockTrace', [('cover replay', ctr, cex), ('random schedules', rtr, rex)], WHAT,
                 together=not thorough)
    clean_tlc_droppings(SPEC)
    # E5 ------------------------------------------------------------------------------------------
    free_running(ctx, exe, WHAT, 'RWLock and UnalignedRWLock')
    ctx.assumptions += [
        'TLA+ interleaving semantics are sequentially consistent (weak-memory effects are C10)',
        'programs stay inside the documented contract: no recursive locking, unlock only by the holder, '
        'lock_upgrade only in programs where a single thread ever write-locks',
        'the futex is the harness\' model of FUTEX_WAIT/FUTEX_WAKE (wakes any waiters, spurious returns possible); '
        'progress assumes weak fairness of threads only',
        'kTryLockDrainSpins is 16 in the cover/trace configurations and abstracted to 2 in the larger exhaustive ones '
        '(the loop iterations are identical)',
        'TLC, the JSON/IOUtils community modules and g++ are trusted',
    ]
