"""C09 - pool shutdown, resize and setSignalingWake always complete without the back-stop."""
import pool_common as pc
from C01 import VAC
WHAT = 'ThreadPool destruction / resize / setSignalingWake complete for every worker state without the sleep back-stop'


def run(ctx):
    thorough = ctx.tier == 'thorough'
    ctx.check_model(pc.SPEC, 'MCPool.tla', 'MC_del.cfg', WHAT, label='destructor at every point of 2 workers loops (no time-outs, deadlock check)',
                    workers=8, required=('TpStop', 'PwAllReadMask', 'TpRzJoined', 'FutexWait', 'FutexWake'))
    ctx.check_model(pc.SPEC, 'MCPool.tla', 'MC_q2_basic.cfg', WHAT, label='a submission, then the destructor; claimed-but-not-woken sleepers '
                    '(no time-outs, deadlock check)', workers=8, required=('TpStop', 'PwAllReadMask', 'TpRzJoined', 'FutexWait', 'FutexWake'), timeout=1500)
    if thorough:
        ctx.check_model(pc.SPEC, 'MCPool.tla', 'MC_q_basic.cfg', WHAT, label='fq, sched, destructor (no time-outs)', workers=12,
                        required=('TpStop', 'PwAllReadMask', 'TpRzJoined', 'FutexWait', 'FutexWake'), timeout=3000, heap='16g')
        ctx.check_model(pc.SPEC, 'MCPool.tla', 'MC_resize.cfg', WHAT, label='resize 2->1->2, destructor (no time-outs)',
                        workers=8, required=('TpStop', 'PwAllReadMask', 'TpRzJoined', 'FutexWait', 'FutexWake'), timeout=2400)
    progs = [(2, 'main:new2,del'), (2, 'main:new3,idle,del'), (2, 'main:new2,resize1,resize3,del'),
             (4, 'main:new3,rbulk1.3,resize2,del'), (2, 'main:new2,wake0,wake1,del'), (2, 'main:new1,resize0,resize2,del'), (2, 'main:new2,idle,fq1,del'), (2, 'main:new2,idle,fq1,idle,fq2,del')]
    if thorough:
        progs += [(4, 'main:new3,del'), (2, 'main:new3,idle,resize1,idle,resize3,del'), (4, 'main:new2,idle,rbulk1.2,del')]
    exes = {}
    n = 25 if thorough else 6
    tr = None
    for i, (gs, p) in enumerate(progs):
        if gs not in exes:
            exes[gs] = pc.build(ctx, gs)
        tr = pc.validate_prog(ctx, exes[gs], gs, p, WHAT, n, ctx.seed + i, timeouts=False, label='gs%d %s' % (gs, p),
                              pct=(3 if i % 2 else 0))
    ctx.sample({'programs': [p for _, p in progs]})
    ctx.sample_trace(tr, 12, skip=30)
    ctx.assumptions += pc.ASSUME + ['poll mode (setSignalingWake(false)) legitimately uses its poll period as the mechanism; its workers are '
                                    'exercised with time-outs only in C01']
