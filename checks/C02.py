"""C02 - task-set wait()/tryWait()/destructor is a completion barrier; each non-cancelled body runs exactly once.

E1  TLC, exhaustive, spec/taskset/TaskSet.tla (one action per atomic access of task-set code over an abstract pool):
    WaitIsBarrier, AtMostOnce, SkippedOnlyIfCancelled, CounterExact, AllFinishedAtEnd (and the C04/C05/C47 invariants).
E4+E3  seeded random / PCT controlled executions of the REAL TaskSet / ConcurrentTaskSet on the REAL pool (pools 0..3,
    load multipliers 1 and 32, 1-2 driver threads, nested sets, throwers, cancels); every step is validated by TLC against
    the same spec (TaskSetTrace.tla: site, thread, body begin/end, values returned, counter/flag/guard after EVERY step).
    A run that never completes (deadlock / step bound) is a violation.
Resize family: TaskSet/ConcurrentTaskSet::scheduleBulk on the ring fast path while a second thread resizes the pool
    (grow, shrink, to 0); wait() must return and every task run exactly once (fails when /repo fix 1e3150b is reverted).
"""
import random

import taskset_common as tc

WHAT = 'task-set wait()/tryWait()/destructor return only after every scheduled task finished; bodies run exactly once'

FIXED = [
    # TaskSet: inline (load factor), queued, pool-inline, bulk ring path, bulk interleaved, FQ, tryWait, destructor barrier
    'mult=1;sets=ts.1.0;throws=;d1=newpool1,new1,sched1.1,sched1.2,sched1.3,bulk1.4.3,trywait1.1,wait1,del1,delpool',
    'mult=32;sets=ts.4.0;throws=;d1=newpool2,new1,bulk1.1.2,schedfq1.3,bulkfq1.4.2,sched1.6,del1,delpool',
    'mult=1;sets=ts.1.0;throws=;d1=newpool0,new1,sched1.1,schedfq1.2,bulk1.3.2,bulkfq1.5.2,trywait1.1,trywait1.5,wait1,del1,delpool',
    # ConcurrentTaskSet kLightweight / kHeavy, second producer, skipRecheck
    'mult=1;sets=ctsL.1.0;throws=;d1=newpool2,new1,sched1.1,schedskip1.2,bulk1.3.3,sync,wait1,del1,delpool;d2=await1,sched1.6,bulkfq1.7.2',
    'mult=1;sets=ctsH.1.0;throws=;d1=newpool2,new1,sched1.1,sched1.2,sched1.3,sched1.4,bulk1.5.3,trywait1.2,wait1,del1,delpool',
    'mult=32;sets=ctsH.4.0;throws=;d1=newpool3,new1,sched1.1,schedfq1.2,bulk1.3.4,bulkfq1.7.2,sync,wait1,del1,delpool;d2=await1,sched1.9,schedfq1.10',
    # nested sets and fork-join recursion
    'mult=1;sets=ctsL.1.0,ts.1.0;throws=;d1=newpool1,new1,sched1.1,sched1.2,wait1,del1,delpool;b1=new2,sched2.3,bulk2.4.2,wait2,del2',
    'mult=1;sets=ctsH.4.0;throws=;d1=newpool2,new1,schedfq1.1,trywait1.1,wait1,del1,delpool;b1=sched1.2,sched1.3;b2=sched1.4',
]
RESIZE = [
    # directed: the producer is held at its first ring push (after it validated the ring count against the old pool) while
    # the resizer shrinks the pool; the task then lands in a ring no worker owns - wait() must still find it
    'hold=TpPushRing;mult=32;sets=ts.4.0;throws=;d1=newpool2,new1,bulk1.1.2,wait1,sync,del1,delpool;d2=await1,resize1',
    'hold=TpPushRing;mult=32;sets=ctsL.4.0;throws=;d1=newpool3,new1,bulk1.1.3,wait1,bulk1.4.1,wait1,sync,del1,delpool;d2=await1,resize1,resize2',
    'hold=TpPushRing;mult=32;sets=ts.4.0;throws=;d1=newpool3,new1,bulk1.1.2,trywait1.4,wait1,sync,del1,delpool;d2=await1,resize0',
    # count ~ numThreads: TaskSetBase::scheduleBulkImpl takes the ring fast path; d2 resizes meanwhile
    'mult=32;sets=ts.4.0;throws=;d1=newpool2,new1,bulk1.1.2,bulk1.3.2,wait1,bulk1.5.2,wait1,sync,del1,delpool;d2=await1,resize1,resize3',
    'mult=32;sets=ctsL.4.0;throws=;d1=newpool3,new1,bulk1.1.3,bulk1.4.2,wait1,bulk1.6.3,wait1,sync,del1,delpool;d2=await1,resize2,resize0',
    'mult=32;sets=ts.4.0;throws=;d1=newpool2,new1,bulk1.1.2,wait1,bulk1.3.2,bulk1.5.1,wait1,sync,del1,delpool;d2=await1,resize1,resize2,resize1',
    'mult=1;sets=ctsL.4.0;throws=;d1=newpool3,new1,bulk1.1.3,sched1.4,bulk1.5.3,wait1,sync,del1,delpool;d2=await1,resize1,resize0,resize2',
    'mult=32;sets=ts.4.0;throws=;d1=newpool3,new1,bulk1.1.3,bulk1.4.3,wait1,sync,del1,delpool;d2=await1,resize2',
]


def run(ctx):
    thorough = ctx.tier == 'thorough'
    exe = tc.build(ctx)
    tc.check_models(ctx, 'MC_c02_thorough.cfg' if thorough else 'MC_c02_quick.cfg', WHAT,
                    'TaskSet 1 worker (inline/queued/pool-inline, bulk, thrower, tryWait, wait, destructor); pool without threads; recursion'
                    + ('; 2 workers ring fast path + FQ; kHeavy; nested cascade set' if thorough else ''))
    rng = random.Random(ctx.seed * 7919 + 2)
    g = tc.Gen(rng)
    n = 6 if thorough else 3
    scens = [g.single(throws=0.1, cancel=0.2, nested=0.4) for _ in range(60 if thorough else 14)]
    rz = [g.single(throws=0.0, cancel=0.1, nested=0.0, pools=(1, 2, 3), two=1.0, resize=True) for _ in range(20 if thorough else 2)]
    r = tc.run_scenarios(ctx, exe, [
        ('fixed programs', FIXED if thorough else FIXED[ctx.seed % 2::2], n),
        ('random programs', scens, n),
        ('ring fast path racing resize (directed)', RESIZE[:3], 2 if thorough else 1),
        ('ring fast path racing resize', RESIZE[3:] + rz, 10 if thorough else 2)], WHAT, ctx.seed)
    ctx.sample({'programs': scens[:4] + RESIZE[:2]})
    if r['traces']:
        ctx.sample_trace(r['traces'][0], 12, skip=60)
    ctx.assumptions += tc.ASSUME
