"""C26 - TimedTask run count, cancellation and teardown.

E1  TLC, exhaustive, on spec/timedtask/TimedTask.tla (one action per atomic access / critical section of
    TimedTaskImpl's stored function and wrapper, TimedTask::cancel/detach/calls/~TimedTask, the
    TimedTaskScheduler loop, kickOffTask, addTimedTask, destructor, the scheduler's EpochWaiter + futex;
    abstract pool; logical clock): RunCount, NoneAfterFalse, NoneAfterCancel (R2), NotEarly, FuncLifetime,
    DtorQuiescent, DetachedKeepsFunc, InProgressExact in every state of every interleaving of cancel /
    detach / destroy / tick with the scheduler thread and the pool.
    Negative controls: the protocol as shipped ("orig") and the repair anticipated in DESIGN section 4
    ("incfirst") must violate DtorQuiescent / FuncLifetime.
E2  every transition of the cover configuration's state graph (ImmediateInvoker: every step of the real
    execution is a step of the spec) is replayed in the real TimedTaskScheduler under the controlled
    scheduler with the modelled futex and the logical clock ...
E3  ... and every recorded step (action, thread, task, notes, projected state) is validated by TLC.
E4  seeded random / PCT controlled schedules of scenarios on the REAL ThreadPool (0..2 workers) and
    ImmediateInvoker: periodic steady / non-steady tasks, functions returning false, cancel, detach,
    destruction at any point, 1-2 tasks, 1-3 driver threads; validated by TLC the same way.
E5  free-running real-time records (real clock, real scheduler thread) validated by TLC as records
    (RecOK of spec/timedtask/TimedRecProps.tla, R5; appended to the trace file so that one TLC run judges
    both; spec/timedtask/TimedRec.tla is the stand-alone validator for a record file).
"""
import os
import random

import pool_common
import vlib
from vlib import ToolError

SPEC = 'spec/timedtask'
WHAT = 'TimedTask run count / cancellation / teardown'

# every action of the spec; per configuration only some are reachable, the union over the
# configurations of a tier must be complete (checked below)
VARIANT_ONLY = {'TtFnDecInProgress'}          # "incfirst" negative control only


class Scen:
    """one scenario: the text read by the driver (which writes it, as TLA+ values, into the Reset line)"""

    def __init__(self, w, tasks, prog):
        self.w, self.tasks, self.prog = w, tasks, prog

    def text(self):
        parts = ['w=%d' % self.w]
        for k, (at, per, times, steady, imm, fa) in enumerate(self.tasks, 1):
            parts.append('t%d=%d.%d.%d.%s.%s.%d' % (k, at, per, times, 's' if steady else 'n', 'i' if imm else 'p', fa))
        for name, ops in self.prog:
            parts.append('%s:%s' % (name, ','.join(ops)))
        return ';'.join(parts)


def random_scenario(rng):
    """contract-respecting program: per task [sched, (cancel|detach|calls)*, del] on ONE thread; the
    scheduler is stopped after every handle is gone, the pool is destroyed last (R1)."""
    w = rng.choice([-1, 0, 1, 1, 2, 2])
    ntasks = rng.choice([1, 1, 2])
    tasks = []
    for _ in range(ntasks):
        times = rng.choice([1, 2, 3, 3])
        per = rng.choice([0, 1, 1, 2])
        imm = w < 0 or rng.random() < 0.3
        fa = rng.choice([0, 0, rng.randint(1, times)])
        tasks.append((rng.choice([0, 1, 1, 2]), per, times, rng.random() < 0.5, imm, fa))

    def life(k):
        ops = ['sched%d' % k]
        for _ in range(rng.randint(0, 3)):
            ops.append(rng.choice(['tick', 'tick', 'calls%d' % k, 'cancel%d' % k, 'detach%d' % k]))
        ops.append('del%d' % k)
        for _ in range(rng.randint(0, 2)):
            ops.append('tick')
        return ops
    main = ['new'] + life(1)
    prog = []
    others = []
    if ntasks == 2 and rng.random() < 0.6:
        others.append(('p2', ['up'] + life(2)))
    elif ntasks == 2:
        a, b = life(1), life(2)
        # interleave the two lives on the main thread, keeping each task's order
        main = ['new']
        while a or b:
            src = a if (a and (not b or rng.random() < 0.5)) else b
            main.append(src.pop(0))
    if rng.random() < 0.6:
        others.append(('clk', ['tick'] * rng.randint(1, 4)))
    if others:
        main.append('sync')
    main.append('stop')
    if w >= 0:
        main.append('delpool')
    prog = [('main', main)] + others
    return Scen(w, tasks, prog)


FIXED_SCENS = [
    # the window of the defect: destruction races the kick-off (ImmediateInvoker and pool)
    Scen(-1, [(1, 0, 1, False, True, 0)], [('main', ['new', 'sched1', 'tick', 'del1', 'stop'])]),
    Scen(1, [(1, 1, 3, True, False, 2)], [('main', ['new', 'sched1', 'tick', 'tick', 'calls1', 'tick', 'del1', 'stop', 'delpool'])]),
    # function returns false while the next kick-off (period 0) is under way, 1 and 2 workers
    Scen(1, [(0, 0, 3, False, False, 1)], [('main', ['new', 'sched1', 'tick', 'del1', 'stop', 'delpool'])]),
    Scen(2, [(0, 0, 3, False, False, 2)], [('main', ['new', 'sched1', 'calls1', 'del1', 'stop', 'delpool'])]),
    # detached task outlives its handle; cancel; pool without threads; two tasks, three drivers
    Scen(1, [(1, 1, 2, False, False, 0)], [('main', ['new', 'sched1', 'detach1', 'del1', 'tick', 'tick', 'tick', 'stop', 'delpool'])]),
    Scen(-1, [(0, 1, 2, True, True, 0)], [('main', ['new', 'sched1', 'tick', 'cancel1', 'tick', 'del1', 'stop'])]),
    Scen(0, [(1, 1, 2, False, False, 0)], [('main', ['new', 'sched1', 'tick', 'tick', 'del1', 'stop', 'delpool'])]),
    Scen(2, [(1, 1, 2, True, False, 0), (0, 2, 2, False, True, 2)],
         [('main', ['new', 'sched1', 'cancel1', 'del1', 'sync', 'stop', 'delpool']), ('p2', ['up', 'sched2', 'del2']),
          ('clk', ['tick', 'tick'])]),
]


def expect_violation(ctx, cfg, wants, label):
    """negative control: the configuration must violate one of `wants`"""
    res = ctx.tlc(SPEC, 'MCTimedTask.tla', cfg, workers=4, count=False, extra=['-noGenerateSpecTE'], label=label)
    if res.violation not in wants:
        raise ToolError('vacuous property: %s does not violate %s (got %s)' % (cfg, wants, res.violation))
    return res


def model(ctx, cfg, label, taken, dump=None, timeout=900):
    res = ctx.check_model(SPEC, 'MCTimedTask.tla', cfg, WHAT, label=label, workers=4, dump=dump, timeout=timeout,
                          vacuity_exempt=ALL_ACTIONS, extra=['-noGenerateSpecTE'])
    for a, (d, g) in res.actions.items():
        if g > 0:
            taken.add(a)
    return res


# the driver interposes on these hooks (task id / own-waiter notes; arrival of the thread that joins the scheduler)
WRAPS = ['-Wl,--wrap=dispenso_verif_point', '-Wl,--wrap=dispenso_verif_thread_end',
         '-Wl,--wrap=dispenso_verif_blocking_begin', '-Wl,--wrap=dispenso_verif_blocking_end']

ALL_ACTIONS = ('Start', 'DrOp', 'DrSync', 'DrUp', 'DrBody', 'TtAddReadClock', 'TtAddPush', 'EwBump', 'FutexWake',
               'TtCancelStoreTimes', 'TtCancelSetFlag', 'TtDetachSetFlag', 'TtCallsLoad', 'TtDtorLoadFlags',
               'TtDtorLoadInProgress', 'TtDtorClearFunc', 'TtStop', 'TtJoined', 'EwLoadEpochC', 'TtLoopTop',
               'TtReadClock', 'TtPeek', 'EwLoadEpochA', 'EwLoadEpochB', 'FutexWait', 'FutexTimeout', 'FutexRet',
               'TtKickGuard', 'TtKickLoadFlags', 'TtKickFetchSub', 'TtKickCall', 'TtFnLoadFlags', 'TtFnIncInProgress',
               'TtFnDecInProgress', 'FnEnqueue', 'FnReturn', 'TtKickRearm', 'TtKickUnguard', 'TtWrLoadFlags',
               'TtWrStoreTimes', 'TtWrSetCancelled', 'TtWrLoadInProgress', 'TtWrClearFunc', 'TtWrIncCount',
               'TtWrDecInProgress', 'PoolDrained')


def is_incomplete(tot):
    return bool(tot) and tot.get('executions', 0) != tot.get('completed', 0)


def controlled(ctx, exe, args, tr, label):
    """run the driver on controlled executions; an execution that does not finish (deadlock, step bound, crash
    of the code under test) is a violation -- reported only if a re-run with the same arguments repeats it
    (HOWTO_POOL 4); what happened before the end is judged by TLC (the trace ends with the event)"""
    tot = {}
    for attempt in (0, 1):
        tot, _ = ctx.driver(exe, ['--out', tr] + args, WHAT, label=label, allow_incomplete=True)
        if not is_incomplete(tot):
            return tot
    path = ctx.save_replay('%s-incomplete.txt' % ctx.prop, '%s: driver totals %s\n\n%s' %
                           (label, tot, ctx._trace_context(tr, sum(1 for _ in open(tr)))))
    ctx.violation('driver:incomplete:' + label, WHAT + ': a controlled execution did not run to completion (%s)' % label, path)
    return tot


def cat(files, out):
    with open(out, 'w') as g:
        for f in files:
            with open(f) as h:
                g.write(h.read())
    return out


def run(ctx):
    thorough = ctx.tier == 'thorough'
    exe = ctx.build('drv_timedtask', ['harness/drv/drv_timedtask.cpp', 'harness/ctl/ctl.cpp'],
                    dispenso=vlib.DISPENSO_SRCS, flags=pool_common.TUNE + ['-DDISPENSO_TUNE_WAKE_GROUP_SIZE=2'],
                    libs=WRAPS)

    # E1 ---------------------------------------------------------------------------------------
    taken = set()
    dot = os.path.join(ctx.work, 'cover.dot')
    if thorough:
        cover_cfg, cover_scen = 'MC_cover.cfg', 'w=-1;t1=1.1.2.n.i.0;main:new,sched1,tick,tick,calls1,del1,stop'
        model(ctx, cover_cfg, 'cover: 1 periodic task x2, ImmediateInvoker, calls + destroy at every point', taken, dump=dot)
        model(ctx, 'MC_cover_q.cfg', '1 one-shot task, ImmediateInvoker, destroy at every point', taken)
    else:
        cover_cfg, cover_scen = 'MC_cover_q.cfg', 'w=-1;t1=1.0.1.n.i.0;main:new,sched1,tick,del1,stop'
        model(ctx, cover_cfg, 'cover: 1 one-shot task, ImmediateInvoker, destroy at every point', taken, dump=dot)
    if thorough:
        model(ctx, 'MC_false1w.cfg', 'pool(1): period 0, x3, function returns false on call 1, destroy at every point', taken)
        model(ctx, 'MC_cancel_q.cfg', 'ImmediateInvoker: steady x2 due at once (kick-off in schedule()), cancel + destroy', taken)
        model(ctx, 'MC_detach_q.cfg', 'ImmediateInvoker: detach, handle destroyed, runs continue, scheduler stopped', taken)
        model(ctx, 'MC_false2w.cfg', 'pool(2): period 0, x3, false on call 1 (concurrent wrappers)', taken, timeout=1500)
        model(ctx, 'MC_poolcancel.cfg', 'pool(1): steady x3, false on call 2, cancel, calls, destroy', taken)
        model(ctx, 'MC_pooldetach.cfg', 'pool(1): detach, handle destroyed, runs continue', taken)
        model(ctx, 'MC_two.cfg', 'two tasks (pool + ImmediateInvoker) on two driver threads', taken, timeout=1800)
    else:
        # three configurations as three initial states of one TLC run (one JVM start)
        model(ctx, 'MC_quick.cfg', 'pool(1): period 0, x3, false on call 1, destroy at every point | ImmediateInvoker: steady x2 '
              'due at once, cancel + destroy | ImmediateInvoker: detach, handle destroyed, runs continue', taken)
    missing = [a for a in ALL_ACTIONS if a not in taken and a not in VARIANT_ONLY]
    if thorough and missing:
        raise ToolError('vacuous model runs: actions never taken in any configuration: %s' % missing)
    ctx.cov['model_actions_taken'] = sorted(taken)
    # negative controls: the shipped protocol and the anticipated (insufficient) repair
    expect_violation(ctx, 'MC_bug_orig.cfg', ('Invariant DtorQuiescent', 'Invariant FuncLifetime'),
                     'negative control: shipped protocol, destructor vs kick-off')
    if thorough:
        expect_violation(ctx, 'MC_bug_incfirst.cfg', ('Invariant DtorQuiescent', 'Invariant FuncLifetime'),
                         'negative control: inProgress incremented before the check inside func only')
        expect_violation(ctx, 'MC_bug_false.cfg', ('Invariant FuncLifetime',),
                         'negative control: shipped protocol, wrapper clears func under the next kick-off')

    # E2 ---------------------------------------------------------------------------------------
    sched = os.path.join(ctx.work, 'cover.sched')
    info = ctx.walker(dot, sched)
    ctx.cov['cover_graph'] = info
    if info.get('covered_edges') != info.get('reachable_edges'):
        raise ToolError('walker did not cover the whole graph: %s' % info)
    traces = []
    execs = 0
    tr = os.path.join(ctx.work, 'cover.ndjson')
    tot = controlled(ctx, exe, ['--scen', cover_scen, '--schedules', sched], tr, 'cover replay')
    if tot.get('deadlocks', 0):      # (divergence / stuck steps are reported by ctx.driver itself)
        path = ctx.save_replay('%s-cover-replay.txt' % ctx.prop, 'driver totals %s\n\n%s' % (tot, ctx._trace_context(tr, sum(1 for _ in open(tr)))))
        ctx.violation('driver:cover-replay:deadlock', WHAT + ': a replayed behaviour of the specification deadlocks in the implementation', path)
    traces.append(tr)
    execs += tot.get('completed', 0)
    ctx.sample_trace(tr, 14, skip=8)

    # E4 ---------------------------------------------------------------------------------------
    rng = random.Random(ctx.seed)
    scens = list(FIXED_SCENS) + [random_scenario(rng) for _ in range(40 if thorough else 10)]
    ctx.sample({'scenarios': [s.text() for s in scens[:4] + scens[-3:]]})
    sf = os.path.join(ctx.work, 'scens.txt')
    with open(sf, 'w') as f:
        for s in scens:
            f.write(s.text() + '\n')
    n = 6 if thorough else 3
    for pct in (0, 3):
        tr = os.path.join(ctx.work, 'rand_p%d.ndjson' % pct)
        tot = controlled(ctx, exe, ['--scenfile', sf, '--random', n, '--seed', ctx.seed * 7 + pct, '--pct', pct], tr,
                         'random scenarios pct%d' % pct)
        traces.append(tr)
        execs += tot.get('completed', 0)

    # E5 ---------------------------------------------------------------------------------------
    rec = os.path.join(ctx.work, 'records.ndjson')
    tot, _ = ctx.driver(exe, ['--free', 60 if thorough else 14, '--seed', ctx.seed, '--out', rec], WHAT,
                        label='free-running real-time records', timeout=300 if thorough else 120)
    if not os.path.exists(rec):      # the driver hung / crashed before writing anything (reported above)
        open(rec, 'w').close()
    nrec = sum(1 for _ in open(rec))
    ctx.cov['timed_records_validated'] = nrec
    ctx.sample({'record': open(rec).readline().strip()})

    # E3 (+ the records of E5, judged line by line by RecOK) ------------------------------------------
    if thorough:
        # one TLC run per trace file (the deserialised trace must fit the heap)
        for i, tr in enumerate(traces):
            part = cat([tr] + ([rec] if i == 0 else []), os.path.join(ctx.work, 'part%d.ndjson' % i))
            ctx.validate(SPEC, 'TimedTaskTrace.tla', 'TimedTaskTrace.cfg', part, WHAT, executions=0,
                         label=os.path.basename(tr) + (' + real-time records' if i == 0 else ''), timeout=2400, heap='16g')
        if not ctx.violations:
            ctx.cov['traces_validated_against_impl'] += execs
    else:
        allt = cat(traces + [rec], os.path.join(ctx.work, 'all.ndjson'))
        ctx.validate(SPEC, 'TimedTaskTrace.tla', 'TimedTaskTrace.cfg', allt, WHAT, executions=execs,
                     label='cover replay + random/PCT scenarios + real-time records', timeout=1500)
    ctx.sample_trace(traces[-1], 10, skip=30)

    ctx.assumptions += [
        'TLA+ interleaving semantics are sequentially consistent (the seq_cst orders the repair relies on are argued in '
        'the fix commit, not checked; weak memory is C10)',
        'the pool is abstract in the model (a bag of wrappers); in the controlled runs the REAL ThreadPool runs, its '
        'internal steps are stuttering steps of this spec (pool properties: C01..C09)',
        'logical clock in ticks of 1 ms, advanced only by the driver (`tick`); a timed wait of the scheduler thread may '
        'expire at any time (early expiry = spurious return, R4); the yield/spin branches of the scheduler loop '
        '(< 500 us to go) are not exercised in controlled runs, only in the free-running records',
        'programs respect the contract: one thread uses a TimedTask handle; schedulable outlives the tasks; '
        'scheduler destroyed after the handles, pool last (R1)',
        'free-running records: only upper bounds on counts and the lower bound of the first run, measured outside the '
        'library with steady_clock (R5); NewThreadInvoker is not covered (TimedTask does not compile with it)',
        'std::mutex-protected sections of the scheduler (queue push/pop/top, running_) are atomic steps',
        'TLC, the JSON/IOUtils community modules, g++ and the controlled scheduler (harness/ctl) are trusted',
    ]
