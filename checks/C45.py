"""C45 - threadId() is stable per thread and unique across threads.

E1  TLC, exhaustive, on spec/pure/ThreadId.tla (shared counter fetch_add + thread-local cache):
    Stable, Unique, Dense, Complete in every state of every interleaving of the first calls of up
    to 4 threads with repeated calls.
E2  every transition of the cover configuration's state graph is replayed in the real threadId()
    under the controlled scheduler (schedule point immediately before the fetch_add) ...
E3  ... and each recorded step (action, thread, every value returned to the caller, the counter) is
    validated by TLC against the spec (ThreadIdTrace.tla) with all invariants on.
E4  random controlled schedules of random programs (2..6 threads, 0..3 calls each).
E5  observation records from 1..64 truly concurrent real threads released by a barrier, repeated
    calls during the whole life of each thread, several sweeps in one process; TLC validates every
    record with the operators of the spec (StableSeq on what the thread saw, the identifier is not
    one any other thread of the process - alive or already exited - ever saw).
TU  In E2-E5 the calls of every thread alternate between two translation units of the driver
    (drv_threadid.cpp, drv_threadid_tu2.cpp; which one makes the first call varies per thread): the
    specification has ONE cache per thread, so a second fetch_add by the same thread (E2/E3) or two
    different values in one thread's record (E5) is rejected.  E5 also drives the header-only user
    of threadId(), DistributedRWLock's sub-lock choice, with lock_shared() and unlock_shared()
    compiled in different units (same sub-lock from both units, the lock is free afterwards).
"""
import os
import shutil

SPEC = 'spec/pure'
WHAT = 'threadId stable per thread and unique across threads'



def usable(trace):
    """A driver that crashed may leave a truncated last line: drop it (the crash itself has been
    reported); returns False when nothing is left to validate."""
    try:
        data = open(trace, 'rb').read()
    except OSError:
        return False
    if data and not data.endswith(b'}\n'):
        data = data[:data.rfind(b'\n') + 1]
        open(trace, 'wb').write(data)
    return data.count(b'\n') >= 2


def run(ctx):
    thorough = ctx.tier == 'thorough'
    # TWO harness translation units call threadId(): the identifier belongs to the thread, not to the
    # (thread, calling .cpp file) pair, and whatever thread_id.h puts into its includers (inline fast
    # path, statics) exists once per unit.  Every thread of every engine below alternates its calls
    # between drv_threadid.cpp and drv_threadid_tu2.cpp; all values of a thread must be equal.
    exe = ctx.build('drv_threadid', ['harness/drv/drv_threadid.cpp', 'harness/drv/drv_threadid_tu2.cpp',
                                     'harness/ctl/ctl.cpp'], dispenso=['thread_id.cpp'])

    # E1 -------------------------------------------------------------------------------------
    dot = os.path.join(ctx.work, 'cover.dot')
    ctx.check_model(SPEC, 'MCThreadId.tla', 'MC_tid_cover.cfg', WHAT, label='cover: 3 threads, 2/1/0 calls',
                    dump=dot, workers=2)
    ctx.check_model(SPEC, 'MCThreadId.tla', 'MC_tid_4.cfg', WHAT, label='4 threads, 3/1/2/3 calls', workers=2)

    # E2 + E4 (drivers) then E3 (one TLC validation of the concatenated traces) -------------------
    sched = os.path.join(ctx.work, 'cover.sched')
    ctx.cov['cover_graph'] = ctx.walker(dot, sched)
    parts, execs = [], 0
    tr = os.path.join(ctx.work, 'cover.ndjson')
    tot, _ = ctx.driver(exe, ['--out', tr, '--prog', 'a:2;b:1;c:0', '--schedules', sched], WHAT,
                        label='cover replay')
    parts.append(tr)
    execs += tot.get('completed', 0)
    ctx.sample_trace(tr, 8)
    n = 4000 if thorough else 250
    for pct in (0, 2):
        tr = os.path.join(ctx.work, 'rand_p%d.ndjson' % pct)
        tot, _ = ctx.driver(exe, ['--out', tr, '--random', n, '--seed', ctx.seed + pct, '--randprog',
                                  '--pct', pct], WHAT, label='random pct%d' % pct)
        parts.append(tr)
        execs += tot.get('completed', 0)
    tr = os.path.join(ctx.work, 'controlled_all.ndjson')
    with open(tr, 'wb') as o:
        for p in parts:
            if usable(p):
                with open(p, 'rb') as f:
                    shutil.copyfileobj(f, o)
    if usable(tr):
        ctx.validate(SPEC, 'ThreadIdTrace.tla', 'ThreadIdTrace.cfg', tr, WHAT, executions=execs,
                     label='cover replay + random controlled')

    # E5 --------------------------------------------------------------------------------------
    # quick: 3 sweeps over a ladder of round sizes up to 64; thorough: 12 sweeps over every n in 1..64
    sweeps = 12 if thorough else 3
    args = ['--obs', '--out', os.path.join(ctx.work, 'obs.ndjson'), '--sweeps', sweeps, '--maxthreads', 64,
            '--seed', ctx.seed]
    if not thorough:
        args += ['--sizes', '1,2,3,4,5,6,8,12,16,24,32,48,64']
    tr = os.path.join(ctx.work, 'obs.ndjson')
    tot, _ = ctx.driver(exe, args, WHAT, label='E5 1..64 concurrent threads x %d sweeps' % sweeps)
    if usable(tr):
        ctx.validate(SPEC, 'ThreadIdObs.tla', 'ThreadIdObs.cfg', tr,
                     WHAT + ' (one thread = one id from every translation unit and in DistributedRWLock\'s '
                     'sub-lock choice)', executions=tot.get('completed', 0), label='E5 observation records')
    ctx.cov['observation_records'] = tot.get('steps', 0)
    ctx.sample_trace(tr, 6, skip=1)
    ctx.assumptions += [
        'TLA+ interleaving semantics: the fetch_add is one indivisible step (it is a single atomic RMW in the code)',
        'a thread-local variable is private to its thread (compiler/TLS implementation trusted)',
        'the 64-bit counter does not wrap (2^64 thread creations)',
        'E5 free-running records only witness the interleavings the OS happened to produce',
        'TLC, the JSON/IOUtils community modules and g++ are trusted',
    ]
