"""Shared machinery of the task-set checks (C02 C04 C05, task-set half of C47).

Scenario text (see harness/drv/drv_taskset.cpp):
  mult=1;sets=ts.1.0,ctsL.4.0;throws=2;d1=newpool2,new1,sched1.1,...,delpool;d2=await1,cancel1;b3=new2,...
The generators only produce programs inside the documented contract (DESIGN R1): one thread per TaskSet,
no wait()/tryWait()/destructor of a set concurrent with another thread scheduling into it, a set outlives
every call on it, one resizer, the pool is destroyed last, a set that may hold a captured exception is
wait()ed before it is destroyed (a throwing destructor terminates the process).
"""
import os
import re

import vlib
import pool_common

SPEC = 'spec/taskset'
MC_INV = 'task-set specification invariants'
ASSUME = [
    'the pool is abstract in the model (tiers central/ring/steal, inline decisions as functions of workRemaining_/numThreads_/'
    'poolLoadFactor_); in trace validation the pool words the task-set code reads are inputs taken from the projection after every step',
    'workRemaining_ is decremented when a queued task finishes in the model (the real pool batches worker decrements); '
    'resize() is not modelled at E1 for the task-set spec (spec/pool does that), it is exercised on the real code only',
    'two atomic loads inside ONE if-condition (ring fast path guard, `outstanding > limit && !canceled()`) are one step: add-only '
    'hooks cannot split a condition',
    'inline depth stays far below kMaxInlineDepth (canInlineSchedule() = true; depth limits are C46)',
    'sequentially consistent interleavings (weak memory: C10); Linux futex back-end; small spin constants compiled in (pool_common.TUNE)',
    'programs respect the documented contract (R1): single-threaded TaskSet, no wait concurrent with external scheduling, one waiter per set',
]


def build(ctx):
    return ctx.build('drv_taskset', ['harness/drv/drv_taskset.cpp', 'harness/ctl/ctl.cpp'], dispenso=vlib.DISPENSO_SRCS,
                     flags=pool_common.TUNE + ['-DDISPENSO_TUNE_WAKE_GROUP_SIZE=2'])


def cleanup_spec_dir():
    d = os.path.join(vlib.ROOT, SPEC)
    for f in os.listdir(d):
        if f.startswith(('MCTaskSet_TTrace_', 'TaskSetTrace_TTrace_')):
            try:
                os.remove(os.path.join(d, f))
            except OSError:
                pass


def check_models(ctx, cfg, what, label, workers=4, min_states=500):
    """E1: ONE TLC run over a set of configurations (MCInit has one initial state per configuration; see the Set_* definitions in
    MCTaskSet.tla).  thorough: ctx.check_model (TLC -coverage: fails on a vacuous run).  quick: the same model checking without
    the coverage instrumentation (it multiplies the run time of this functional-style spec by 5); a violated invariant is
    reported exactly as check_model does."""
    if os.environ.get('VERIF_TS_SKIP_E1'):     # mutation campaigns on the C++ code: the model runs do not depend on the code
        return
    if ctx.tier == 'thorough':
        ctx.check_model(SPEC, 'MCTaskSet.tla', cfg, what, label=label, workers=workers, vacuity_exempt=VAC,
                        extra=['-noGenerateSpecTE'], timeout=3000)
        return
    res = ctx.tlc(SPEC, 'MCTaskSet.tla', cfg, workers=workers, label=label, extra=['-noGenerateSpecTE'], timeout=1500)
    if res.violation:
        path = ctx.save_replay('%s-MCTaskSet-%s.txt' % (ctx.prop, cfg.replace('.cfg', '')),
                               'TLC %s on MCTaskSet.tla/%s\n\n%s' % (res.violation, cfg, res.counterexample()))
        ctx.violation('model:MCTaskSet.tla:%s:%s' % (cfg, res.violation), what + ': ' + res.violation, path)
    elif res.distinct < min_states:
        raise vlib.ToolError('vacuous model run MCTaskSet.tla/%s: %d states' % (cfg, res.distinct))


def expect_model_violation(ctx, cfg, invariant, what, label):
    """a configuration of the UNREPAIRED code shape must violate `invariant` (the spec-level counterexample)"""
    if os.environ.get('VERIF_TS_SKIP_E1'):
        return None
    res = ctx.tlc(SPEC, 'MCTaskSet.tla', cfg, workers=4, label=label, extra=['-noGenerateSpecTE'], count=False)
    if res.violation != 'Invariant ' + invariant:
        raise vlib.ToolError('%s: expected the unrepaired model %s to violate %s, got %s' % (what, cfg, invariant, res.violation))
    return res


def drop_spurious_deadlock(trace):
    """harness/ctl race: the controller can declare Deadlock although a thread that just left a real blocking region
    (thread::join in resize / ~ThreadPool) is runnable - the Deadlock line then lists a thread in state 2 (ST_POINT) at a
    non-gate site.  Such an aborted execution says nothing about the code: it is cut out of the trace (from its Reset)."""
    import json
    lines = open(trace).read().split('\n')
    while lines and not lines[-1]:
        lines.pop()
    if not lines or '"e":"Deadlock"' not in lines[-1]:
        return False
    ev = json.loads(lines[-1])
    if not any(st == 2 and not site.startswith('Gate') for _, st, site in ev.get('threads', [])):
        return False
    i = len(lines) - 1
    while i > 0 and '"e":"Reset"' not in lines[i]:
        i -= 1
    lines = lines[:i]
    with open(trace, 'w') as f:
        f.write('\n'.join(lines) + ('\n' if lines else ''))
    return True


def truncate_last_execution(trace, keep):
    """a stalled execution (step bound) is reported as such; only its first `keep` events are validated"""
    lines = open(trace).read().split('\n')
    while lines and not lines[-1]:
        lines.pop()
    i = len(lines) - 1
    while i > 0 and '"e":"Reset"' not in lines[i]:
        i -= 1
    if len(lines) - i > keep:
        with open(trace, 'w') as f:
            f.write('\n'.join(lines[:i + keep]) + '\n')


# every action that not every configuration exercises
VAC = ('A_GateSync', 'A_GateAwait', 'A_TsExcCas', 'A_TsExcStoreSet', 'A_TsExcStoreCancel', 'A_TsTarStoreUnset',
       'A_TsTryLoadOutTok', 'A_TsTryLoadOut', 'A_TsTryLoadFinal', 'A_TsCancelStore', 'A_TsKidsLock', 'A_TsCtorLoadPCancel',
       'A_TsCtorStoreCancel', 'A_TsSchedLoadCancel', 'A_TsSchedLoadOut', 'A_TsCtsLoadOut', 'A_TsPlLoadThreads', 'A_TsPlLoadOut',
       'A_TsCtsLoadWork', 'A_TsCtsLoadThreads', 'A_TsCtsLoadLf', 'A_TsCtsLoadCancel2', 'A_TsBulkLoadThreads', 'A_TsBulkLoadRings',
       'A_TsBulkLoadCancel', 'A_TsBulkLoadOut', 'A_TsBulkLoadWork', 'A_TsBulkLoadLf', 'A_TsBulkIncN', 'A_TpInlineCheck',
       'A_TpFqLoadThreads', 'A_PoHandOver', 'A_DrBodyEnd', 'A_TsWaitLoadOut2', 'A_PoRet', 'A_TsPkgLoadCancel', 'A_TsPkgDec',
       'A_TsPkgInc', 'Fire', 'Commit', 'MCInit')


def run_scenarios(ctx, exe, families, what, seed, unfixed=False, pct=-1, maxsteps=15000, report=True, cfg='TaskSetTrace.cfg'):
    """families: [(label, [scenario, ...], executions per scenario)].  ALL of them go into one driver run and one TLC trace
    validation (a JVM start costs seconds).  Executions that do not terminate (deadlock / step bound) and rejected traces are
    re-run once and reported only if they repeat.  Returns dict(traces, executions, completed, problems, per_family)."""
    out = {'traces': [], 'executions': 0, 'completed': 0, 'problems': [], 'per_family': {}}
    scens, fam_of = [], []
    for label, fs, n in families:
        for sc in fs:
            scens.append('n=%d;%s' % (n, sc))
            fam_of.append(label)
        out['per_family'][label] = len(fs) * n
    label = '+'.join(f[0] for f in families)
    sf = os.path.join(ctx.work, 'scenarios.txt')
    with open(sf, 'w') as f:
        f.write('\n'.join(scens) + '\n')
    for attempt in (0, 1):
        final = attempt == 1
        problems = []
        first = 0
        part = 0
        traces = []
        execs = comp = 0
        while first < len(scens):
            tr = os.path.join(ctx.work, 'trace_%d_%d.ndjson' % (attempt, part))
            part += 1
            args = ['--out', tr, '--scenfile', sf, '--first', first, '--random', 1, '--seed', seed, '--maxsteps', maxsteps]
            if pct >= 0:
                args += ['--pct', pct]
            if unfixed:
                args.append('--unfixed')
            tot, outp = ctx.driver(exe, args, what, label=label, allow_incomplete=True, report=final and report, timeout=900)
            if not tot:
                problems.append(('driver', 'driver failed'))
                break
            execs += tot.get('executions', 0)
            comp += tot.get('completed', 0)
            m = re.search(r'^NEXT (\d+)$', outp, re.M)
            nxt = int(m.group(1)) if m else len(scens)
            for inc in re.finditer(r'^INCOMPLETE scen=(\d+) seed=(\d+) deadlock=(\d) steps=(\d+)', outp, re.M):
                si = int(inc.group(1))
                if inc.group(3) == '1' and drop_spurious_deadlock(tr):
                    ctx.cov['harness_spurious_deadlocks_discarded'] = ctx.cov.get('harness_spurious_deadlocks_discarded', 0) + 1
                    continue
                kind = 'deadlock' if inc.group(3) == '1' else 'stalled'
                problems.append((kind, 'scenario %s (seed %s): execution never completes (%s after %s steps)' %
                                 (scens[si], inc.group(2), kind, inc.group(4))))
                if kind == 'stalled':
                    truncate_last_execution(tr, 2500)
                if final and report:
                    nl = sum(1 for _ in open(tr))
                    path = ctx.save_replay('%s-%s.txt' % (ctx.prop, kind),
                                           'scenario %s\nseed %s\nthe controlled execution did not terminate: %s after %s steps\n\n%s' %
                                           (scens[si], inc.group(2), kind, inc.group(4), ctx._trace_context(tr, nl)))
                    ctx.violation('%s:%s' % (kind, scens[si]), '%s: execution never completes (%s) [%s]' % (what, kind, fam_of[si]), path)
            if os.path.getsize(tr) == 0:
                first = nxt
                continue
            res = ctx.validate(SPEC, 'TaskSetTrace.tla', cfg, tr, what, executions=tot.get('completed', 0), label=label,
                               report=final and report, timeout=1500)
            if res.violation:
                problems.append(('trace', '%s at line %s of %s' % (res.violation, res.rejected_line or res.depth, tr)))
            traces.append(tr)
            first = nxt
        out.update(traces=traces, executions=execs, completed=comp, problems=problems)
        cleanup_spec_dir()
        if not problems:
            break
    ctx.cov.setdefault('executions', {}).update(out['per_family'])
    return out


# ------------------------------------------------------------------------------------------ generators
KINDS = ['ts', 'ctsL', 'ctsH']


class Gen:
    """random program generator inside the documented contract"""

    def __init__(self, rng):
        self.rng = rng

    def sched_ops(self, s, kind, nid, cnt, fq_bias=0.3, allow_skip=True):
        rng = self.rng
        ops = []
        for _ in range(cnt):
            r = rng.random()
            if r < 0.35:
                ops.append('sched%d.%d' % (s, nid[0]))
                nid[0] += 1
            elif r < 0.35 + fq_bias * 0.6:
                ops.append('schedfq%d.%d' % (s, nid[0]))
                nid[0] += 1
            elif r < 0.6 and kind != 'ts' and allow_skip:
                ops.append('schedskip%d.%d' % (s, nid[0]))
                nid[0] += 1
            elif r < 0.85:
                c = rng.randint(1, 3)
                ops.append('bulk%d.%d.%d' % (s, nid[0], c))
                nid[0] += c
            else:
                c = rng.randint(1, 2)
                ops.append('bulkfq%d.%d.%d' % (s, nid[0], c))
                nid[0] += c
        return ops

    def single(self, throws=0.0, cancel=0.0, nested=0.0, pools=(0, 1, 2, 3), two=0.5, resize=False, max_tasks=6):
        rng = self.rng
        nt = rng.choice(pools)
        mult = rng.choice([1, 1, 32])
        kind = rng.choice(KINDS)
        smult = rng.choice([1, 1, 4])
        sets = ['%s.%d.0' % (kind, smult)]
        nid = [1]
        d1 = ['newpool%d' % nt, 'new1']
        bodies = {}
        d1 += self.sched_ops(1, kind, nid, rng.randint(1, 3))
        d2 = None
        if rng.random() < two:
            d2 = ['await1']
            if kind != 'ts' and rng.random() < 0.5 and not resize:
                d2 += self.sched_ops(1, kind, nid, rng.randint(1, 2))
            if rng.random() < cancel:
                d2.insert(rng.randint(1, len(d2)), 'cancel1')
            if resize:
                for _ in range(rng.randint(1, 2)):
                    d2.append('resize%d' % rng.choice([0, 1, 2, 3]))
        elif rng.random() < cancel:
            d1.insert(rng.randint(2, len(d1)), 'cancel1')
        d2_scheds = d2 is not None and any(o.startswith(('sched', 'bulk')) for o in d2)
        # nested set inside a task
        if rng.random() < nested and nid[0] > 1:
            host = rng.randint(1, nid[0] - 1)
            k2 = rng.choice(['ts', 'ctsL', 'ctsH'])
            casc = rng.choice([0, 1])
            sets.append('%s.%d.%d' % (k2, rng.choice([1, 4]), casc))
            b = ['new2'] + self.sched_ops(2, k2, nid, rng.randint(1, 2), allow_skip=False)
            if rng.random() < 0.3:
                b.append('trywait2.%d' % rng.randint(0, 2))
            b += ['wait2', 'del2']
            bodies[host] = b
        elif rng.random() < nested and kind != 'ts' and nid[0] > 1:
            host = rng.randint(1, nid[0] - 1)     # fork-join recursion into the same ConcurrentTaskSet
            bodies[host] = self.sched_ops(1, kind, nid, rng.randint(1, 2), allow_skip=False)
        ntasks = nid[0] - 1
        thr = sorted(k for k in range(1, ntasks + 1) if rng.random() < throws)
        if d2_scheds:
            d1.append('sync')
        if rng.random() < 0.5:
            d1.append('trywait1.%d' % rng.randint(0, 3))
        d1.append('wait1')
        if rng.random() < 0.3:
            d1.append(rng.choice(['wait1', 'trywait1.1']))
        if rng.random() < 0.3 and not d2_scheds:
            d1 += self.sched_ops(1, kind, nid, 1)
            ntasks = nid[0] - 1
            d1.append('wait1')
        if d2 is not None and 'sync' not in d1:
            d1.append('sync')
        d1 += ['del1', 'delpool']
        sc = 'mult=%d;sets=%s;throws=%s;d1=%s' % (mult, ','.join(sets), ','.join(map(str, thr)), ','.join(d1))
        if d2 is not None:
            sc += ';d2=' + ','.join(d2)
        for k, b in sorted(bodies.items()):
            sc += ';b%d=%s' % (k, ','.join(b))
        return sc
