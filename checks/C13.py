"""C13 - parallel_for honours the granularity contract.

E1  TLC on spec/parfor (ParForOutcome): for every (start, end) of a reduced W-bit type - hence
    every start mod g and every size -, g in 2..8, static and adaptive chunking, wait true/false,
    pool sizes: at most one body whose size is not a multiple of g, and it ends at `end`.
    Negative control: stripe ends aligned to absolute multiples of g (code before the fix) fails.
E5  the real parallel_for with g in {2,3,7,16,64}, every residue of start modulo g, sizes around
    multiples of g, static + adaptive, wait modes, pools, int8..uint64 incl. ranges at the type
    limits; TLC validates each record (equality with the specification's invocation list and the
    granularity contract on the observed invocations).
"""
import parfor_common as pc

WHAT = 'parallel_for honours the granularity contract'


def run(ctx):
    thorough = ctx.tier == 'thorough'
    exe = pc.build_parfor(ctx)
    bg = pc.Background(ctx, exe, WHAT)
    bg.start('gran')
    pc.model(ctx, 'MCParFor.tla', 'MC_c13_w6.cfg' if thorough else 'MC_c13_quick.cfg', WHAT, 'all ranges x g x static/adaptive x wait')
    pc.negative_control(ctx, 'MCParFor.tla', 'MC_neg_align.cfg',
                        'stripe ends aligned to absolute multiples of the granularity')
    for suite, tr, tot in bg.join():
        ctx.validate(pc.SPEC, 'ParForTrace.tla', 'ParForTrace_C13.cfg', tr, WHAT,
                     executions=tot.get('completed', 0), label='records ' + suite, timeout=2400)
        ctx.sample_trace(tr, 3, skip=7)
    ctx.assumptions += [
        'count arithmetic (ssize_t / size_type) does not overflow 64 bits: range sizes below 2^62',
        'explicit chunk sizes are exempt (ParForOptions::granularity is documented as ignored then)',
        'reduced-width index types stand for the 8..64-bit types; real 32/64-bit positions are validated in a window of the type that preserves sign and start mod g',
        'TLC, the JSON/IOUtils community modules and g++ are trusted',
    ]
