"""C06 - nested waits never deadlock through pool starvation.

E1  TLC on spec/taskset/Nested.tla (tiers of the pool and WHO POLLS WHAT, programs = small acyclic
    nestings of task sets / futures / bulk + waiting loops, pools of 0..2 (3) threads):
      * the repaired waiters (also pop steal rings): no Starved state, <>AllDone under weak fairness
      * negative control: the ORIGINAL waiters starve on the cross-wait program (the run must FAIL,
        otherwise the model cannot express the defect)
E4  the same programs (+ directed scenarios + seeded random programs) on the REAL ThreadPool /
    ConcurrentTaskSet / TaskSet / Future / parallel_for under the controlled scheduler (random + PCT),
E3  every recorded execution validated by TLC against NestedTrace.tla (who took which task from which
    tier, when wait()/get() returned, queue sizes after every step); an execution that ends in
    Deadlock or exceeds the step bound is a non-termination (reported if a re-run repeats it).
"""
import json
import os
import random

import pool_common
import vlib

SPEC = 'spec/taskset'
WHAT = 'acyclic nestings of task-set waits, future gets and waiting loops always terminate'
TAGS = ('begin', 'end', 'call', 'ret')

# the E1 library (MCNested.tla P1..P6, same numbering)
LIBRARY = [
    'H,L;1@1:|2@2:w1;s1,s2,w2,w1',
    'H,H,H;1@1:s3,w2|2@1:s4,w3|3@2:|4@3:;s1,s2,w1',
    'L,H;1@0:|2@1:g1|3@0:s4,w2|4@2:;a1,s2,a3,w1,g3,g1',
    'T,H,L;1@1:s3,w2|2@1:|3@2:|4@3:|5@3:;b1.1.2,w1,p3.4.5',
    'H,L,H;1@1:|2@2:s3,w3|3@3:w1;s1,s2,w2,w1',
    'H,H,L;1@1:|2@2:|3@3:w1|4@3:w2;s1,s2,s3,s4,w3,w1,w2',
]
# directed scenarios: the schedule class of the starvation (placed task goes to the steal ring of a
# parked worker; the woken worker dequeues the cross-waiter from the central queue before it looks at
# its steal ring; nobody else polls that ring).  ^i: not before all workers are parked, ^bK: not
# before task K began.  The restrictions only narrow the schedules; the programs are LIBRARY 1/5/6.
DIRECTED = [
    'NW=1,2 H,L;1@1:|2@2:w1;s1^i,s2,w2^b2,w1',
    'NW=1,2 H,L;1@1:|2@2:w1;s1^i,s2,w2,w1',
    'NW=1,2 H,L,H;1@1:|2@2:s3,w3|3@3:w1;s1^i,s2,w2^b3,w1',
    'NW=1,2 H,H,L;1@1:|2@2:|3@3:w1|4@3:w2;s1^i,s2,s3,s4,w3^b3,w1,w2',
    'NW=1,2 L,L;1@0:|2@1:g1|3@2:w1;a1^i,s2,s3,w2^b3,g1',
]

# stale central-queue hint + every pool thread inside a nested wait.  ThreadPool::centralQueueNonEmpty_ is documented
# as allowed to be wrong (a worker's clear after a failed dequeue may overwrite a producer's set); the only repair is the
# time-out probe of a PARKED worker.  A thread inside wait() never parks, so termination of a nesting must not depend on
# the hint once no worker is idle: recursive fork-join (each level owns a task set and waits - parallel_invoke / merge
# sort shape) blocks every pool thread in a nested wait.  Random schedules almost never leave the hint stale at the
# moment the last worker blocks, so the schedule class is directed (pure schedule restrictions, see drv_nested.cpp):
# STALE=K holds a worker in front of its hint-clearing store until the schedule call of task K has returned (its clear
# then hides K), ^c: not before every worker is held there, ^hK: not before the hint is stale (or K began).  Then the
# pool threads are given (through their locality rings: nothing re-sets the hint) tasks that wait on the sets of the
# hidden tasks, and main waits as well: time-outs are allowed and do not help because nobody is parked.  Waiters of
# both kinds (TaskSet::wait, ConcurrentTaskSet::wait) on main, ConcurrentTaskSet::wait on the pool threads.
STALE_HINT = [
    'STALE=2 NW=1 L,T;1@1:|2@1:|3@2:w1;s1,s2^c,b2.3^h2,w2,w1',
    'STALE=2 NW=1 L,L;1@1:|2@1:|3@2:w1;s1,s2^c,b2.3^h2,w2,w1',
    'STALE=3 NW=2 L,L,L;1@1:|2@1:|3@2:|4@3:w1|5@3:w2;s1,s2^c,s3,b3.4.5^h3,w3,w1,w2',
]

# stack inversion (open finding): Y nests and waits, X waits on Y's set / gets the future whose body waits
INVERSION = [
    'L,L,L;1@1:s3,w3|2@2:w1|3@3:;s1,s2^b1,w2^b2,w1',
    'L,L;1@0:s3,w2|2@1:g1|3@2:;a1,s2^b1,w1^b2,g1',
]


class Builder:
    def __init__(self):
        self.sets = []
        self.tasks = []

    def newset(self, kind):
        self.sets.append(kind)
        return len(self.sets)

    def task(self, s, body):
        self.tasks.append((s, list(body)))
        return len(self.tasks)

    def text(self, main):
        return '%s;%s;%s' % (','.join(self.sets),
                             '|'.join('%d@%d:%s' % (i + 1, s, ','.join(b)) for i, (s, b) in enumerate(self.tasks)),
                             ','.join(main))


def gen_program(rng, nw3_ok=True):
    """seeded acyclic nesting within the documented contract: a TaskSet is used by one thread only, a
    set is never waited on while it is being scheduled into, at most one waiter per set at a time"""
    b = Builder()
    main = []

    def forkjoin(depth):
        """ops (for the body that owns them) creating an own set, scheduling children, waiting"""
        s = b.newset(rng.choice('HHLT'))
        ops = []
        mode = rng.choice(['sched', 'sched', 'bulk', 'pfor'])
        kids = []
        n = rng.randint(1, 2)
        for _ in range(n):
            body = forkjoin(depth - 1) if depth > 1 and rng.random() < 0.5 else []
            kids.append(b.task(s, body))
        if mode == 'sched':
            ops += ['s%d' % k for k in kids] + ['w%d' % s]
        elif mode == 'bulk':
            ops += ['b%d.%s' % (s, '.'.join(map(str, kids))), 'w%d' % s]
        else:
            ops += ['p%d.%s' % (s, '.'.join(map(str, kids)))]
        return ops

    shape = rng.choice(['forkjoin', 'cross', 'future', 'mixed', 'cross', 'mixed'])
    late_waits = []
    if shape in ('cross', 'mixed'):
        sa = b.newset(rng.choice('HHL'))
        for _ in range(rng.randint(1, 2)):
            main.append('s%d' % b.task(sa, []))
        sb = b.newset(rng.choice('HL'))
        x = b.task(sb, (forkjoin(1) if rng.random() < 0.4 else []) + ['w%d' % sa])
        main.append('s%d' % x)
        if rng.random() < 0.5:
            main.append('s%d' % b.task(sb, forkjoin(1) if rng.random() < 0.5 else []))
        late_waits += ['w%d' % sb, 'w%d' % sa]
    if shape in ('future', 'mixed'):
        # a future that a TASK gets has a body that does not wait (else: stack inversion, the open finding);
        # a future whose body nests is only gotten by main
        f1 = b.task(0, [])
        main.append('a%d' % f1)
        sx = b.newset(rng.choice('HL'))
        main.append('s%d' % b.task(sx, ['g%d' % f1] + (forkjoin(1) if rng.random() < 0.3 else [])))
        late_waits += ['w%d' % sx, 'g%d' % f1]
        if rng.random() < 0.5:
            f2 = b.task(0, forkjoin(1))
            main.append('a%d' % f2)
            late_waits.append('g%d' % f2)
    if shape in ('forkjoin', 'mixed') or not main:
        main += forkjoin(2)
    main += late_waits
    return b.text(main)


def normalise(src, dst):
    """one driver note per line (field n), chk = 1 where the projection belongs to the line; library
    notes (Inl*) and futex return values are dropped; the tear-down after main's program is dropped
    (a Deadlock reported there is the controller's join race, not the program's)"""
    info = {'lines': 0, 'stalled': 0, 'deadlocks': 0, 'teardown_deadlocks': 0, 'executions': 0, 'ended': 0, 'last': None,
            'stuck': None}
    with open(dst, 'w') as out:
        skipping = False
        last_s = None
        for line in open(src):
            try:
                ev = json.loads(line)
            except ValueError:
                break  # truncated last line: the driver died (reported by ctx.driver)
            e = ev.get('e')
            if e in ('Stalled', 'Deadlock'):
                if skipping:
                    info['teardown_deadlocks'] += 1
                    continue
                info['stalled' if e == 'Stalled' else 'deadlocks'] += 1
                info['stuck'] = dict(info['last'] or {}, e=e, s=ev.get('s') or last_s)
                out.write(json.dumps({'e': e}) + '\n')
                continue
            if e in ('Header', 'Reset', 'End'):
                if e == 'Reset':
                    info['executions'] += 1
                    info['last'] = {'p': ev.get('p'), 'nw': ev.get('nw'), 'tag': ev.get('tag')}
                    skipping = False
                if e == 'End':
                    info['ended'] += 1
                out.write(json.dumps(ev, separators=(',', ':')) + '\n')
                continue
            if skipping:
                continue
            notes = [r for r in ev.get('r', []) if isinstance(r, list) and r and r[0] in TAGS]
            last_s = ev.get('s', last_s)
            base = {'e': e, 't': ev.get('t', ''), 's': ev.get('s', {'alive': 0})}
            if not notes:
                out.write(json.dumps(dict(base, n=[], chk=1), separators=(',', ':')) + '\n')
            for i, n in enumerate(notes):
                out.write(json.dumps(dict(base, n=n, chk=1 if i == len(notes) - 1 else 0), separators=(',', ':')) + '\n')
                if n[0] == 'end' and n[1] == 0:
                    skipping = True
                    break
    info['lines'] = sum(1 for _ in open(dst))
    return info


def run_batch(ctx, exe, progs, label, runs, seed, nws='0,1,2', pct=3, maxsteps=30000):
    """controlled executions of the programs, normalised, validated by TLC; a non-terminating or
    rejected execution is re-run once and reported only if it repeats"""
    pf = os.path.join(ctx.work, label + '.progs')
    with open(pf, 'w') as f:
        f.write('\n'.join(progs) + '\n')
    tr = None
    for attempt in (0, 1):
        final = attempt == 1
        raw = os.path.join(ctx.work, '%s_%d.raw.ndjson' % (label, attempt))
        tr = os.path.join(ctx.work, '%s_%d.ndjson' % (label, attempt))
        tot, out = ctx.driver(exe, ['--out', raw, '--progs', pf, '--nw', nws, '--runs', runs, '--seed', seed,
                                    '--pct', pct, '--maxsteps', maxsteps], WHAT, label=label,
                              allow_incomplete=True, report=final)
        if not os.path.exists(raw):
            continue
        info = normalise(raw, tr)
        ctx.cov.setdefault('batches', []).append(dict(info, label=label, attempt=attempt))
        what = WHAT + ' [' + label + ']'
        if info['stuck'] and info['stuck'].get('p'):
            # name the program that did not terminate and the state it spins in
            st = info['stuck']
            s = st.get('s') or {}
            what = '%s [%s; in this batch program %r on a %s-thread pool never completes (%s)%s]' % (
                WHAT, label, progs[st['p'] - 1], st.get('nw'), 'step bound' if st['e'] == 'Stalled' else 'deadlock',
                ('; a task sits in the central queue while the pool\'s queue hint reads empty: no thread inside a wait() looks into the queue'
                 if s.get('cq', 0) > 0 and s.get('flag') == 0 else ''))
        res = ctx.validate(SPEC, 'NestedTrace.tla', 'NestedTrace.cfg', tr, what,
                           executions=info['ended'], label=label, report=final)
        os.remove(raw)
        stalled = info['stalled'] + info['deadlocks']
        if stalled and final and not res.violation:
            path = ctx.save_replay('%s-stalled.txt' % ctx.prop, 'batch %s: an execution did not terminate\n%s' % (
                label, ctx._trace_context(tr, info['lines'])))
            ctx.violation('stalled:' + label, what + ': execution never completes', path)
        if not (res.violation or not tot or stalled):
            return tr, info
    return tr, None


def run(ctx):
    thorough = ctx.tier == 'thorough'
    exe = ctx.build('drv_nested', ['harness/drv/drv_nested.cpp', 'harness/ctl/ctl.cpp'], dispenso=vlib.DISPENSO_SRCS,
                    flags=pool_common.TUNE + ['-DDISPENSO_TUNE_WAKE_GROUP_SIZE=2'])
    nogen = ['-noGenerateSpecTE']

    # E1 ------------------------------------------------------------------------------------------
    vac = ('BulkPushSteal', 'Finished')
    if thorough:
        ctx.check_model(SPEC, 'MCNested.tla', 'MC_nest_cover.cfg', WHAT, workers=4, extra=nogen, vacuity_exempt=VAC_SMALL,
                        label='cross-wait program, 1 worker, repaired waiters: no starved state, <>AllDone under WF')
        ctx.check_model(SPEC, 'MCNested.tla', 'MC_nest_live.cfg', WHAT, workers=4, extra=nogen, vacuity_exempt=vac, timeout=3000,
                        label='quick matrix with <>AllDone under per-thread weak fairness')
    ctx.check_model(SPEC, 'MCNested.tla', 'MC_nest_thorough.cfg' if thorough else 'MC_nest_quick.cfg', WHAT, workers=4, extra=nogen,
                    vacuity_exempt=vac, timeout=3000,
                    label='program library x pools 0..%d, repaired waiters: no starved state' % (3 if thorough else 2))
    neg = ctx.tlc(SPEC, 'MCNested.tla', 'MC_nest_nofix_all.cfg' if thorough else 'MC_nest_cross_nofix.cfg', workers=4, extra=nogen,
                  label='negative control: original waiters (central queue + locality rings only) must starve', count=False)
    if neg.violation not in ('Invariant NoStarvation', 'Deadlock'):
        raise vlib.ToolError('negative control did not fail: the model with the original waiters no longer starves (%s)' % neg.violation)
    ctx.sample({'negative_control_counterexample': neg.counterexample()[:1200]})
    if thorough:
        ctx.check_model(SPEC, 'MCNested.tla', 'MC_nest_nofix_forkjoin.cfg', WHAT, workers=4, extra=nogen, vacuity_exempt=vac,
                        timeout=3000, label='own-children fork-join / futures / loops terminate even with the original waiters')
        # the lossy central-queue hint made explicit (NestedHint.tla): idle workers trust it, threads inside a wait do
        # not - no starved state with or without time-outs; negative control: waiters that trust it starve on the
        # stale-hint cross wait (the programs of STALE_HINT) although time-outs exist
        for cfg, lab in (('MC_nest_hint_to.cfg', 'time-outs repair the hint'), ('MC_nest_hint_noto.cfg', 'nothing repairs the hint')):
            ctx.check_model(SPEC, 'MCNestedHint.tla', cfg, WHAT, workers=4, extra=nogen, timeout=3000,
                            required=('ObserveEmpty', 'ClearHint', 'HSleep') + (('HTimeout',) if cfg.endswith('_to.cfg') else ()),
                            label='explicit queue hint, waiters poll the central queue unconditionally (%s): no starved state' % lab)
        hneg = ctx.tlc(SPEC, 'MCNestedHint.tla', 'MC_nest_hint_gate.cfg', workers=4, extra=nogen, count=False,
                       label='negative control: waiters that trust the queue hint must starve (stale hint, every pool thread in a nested wait)')
        if hneg.violation != 'Invariant NoHStarvation':
            raise vlib.ToolError('negative control did not fail: waiters gated by the queue hint no longer starve (%s)' % hneg.violation)

    # E4 + E3 -------------------------------------------------------------------------------------
    rng = random.Random(ctx.seed)
    progs = ['R=%d NW=0,1,2%s %s' % (6 if thorough else 2, ',3' if thorough else '', p) for p in LIBRARY]
    # directed: many short executions of the steal-ring starvation's schedule class
    progs += ['R=%d %s' % (30 if thorough else 8, p) for p in DIRECTED]
    gen = []
    for i in range(30 if thorough else 8):
        p = gen_program(rng, True)
        # a waiting loop over 3 items needs at least 2 pool threads to get one item per chunk (or 0: inline)
        three = any(op.startswith('p') and op.count('.') >= 3 for part in p.split(';')[1:] for t in part.split('|')
                    for op in t.split(':')[-1].split(','))
        gen.append('R=%d NW=%s %s' % (4 if thorough else 3, '0,2' if three else rng.choice(['0,1,2', '1,2', '1,2,3' if thorough else '1,2']), p))
    # directed: stale queue hint while every pool thread is inside a nested wait.  LAST in the batch: an execution that
    # does not terminate ends the driver process
    stale = ['R=%d %s' % (24 if thorough else 8, p) for p in STALE_HINT]
    tr, info = run_batch(ctx, exe, progs + gen + stale, 'programs', 3, ctx.seed)
    ctx.sample_trace(tr, 10, skip=30)
    ctx.sample({'random_programs': gen[:4], 'directed': DIRECTED[:2], 'stale_hint': STALE_HINT})

    # the open finding (stack inversion): model and real code, reported under its own signature ------
    inv = ctx.tlc(SPEC, 'MCNested.tla', 'MC_nest_inversion.cfg', workers=4, extra=nogen, count=False,
                  label='stack inversion programs (a waiter steals a task that blocks on work suspended beneath it)')
    if inv.violation in ('Invariant NoStarvation', 'Deadlock'):
        hit = 0
        for attempt in (0, 1):
            pf = os.path.join(ctx.work, 'inversion.progs')
            open(pf, 'w').write('\n'.join(INVERSION) + '\n')
            raw = os.path.join(ctx.work, 'inversion_%d.raw.ndjson' % attempt)
            tot, out = ctx.driver(exe, ['--out', raw, '--progs', pf, '--nw', '1', '--runs', 4, '--seed', ctx.seed, '--pct', 0,
                                        '--maxsteps', 20000], WHAT, label='inversion', allow_incomplete=True, report=False)
            if tot and tot.get('executions', 0) > tot.get('completed', 0) + tot.get('deadlocks', 0):
                hit += 1
        if hit == 2:
            path = ctx.save_replay('%s-inversion.txt' % ctx.prop,
                                   'programs %s on a 1-thread pool never complete (step bound 20000, repeated)\n\nmodel:\n%s\n\nlast steps:\n%s' % (
                                       INVERSION, inv.counterexample()[:6000], ctx._trace_context(raw, sum(1 for _ in open(raw)))[-3000:]))
            ctx.violation('inversion:stack', WHAT + ': stack inversion - a thread inside wait() steals a task that waits on work '
                          'suspended beneath it on the same stack; the acyclic program never completes', path)
    elif inv.violation:
        raise vlib.ToolError('MC_nest_inversion: unexpected %s' % inv.violation)
    ctx.assumptions += [
        'the pool is modelled by its tiers (central queue, locality rings, steal rings) and by who polls which tier; '
        'FIFO order inside a tier, the lossy central-queue hint and the spin counters are abstracted (failed polls are stutter steps); '
        'on the real code the stale-hint state (hint reads empty, task queued) is produced by directed schedules while every pool '
        'thread is inside a nested wait, and NestedTrace.tla requires every thread inside a wait to attempt every tier class '
        '(central queue, rings, steal rings) once per polling round while a task is queued there (WaitersPollQueuedWork)',
        'time-outs are present (a parked worker always wakes again) but do not help: a thread inside wait() never parks',
        'placed scheduling pushes to a steal ring exactly when it claimed a sleeper (the spinner threshold is over-approximated)',
        'programs respect the documented contracts: a TaskSet is used by one thread, no wait() concurrent with schedule() on a set, '
        'one waiter per set at a time; load-based inline execution is allowed nondeterministically',
        'spin constants compiled small (pool_common.TUNE), steal-ring sharing 2, wake group size 2; sequentially consistent interleavings',
        'a waiting parallel_for is run with at most (threads + 1) items so that every chunk is one item',
        'random programs exclude the stack-inversion shapes (a task waiting on a set whose tasks wait themselves; a task getting a '
        'future whose body waits): those are the open finding, probed separately (MC_nest_inversion.cfg + directed runs)',
    ]


VAC_SMALL = ('BulkPushSteal', 'Finished', 'CallBulk', 'BulkPush', 'BulkInline', 'RetBulk', 'RetPfor', 'RunInline',
             'EnterGet', 'GetInline', 'GetReturn')
