"""C42 - PoolAllocator hands out exclusive chunks within its slabs.

E1  TLC, exhaustive, on the implementation-level spec spec/poolalloc/PoolAlloc.tla (one action per
    spin-lock access; the work done under the lock belongs to the step that took it): Exclusive,
    NoDoubleHandout, FreeListSound, SlabsHeldOnce, ReuseBeforeAlloc, ReleasedOnce in every state of
    every interleaving of 2-3 threads x <= 4 operations (several chunk/slab geometries, clear() and
    reuse phases), and over ALL sequential alloc/dealloc/clear/capacity histories up to 6-7
    operations for both allocator kinds (NextAny).
E2  every transition of the cover configuration's state graph is replayed in the real PoolAllocator
    under the controlled scheduler (points at the lock operations) ...
E3  ... and the recorded trace (action, thread, allocFunc calls with slab id, returned chunk as
    (slab, offset), lock word, both slab lists, the free list after every step; slabs released by
    the destructor) is validated by TLC against the spec (PoolAllocTrace.tla), all invariants on.
E4  seeded random (and PCT) controlled schedules of random phase programs over 8 geometries.
E5  NoLockPoolAllocator: seeded random sequential histories, each operation one record, validated
    by TLC with the same operators that E1 checks exhaustively.
The custom allocFunc/deallocFunc of the driver are the log (slab ids, offsets; no addresses).
"""
import json
import os
import shutil
import sys

SPEC = 'spec/poolalloc'
WHAT = 'PoolAllocator exclusive chunks within slabs, slab reuse, release exactly once'
SRCS = ['harness/drv/drv_poolalloc.cpp', 'harness/ctl/ctl.cpp']
COVER_PROG = 't1:a1,d1;t2:a2,a3|m:cl,a4,cp,a5,a6,a7,a8'
LOCKED_ONLY = ('NlAlloc', 'NlDealloc')
NOLOCK_ONLY = ('AllocLock', 'AllocUnlock', 'DeallocLock', 'DeallocUnlock')
SEQ_EXEMPT = ('Start', 'NextPhase')


def complete_schedules(dot, out):
    """Transition-cover schedules like bin/walker.py, but every path is continued to a terminal
    state of the graph.  (The controller finishes an exhausted schedule with the lowest-index
    runnable thread; with a spin lock that thread may be the one spinning on a lock whose holder is
    parked, so the cover schedules of this component must be complete executions.)"""
    sys.path.insert(0, os.path.join(os.path.dirname(os.path.dirname(os.path.abspath(__file__))), 'bin'))
    import walker
    init, edges, nodes, nedges = walker.load(dot)
    # next hop towards a terminal node (no edge to another node), by reverse BFS
    rev = {}
    for u, outs in edges.items():
        for (v, lab) in outs:
            if v != u:
                rev.setdefault(v, []).append((u, lab))
    hop = {}
    frontier = [n for n in nodes if not any(v != n for (v, _) in edges.get(n, ()))]
    for n in frontier:
        hop[n] = None
    while frontier:
        nxt = []
        for v in frontier:
            for (u, lab) in rev.get(v, ()):
                if u not in hop:
                    hop[u] = (v, lab)
                    nxt.append(u)
        frontier = nxt
    paths, total, covered = walker.cover(init, edges)
    steps = 0
    with open(out, 'w') as f:
        for p in paths:
            cur = init
            for lab in p:
                cur = [v for (v, l2) in edges[cur] if l2 == lab][0]
            p = list(p)
            while hop.get(cur) is not None:
                cur, lab = hop[cur]
                p.append(lab)
            sch = []
            for lab in p:
                st = walker.parse_label(lab)
                if st is None or 't' not in st:
                    continue
                st.pop('x', None)
                sch.append(st)
            steps += len(sch)
            f.write(json.dumps(sch, separators=(',', ':')) + '\n')
    return {'paths': len(paths), 'steps': steps, 'reachable_edges': total, 'covered_edges': covered}


def cat(files, out):
    with open(out, 'w') as o:
        for fn in files:
            with open(fn) as f:
                shutil.copyfileobj(f, o)
    return out


def run(ctx):
    thorough = ctx.tier == 'thorough'
    exe = ctx.build('drv_poolalloc', SRCS, dispenso=['pool_allocator.cpp'])

    # E1 -------------------------------------------------------------------------------------
    dot = os.path.join(ctx.work, 'cover.dot')
    ctx.check_model(SPEC, 'MCPoolAlloc.tla', 'MC_cover.cfg', WHAT,
                    label='cover: 2 threads race, then clear()+reuse; 2 chunks/slab',
                    dump=dot, vacuity_exempt=LOCKED_ONLY, workers=4)
    ctx.check_model(SPEC, 'MCPoolAlloc.tla', 'MC_2x3.cfg', WHAT,
                    label='2 threads x 3 ops + cross-thread dealloc, 1 chunk/slab, clear twice',
                    vacuity_exempt=LOCKED_ONLY, workers=4)
    ctx.check_model(SPEC, 'MCPoolAlloc.tla', 'MC_any_nl2.cfg' if thorough else 'MC_any_nl2_q.cfg', WHAT,
                    label='NoLock: all sequential histories <= %d ops, 2 chunks/slab' % (7 if thorough else 6),
                    vacuity_exempt=NOLOCK_ONLY + SEQ_EXEMPT, workers=4)
    if thorough:
        ctx.check_model(SPEC, 'MCPoolAlloc.tla', 'MC_3x4.cfg', WHAT,
                        label='3 threads x 4 ops, 3 chunks/slab + slack, cross-thread dealloc, clear()+reuse',
                        vacuity_exempt=LOCKED_ONLY, workers=4)
        ctx.check_model(SPEC, 'MCPoolAlloc.tla', 'MC_any_nl1.cfg', WHAT,
                        label='NoLock: all sequential histories <= 7 ops, 1 chunk/slab',
                        vacuity_exempt=NOLOCK_ONLY + SEQ_EXEMPT, workers=4)
        ctx.check_model(SPEC, 'MCPoolAlloc.tla', 'MC_any_nl3.cfg', WHAT,
                        label='NoLock: all sequential histories <= 7 ops, 3 chunks/slab + slack',
                        vacuity_exempt=NOLOCK_ONLY + SEQ_EXEMPT, workers=4)
        ctx.check_model(SPEC, 'MCPoolAlloc.tla', 'MC_any_sq2.cfg', WHAT,
                        label='PoolAllocator: all sequential histories <= 6 ops',
                        vacuity_exempt=LOCKED_ONLY + SEQ_EXEMPT, workers=4)

    # E2: replay of every transition of the cover graph ---------------------------------------
    sched = os.path.join(ctx.work, 'cover.sched')
    comp = complete_schedules(dot, sched)
    info = ctx.walker(dot, os.path.join(ctx.work, 'cover_walker.sched'))         # graph statistics (removes dot)
    info['paths'] = comp['paths']
    info['steps_completed_to_terminal'] = comp['steps']
    ctx.cov['cover_graph'] = info
    traces = []
    tr = os.path.join(ctx.work, 'cover.ndjson')
    tot, _ = ctx.driver(exe, ['--out', tr, '--cs', 8, '--as', 16, '--safe', 1, '--prog', COVER_PROG,
                              '--schedules', sched], WHAT, label='cover replay')
    if tot and tot.get('completed', 0) != info['paths']:
        ctx.violation('driver:drv_poolalloc:incomplete', WHAT + ': only %s of %d cover schedules completed'
                      % (tot.get('completed'), info['paths']), tr)
    if tot:     # (a crashed driver is already reported; its trace is truncated)
        traces.append((tr, tot.get('completed', 0), 'cover replay'))
    ctx.sample_trace(tr, 14)

    # E4: PoolAllocator under random / PCT controlled schedules --------------------------------
    for pct, n in ((0, 3000 if thorough else 200), (3, 2000 if thorough else 120)):
        tr = os.path.join(ctx.work, 'rand_safe_p%d.ndjson' % pct)
        tot, _ = ctx.driver(exe, ['--out', tr, '--safe', 1, '--random', n, '--seed', ctx.seed + 11 * pct,
                                  '--randprog', '--pct', pct], WHAT, label='random locked pct%d' % pct)
        if tot:
            traces.append((tr, tot.get('completed', 0), 'random locked pct%d' % pct))

    # E5: NoLockPoolAllocator, random sequential histories --------------------------------------
    tr = os.path.join(ctx.work, 'rand_nolock.ndjson')
    tot, _ = ctx.driver(exe, ['--out', tr, '--safe', 0, '--random', 4000 if thorough else 300, '--seed',
                              ctx.seed + 5, '--randprog'], WHAT, label='random NoLock histories')
    if tot:
        traces.append((tr, tot.get('completed', 0), 'random NoLock histories'))
    ctx.sample_trace(tr, 10)

    # E3: TLC validates everything that was recorded --------------------------------------------
    if thorough:
        for tr, n, label in traces:
            ctx.validate(SPEC, 'PoolAllocTrace.tla', 'PoolAllocTrace.cfg', tr, WHAT, executions=n, label=label,
                         timeout=3000)
    elif traces:   # one JVM start for all traces (each begins with a Reset line)
        allt = cat([t[0] for t in traces], os.path.join(ctx.work, 'all.ndjson'))
        ctx.validate(SPEC, 'PoolAllocTrace.tla', 'PoolAllocTrace.cfg', allt, WHAT,
                     executions=sum(t[1] for t in traces), label='cover replay + random locked + random NoLock')

    if thorough:
        # auxiliary monitor: the same driver under ASan/UBSan (a report = driver crash = reported)
        sexe = ctx.build('drv_poolalloc', SRCS, dispenso=['pool_allocator.cpp'], sanitize=True)
        for safe in (1, 0):
            tr = os.path.join(ctx.work, 'san_%d.ndjson' % safe)
            ctx.driver(sexe, ['--out', tr, '--safe', safe, '--random', 1500, '--seed', ctx.seed + 3,
                              '--randprog'], WHAT, label='sanitised safe=%d' % safe)

    ctx.assumptions += [
        'TLA+ interleaving semantics are sequentially consistent (weak-memory effects are C10)',
        'the work done while the spin lock is held is atomic w.r.t. other threads only because they need the lock',
        'programs are the ones the documentation allows: dealloc only of a handed-out chunk by one thread, '
        'clear()/totalChunkCapacity() only while no other thread uses the allocator, chunkSize <= allocSize',
        'TLC, the JSON/IOUtils community modules and g++ are trusted',
    ]
