"""C29 - pipeline exceptions terminate cleanly without leaks (DESIGN 5.4 / C29).

E1  TLC, exhaustive, on spec/pipeline with a throw at the first / middle / last item in the generator, a
    transform or the sink, limits {1, 2, unlimited}, pool 0..2: RethrowsFirst (pipeline() rethrows iff something
    was thrown, and then the exception that won trySetCurrentException), AtMostOnce, NoLeak (no item payload
    is left undestroyed at return: queued items discarded with cleanupNotRun, items wrapped for the task set
    destroyed when skipped, leftovers of the local queues destroyed), PoolClean (nothing of the pipeline is
    left in the pool: a follow-up pipeline runs), no deadlock (TLC deadlock check), termination under fairness.
    Negative controls (the code before the fix: commits): NoLeak violated; Deadlock reached (a generator
    instance skipped by the cancelled set never signals the completion event).
E3/E4  REAL throwing pipelines on the REAL pool under the controlled scheduler, lifetime-counted payloads
    (live objects are counted when pipeline() has rethrown), each followed by a clean pipeline on the same pool;
    every step validated by TLC; an execution that does not finish is reported.  Thorough: sanitised build
    (LeakSanitizer / AddressSanitizer report = driver failure = reported).
"""
import random

import pipe_common as pc

WHAT = 'pipeline exceptions terminate cleanly without leaks'
VAC = ('Terminated',)


def _e1(ctx, thorough):
    ctx.check_model(pc.SPEC, 'MCPipeline.tla', 'MC_throw.cfg', WHAT, workers=4, vacuity_exempt=VAC,
                    label='11 throwing configurations: generator/transform/sink x first/middle/last x limits x pool 0..2')
    pc.negative_control(ctx, 'MC_neg_leak.cfg', 'NoLeak', 'skipped wrapped items / queue leftovers leak before the fix')
    pc.negative_control(ctx, 'MC_neg_hang.cfg', 'Deadlock', 'skipped generator instance never signals completion before the fix')
    if thorough:
        ctx.check_model(pc.SPEC, 'MCPipeline.tla', 'MC_throw_big.cfg', WHAT, workers=4, vacuity_exempt=pc.SUPP, timeout=1500,
                        label='larger throwing configurations')
        ctx.check_model(pc.SPEC, 'MCPipeline.tla', 'MC_live_throw.cfg', WHAT + ' (termination under fairness)', workers=4, vacuity_exempt=pc.SUPP, timeout=1500, label='liveness: <>Returned with throws')


def run(ctx):
    thorough = ctx.tier == 'thorough'
    exe = pc.build(ctx)
    if not pc.traces_only():
        _e1(ctx, thorough)
    pc.cleanup()
    rng = random.Random(ctx.seed + 29)
    follow = '|' + pc.cfg(1, [1, 1], 2, 2)
    fixed = [
        pc.cfg(1, [2, 1], 2, 2, thr=[(0, 1)]) + follow,                       # 2 generator instances, generator throws
        pc.cfg(1, [1, 1], 2, 3, thr=[(1, 1)]) + follow,                       # serial sink throws on the first item
        pc.cfg(2, [1, 1, 1], 2, 4, thr=[(1, 2)]) + follow,                    # transform throws in the middle
        pc.cfg(2, [2, 2, 1], 3, 4, thr=[(2, 4)]) + '|' + pc.cfg(2, [1, 2, 1], 3, 3),   # sink throws on the last item
        pc.cfg(2, [1, 99, 1], 1, 3, thr=[(1, 2)]) + '|' + pc.cfg(1, [1, 1], 1, 2),     # unlimited stage throws
        pc.cfg(2, [1, 1, 2], 0, 3, thr=[(2, 2)]) + '|' + pc.cfg(0, [1], 0, 2),         # zero-thread pool
        pc.cfg(0, [2], 2, 3, thr=[(0, 2)]) + follow,                          # one-stage pipeline throws
        pc.cfg(3, [2, 2, 1, 2], 3, 4, thr=[(1, 1), (3, 2)], filt=[(2, 3)]) + '|' + pc.cfg(1, [1, 2], 3, 2),
    ]
    progs = fixed + [_rand_prog(rng) for _ in range(24 if thorough else 4)]
    n = 12 if thorough else 3
    tr, tot = pc.run_programs(ctx, exe, progs, n, ctx.seed, WHAT, 'throwing pipelines + follow-up')
    # items orphaned in a local queue after the caller has passed that stage's wait (they are destroyed only by the
    # scheduler's destructor): needs a throw while later items are still upstream; ~20 % of uniform schedules of this program
    late = [pc.cfg(2, [2, 2, 1], 3, 6, thr=[(2, 1), (2, 2)]) + '|' + pc.cfg(1, [1, 1], 3, 2)]
    pc.run_programs(ctx, exe, late, 60 if thorough else 14, ctx.seed + 3, WHAT, 'queue leftovers at teardown', pct=0)
    if thorough:
        san = pc.build(ctx, sanitize=True)
        pc.run_programs(ctx, san, progs[:16], 3, ctx.seed + 2, WHAT, 'sanitised build (LeakSanitizer, AddressSanitizer)',
                        sanitized=True)
    ctx.sample({'programs': progs[:8]})
    ctx.sample_trace(tr, 14, skip=60)
    ctx.assumptions += pc.ASSUME


def _rand_prog(rng):
    c, p = pc.random_cfg(rng, True)
    if rng.random() < 0.6:
        c += '|' + pc.random_cfg(rng, False, p=p)[0]
    return c
