"""C19 - Future continuations and combinators respect readiness (see DESIGN 5.2 / C19).

E1  TLC, exhaustive, on spec/future/Future.tla + WhenAll.tla: ThenAfterReady (the antecedent is kReady when the
    continuation body starts), AtEnd (every continuation ran exactly once - a link pushed just after the completing
    thread drained the chain is not lost -, nothing stays chained or queued, every shared state is released),
    WhenAllReady (result ready => all inputs ready), WhenAnyReady (result = index of a ready input, SIZE_MAX for the
    empty input), CombFOnce, TsWaitImpliesReady (taskSet.wait() returned => the futures bound to the set are ready)
    for ALL orders of {push link, antecedent completes, drain}, registration racing completion, the result functor run
    by the last callback or inline by a getter, empty and singleton inputs; every task-set overload of when_all
    (TaskSet / ConcurrentTaskSet x iterator / variadic) and when_any with inputs that are NOT members of the set (manual
    queue) and with inputs that are (abstract pool, a later continuation in front of the when_all callback).
E2  every transition of the then() cover graph is replayed in the real code under the controlled scheduler ...
E3  ... and validated step by step by TLC (FutureTrace.tla: chain contents, count / winner / shared_ptr owners).
E5  rounds of 20 000 then() on a not-yet-ready future: the 32-byte small-buffer pool must not grow after the first round
    (every chain link is freed to the pool it was allocated from) - LinkPoolObs.tla.
E4  seeded random + PCT schedules of the model programs and of random programs (then / when_all / when_any on every
    schedulable incl. the real pool and task sets), validated the same way.
"""
import os
import random

import future_common as fc

WHAT = 'then / when_all / when_any respect readiness'


def run(ctx):
    thorough = ctx.tier == 'thorough'
    fixed = fc.code_has_wany_fix()
    exe = fc.build(ctx)

    # E1 + E2 + E3 ---------------------------------------------------------------------------
    tr_cover = fc.cover_replay(ctx, exe, 'then', WHAT, fixed=fixed)
    ctx.sample_trace(tr_cover, 14, skip=6)
    models = [('g19', 'empty when_all / when_any | when_any of one (callback vs inline winner) | when_all of one, result shared | '
                      'when_all with a task set | future + continuation bound to a task set | when_all(ConcurrentTaskSet, it, it) | '
                      'when_all(TaskSet, f): inputs that are not members of the set')]
    if thorough:
        models += [('then2', 'two threads chain continuations while the antecedent completes'),
                   ('wall', 'when_all of two inputs racing their completion'),
                   ('wany', 'when_any of two inputs racing their completion'),
                   ('wallt', 'when_all(f1, f2): the variadic (tuple) overload'),
                   ('wanyt', 'when_any(f1, f2): the variadic (tuple) overload')]
    if thorough:
        models.append(('g19ts', 'task-set overloads of when_all / when_any, two inputs outside the set, inputs that are members '
                                'of the set (+ a later continuation in front of the when_all callback): taskSet.wait() returned '
                                '=> the result is ready'))
    for name, label in models:
        fc.model(ctx, name, WHAT, label, fixed=fixed, timeout=2400)

    # E4 + E3 --------------------------------------------------------------------------------
    rng = random.Random(ctx.seed * 31 + 5)
    fixedprogs = [fc.gen.MC[k] for k in ('then', 'then2', 'exc', 'wall', 'wall1', 'wany', 'wany1', 'wall0', 'wallt', 'wanyt',
                                         'wany1', 'wany1', 'wany')]     # (repeated: more schedules of the narrow when_any race)
    # the task-set overloads of when_all (TaskSet / ConcurrentTaskSet x iterator / variadic) + when_any, inputs OUTSIDE the
    # set (manual queue) and INSIDE it (real pool), is_ready() sampled right after taskSet.wait() returned: the random
    # programs reach these overloads only now and then and never look at the result after the wait
    # + the task-set overloads of then() (thents / thents6 / thentsq): then(f, TaskSet | ConcurrentTaskSet) on an antecedent
    # that is NOT ready while a thread gets / waits on the (deferred, inline-runnable) continuation before the antecedent
    # completed - the continuation body records parent.is_ready() (`tbegin`), which the trace spec requires to be 1
    fixedprogs += [fc.gen.MC[k] for k in fc.gen.TS_PROGS]
    nq, npool = (200, 200) if thorough else (6, 6)
    progs_q = [fc.gen.random_program(rng, 'q') for _ in range(nq)]
    progs_p = [fc.gen.random_program(rng, 'pool') for _ in range(npool)]
    ctx.sample({'programs': progs_q[:2] + progs_p[:3]})
    if thorough:
        fc.run_and_validate(ctx, exe, fixedprogs, WHAT, 'model programs, random schedules', n=150, seed=ctx.seed + 20, pct=3,
                            spurious=True, fixed=fixed)
    tr = fc.run_and_validate(ctx, exe, progs_p + fixedprogs + progs_q, WHAT,
                             'model programs + task-set when_all programs + random programs: real ThreadPool TaskSet '
                             'NewThreadInvoker | manual queue ImmediateInvoker', n=10 if thorough else 4, seed=ctx.seed + 12, pct=3,
                             spurious=True, fixed=fixed)[0]
    if tr:
        ctx.sample_trace(tr, 10, skip=40)

    # E5: chain links go back to the small-buffer pool they came from -------------------------
    obs = os.path.join(ctx.work, 'linkpool.ndjson')
    tot, _ = ctx.driver(exe, ['--out', obs, '--linkpool', 6 if thorough else 4, '--links', 20000], WHAT,
                        label='then-chain links vs the 32-byte small-buffer pool')
    ctx.validate(fc.SPEC, 'LinkPoolObs.tla', 'LinkPoolObs.cfg', obs, WHAT + ' (chain links are freed to their pool)',
                 executions=tot.get('completed', 0), label='E5 link pool records')
    ctx.sample_trace(obs, 4)
    ctx.assumptions += fc.ASSUME
