"""Shared by C12 / C13 / C17: spec directory, driver build, helpers around ctx.tlc for the parallel
loop component (spec/parfor, harness/drv/drv_parfor.cpp, drv_chunking.cpp)."""
import os
import threading

import vlib

SPEC = 'spec/parfor'


def third_party_flag():
    # dispenso/thread_pool.h includes <moodycamel/concurrentqueue.h>
    return ['-I' + os.path.join(vlib.REPO, 'dispenso', 'third-party')]


def build_parfor(ctx):
    return ctx.build('drv_parfor', ['harness/drv/drv_parfor.cpp'], dispenso=vlib.DISPENSO_SRCS,
                     flags=third_party_flag() + ['-g0'])   # -g0: the 8-type instantiation is slow to build


class Background:
    """Runs driver suites in a thread while TLC works (drivers are single processes with a free
    running pool; TLC stays at -workers 4)."""

    def __init__(self, ctx, exe, what):
        self.ctx, self.exe, self.what = ctx, exe, what
        self.jobs = []

    def start(self, suite, extra=()):
        tr = os.path.join(self.ctx.work, suite + '.ndjson')
        box = {}

        def run():
            try:
                box['tot'], _ = self.ctx.driver(
                    self.exe, ['--out', tr, '--suite', suite, '--tier', self.ctx.tier,
                               '--seed', self.ctx.seed] + list(extra),
                    self.what, label='parallel_for suite ' + suite, timeout=1500)
            except Exception as e:  # reported by join()
                box['err'] = e
        t = threading.Thread(target=run)
        t.start()
        self.jobs.append((suite, tr, t, box))

    def join(self):
        out = []
        for suite, tr, t, box in self.jobs:
            t.join()
            if 'err' in box:
                raise box['err']
            out.append((suite, tr, box.get('tot', {})))
        return out


def model(ctx, module, cfg, what, label, min_states=2, coverage=False, timeout=2400):
    """E1 like ctx.check_model, but without TLC's -coverage instrumentation unless asked: it slows
    these expression-heavy specifications about 5x, and the input-exhaustive models have a single
    action.  Vacuity is guarded by a minimum number of distinct states (the action was taken for
    inputs beyond the initial states) and by the negative controls."""
    if coverage:
        return ctx.check_model(SPEC, module, cfg, what, label=label, workers=4, timeout=timeout)
    res = ctx.tlc(SPEC, module, cfg, workers=4, label=label, timeout=timeout)
    if res.violation:
        path = ctx.save_replay('%s-%s-%s.txt' % (ctx.prop, module, cfg.replace('.cfg', '')),
                               'TLC %s on %s/%s\n\n%s' % (res.violation, module, cfg, res.counterexample()))
        ctx.violation('model:%s:%s:%s' % (module, cfg, res.violation), what + ': ' + res.violation, path)
    elif res.distinct < min_states:
        raise vlib.ToolError('vacuous model run %s/%s: only %d distinct states' % (module, cfg, res.distinct))
    return res


def negative_control(ctx, module, cfg, what, timeout=300):
    """The specification of the code BEFORE a fix (variant switch in the cfg) must violate the
    property: shows that the model is able to exhibit the defect the fix removes."""
    res = ctx.tlc(SPEC, module, cfg, workers=4, label='negative control: ' + what, timeout=timeout,
                  count=False)
    ctx.cov.setdefault('negative_controls', []).append(
        {'cfg': cfg, 'what': what, 'violation': res.violation, 'states': res.distinct})
    if not res.violation:
        raise vlib.ToolError('negative control %s/%s did not produce the expected violation (%s)'
                             % (module, cfg, what))
    return res
