"""C18 - a Future's functor runs exactly once and every getter sees its result (see DESIGN 5.2 / C18).

E1  TLC, exhaustive, on the implementation-level spec spec/future/Future.tla (one action per atomic access of
    future_impl.h; programs of spec/future/gen.py): FuncOnce, ReadyImpliesRan, GetsAgree (every get returns the
    functor's value or rethrows its exception), DeallocOnce, RefsSane, NoBad (no access after dealloc, no dealloc
    while referenced), AtEnd (every functor ran, every unreferenced shared state was released exactly once),
    deadlock freedom - for 2-3 handle-holding threads doing get / wait / wait_for(0) / copy / destroy racing the
    queue's run(), both launch policies, a throwing functor, the abstract pool and a NewThreadInvoker thread.
E2  every transition of the cover configuration's state graph (waiter-runs-inline vs queue-starts race, all orders of
    the three reference drops) is replayed in the real Future under the controlled scheduler ...
E3  ... and every recorded step (site, thread, notes, status / refCount / then-chain / futex wait set of every live
    shared state) is validated by TLC (FutureTrace.tla) with all invariants on.
E4  seeded random + PCT schedules of random programs on the manual queue and ImmediateInvoker, and on the REAL
    ThreadPool (placed), TaskSet, ConcurrentTaskSet and NewThreadInvoker (pool-internal steps stutter; the projection
    of the futures' words must stay equal to the spec after every step), validated the same way.
    thorough: the same on an ASan/UBSan build without the small-buffer allocator (auxiliary monitor for reference-count
    errors: a sanitizer report = driver crash = reported).
E5  free-running rounds (real threads, no controller): a kNotDeferred or deferred future is queued on a one-worker
    ThreadPool / TaskSet / ConcurrentTaskSet and its owner's get() / wait() (sometimes also a second thread's get() on a
    copy) is aligned with the moment the worker pops the queued task, so that the waiter's claim and the pool task's claim
    overlap INSIDE one step of the controlled scheduler (a claim that is not one atomic RMW is invisible to E2-E4).  One
    record per batch: functors executed twice / never, get() values that differ from the functor's value, functor copies
    and shared states still alive, task-set counters; validated by TLC (FutureRaceObs.tla).
    Second class of rounds (same run, same validator): timed waits racing the pool thread's claim of a kNotDeferred
    future - the owner and 3 poller threads spin on wait_for(tiny) / wait_until(now + tiny) from before the worker
    claims the functor (held behind a gate task until all of them spin) until after the owner releases the functor,
    which blocks on a flag; `ready` must never be reported before the functor has finished (the status word changes
    twice under such waiters, kNotStarted -> kRunning -> kReady; the window between a waiter's load of the word and
    the kernel's compare is inside one controlled step), ready stays ready, get() agrees, the functor ran once.
"""
import json
import os
import random

import vlib

import future_common as fc

WHAT = 'Future functor runs once; every getter sees its result; shared state released once'


def run(ctx):
    thorough = ctx.tier == 'thorough'
    fixed = fc.code_has_wany_fix()
    exe = fc.build(ctx)

    # E1 + E2 + E3 ---------------------------------------------------------------------------
    tr_cover = fc.cover_replay(ctx, exe, 'cover', WHAT, fixed=fixed)
    ctx.sample_trace(tr_cover, 14, skip=8)
    fc.model(ctx, 'g18', WHAT, 'throwing functor + continuation | abstract pool with 1 worker | NewThreadInvoker thread')
    if thorough:
        fc.model(ctx, 'three', WHAT, '3 handle-holding threads + runner: get / wait / wait_for(0) / copy / destroy', timeout=2400)

    # E4 + E3 --------------------------------------------------------------------------------
    rng = random.Random(ctx.seed)
    nq, npool = (200, 200) if thorough else (10, 8)
    progs_q = [fc.gen.MC['three'], fc.gen.MC['exc']] + [fc.gen.MC['wany1']] * 3 + [fc.gen.random_program(rng, 'q') for _ in range(nq)]
    progs_p = [fc.gen.random_program(rng, 'pool') for _ in range(npool)]
    ctx.sample({'programs': progs_q[5:7] + progs_p[:3]})
    tr = fc.run_and_validate(ctx, exe, progs_p + progs_q, WHAT,
                             'random programs: real ThreadPool TaskSet NewThreadInvoker | manual queue ImmediateInvoker',
                             n=10 if thorough else 3, seed=ctx.seed, pct=3, spurious=True, fixed=fixed)[0]
    if tr:
        ctx.sample_trace(tr, 10, skip=30)
    if thorough:
        san = fc.build(ctx, sanitize=True)
        rng2 = random.Random(ctx.seed + 7)
        fc.run_and_validate(ctx, san, [fc.gen.random_program(rng2, 'q') for _ in range(100)], WHAT,
                            'sanitised build, manual queue', n=6, seed=ctx.seed + 2, pct=3, fixed=fixed)
        fc.run_and_validate(ctx, san, [fc.gen.random_program(rng2, 'pool') for _ in range(100)], WHAT,
                            'sanitised build, real pool', n=5, seed=ctx.seed + 3, pct=3, fixed=fixed)
    # E5: the owner's get() / wait() races the pool task for the claim, free-running --------------
    # (why: every engine above executes the claim kNotStarted -> kRunning as ONE step; a waiter landing between a load and
    # a store of a non-atomic claim exists only in truly concurrent executions)
    rounds = 600000 if thorough else 40000
    obs = os.path.join(ctx.work, 'race.ndjson')
    # + timed waits (wait_for / wait_until pollers) racing the pool task's claim of a kNotDeferred future: for those
    # waiters the status word changes twice, and only a free-running waiter can sample it just before the claim
    timed = 60000 if thorough else 4000
    tot, _ = ctx.driver(exe, ['--out', obs, '--race', rounds, '--batch', 4000, '--timed', timed, '--tbatch', 500,
                              '--seed', ctx.seed], WHAT,
                        label='free-running: get / wait racing the pool task; timed waits racing its claim',
                        allow_incomplete=True, timeout=900)
    ctx.validate(fc.SPEC, 'FutureRaceObs.tla', 'FutureRaceObs.cfg', obs,
                 WHAT + ' (free-running waiter vs pool task: executions, values, releases)',
                 executions=tot.get('completed', 0), label='E5 race records')
    fc.cleanup()
    allrecs = [json.loads(x) for x in open(obs) if x.strip()]
    recs = [r for r in allrecs if r['e'] == 'Race']
    trecs = [r for r in allrecs if r['e'] == 'TimedRace']
    nd, inlnd = sum(r['nd'] for r in recs), sum(r['inlnd'] for r in recs)
    ctx.cov['free_running_rounds'] = sum(r['rounds'] for r in allrecs)
    ctx.cov['free_running_timed_race'] = {k: sum(r[k] for r in trecs) for k in ('rounds', 'polls', 'pre', 'mid')}
    ctx.cov['free_running_race'] = {'not_deferred_rounds': nd, 'claimed_by_a_getter': inlnd, 'claimed_by_the_pool': nd - inlnd}
    ctx.sample_trace(obs, 3)
    if recs and not any(r['stuck'] for r in recs) and (inlnd == 0 or inlnd == nd):
        # not a verdict about the library: the two claims never met, the engine observed nothing
        raise vlib.ToolError('E5 race rounds are vacuous: %d kNotDeferred rounds, %d claimed by a getter' % (nd, inlnd))
    if trecs and not any(r['stuck'] for r in allrecs) and (sum(r['pre'] for r in trecs) == 0 or sum(r['mid'] for r in trecs) == 0):
        # not a verdict about the library: no timed wait ended before the claim / while the functor ran
        raise vlib.ToolError('E5 timed-wait rounds are vacuous: %r' % ctx.cov['free_running_timed_race'])
    ctx.assumptions += fc.ASSUME
    ctx.assumptions.append('E5 observes, per batch of free-running rounds on the real pool with real threads, only what the '
                           'callers of the public API see (execution counts of their functors, values returned by get(), '
                           'objects still alive, task-set counters); no wall-clock judgement')
