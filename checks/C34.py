"""C34 - MpmcRingBuffer is an exactly-once bounded FIFO.

E1  TLC, exhaustive, on the implementation-level spec spec/mpmc/Mpmc.tla (one action per atomic
    access): Bounded, FifoExactlyOnce, LiveMatches, QuiescentExact, ResultsMatch,
    QuiescentAccounting, NoLeakAfterDestroy in every state of every interleaving.
E2  every transition of the cover configuration's state graph is replayed in the real
    MpmcRingBuffer under the controlled scheduler ...
E3  ... and the recorded trace (action, thread, returned value, head/tail/seq[]/live payload per
    slot after every step) is validated by TLC against the spec (MpmcTrace.tla), all invariants on.
E4  random controlled schedules of random programs (all capacities incl. non power of two).
E5  free-running rounds (drv_mpmc --stress): 1..3 producers x 1..3 consumers, real threads, no controller
    (the hook points are inert), on rings of capacity 2 / 3 (exact) / 4; one observation record per round
    (what every pop returned per consumer in program order, the quiescent observers, payload lifetime
    counters), validated by TLC against spec/mpmc/MpmcObs.tla: nothing lost / duplicated / invented,
    per-producer FIFO, quiescent exactness, every element destroyed exactly once.  Sees races INSIDE a step
    of Mpmc.tla (a CAS split into load + store, an index re-read after the claim, ...), which E2-E4 cannot.
"""
import os

SPEC = 'spec/mpmc'
INV_WHAT = 'MpmcRingBuffer exactly-once bounded FIFO'


def run(ctx):
    thorough = ctx.tier == 'thorough'
    exe = ctx.build('drv_mpmc', ['harness/drv/drv_mpmc.cpp', 'harness/ctl/ctl.cpp'])

    # E1 -------------------------------------------------------------------------------------
    dot = os.path.join(ctx.work, 'cover.dot')
    ctx.check_model(SPEC, 'MCMpmc.tla', 'MC_cover.cfg', INV_WHAT, label='cover 2P+2C cap2, 1 op each',
                    dump=dot, vacuity_exempt=('ObsLdHead', 'ObsLdTail'), workers=4)
    ctx.check_model(SPEC, 'MCMpmc.tla', 'MC_2x2.cfg', INV_WHAT, label='2P+2C cap2, 2 ops each')
    if thorough:
        ctx.check_model(SPEC, 'MCMpmc.tla', 'MC_3ops.cfg', INV_WHAT, label='2P+2C cap3, 3 ops each',
                        timeout=3000, heap='24g')

    # E2 + E3 ---------------------------------------------------------------------------------
    sched = os.path.join(ctx.work, 'cover.sched')
    info = ctx.walker(dot, sched)
    ctx.cov['cover_graph'] = info
    tr = os.path.join(ctx.work, 'cover.ndjson')
    tot, _ = ctx.driver(exe, ['--out', tr, '--cap', 2, '--prog', 'p1:push1;p2:batch2.3;c1:pop;c2:popr',
                              '--schedules', sched], INV_WHAT, label='cover replay')
    ctx.validate(SPEC, 'MpmcTrace.tla', 'MpmcTrace.cfg', tr, INV_WHAT, executions=tot.get('completed', 0),
                 label='cover replay')
    ctx.sample_trace(tr, 14)

    # E4 + E3 ---------------------------------------------------------------------------------
    n = 6000 if thorough else 700
    for cap in (2, 3, 4):
        for pct in (0, 3):
            tr = os.path.join(ctx.work, 'rand_c%d_p%d.ndjson' % (cap, pct))
            tot, _ = ctx.driver(exe, ['--out', tr, '--cap', cap, '--random', n, '--seed', ctx.seed + pct,
                                      '--randprog', '--pct', pct], INV_WHAT, label='random cap%d pct%d' % (cap, pct))
            ctx.validate(SPEC, 'MpmcTrace.tla', 'MpmcTrace.cfg', tr, INV_WHAT,
                         executions=tot.get('completed', 0), label='random cap%d pct%d' % (cap, pct))
    ctx.sample_trace(tr, 10)

    # E5: free-running rounds (real threads, inert hooks): the windows INSIDE the steps of Mpmc.tla ------------
    obs = os.path.join(ctx.work, 'stress.ndjson')
    rounds = 300000 if thorough else 20000
    # 20000 rounds take < 1 s on an idle machine; --maxms only bounds the engine when the machine is oversubscribed
    # (the rounds need their threads co-scheduled); the number of rounds that were run is reported in the coverage
    tot, _ = ctx.driver(exe, ['--out', obs, '--stress', rounds, '--seed', ctx.seed,
                              '--maxms', 300000 if thorough else 20000], INV_WHAT,
                        label='free-running producers x consumers', allow_incomplete=True,
                        timeout=1500 if thorough else 300)
    ctx.validate(SPEC, 'MpmcObs.tla', 'MpmcObs.cfg', obs, INV_WHAT, executions=tot.get('executions', 0),
                 label='free-running rounds: exactly-once, per-producer FIFO, quiescent exactness, lifetimes',
                 timeout=3000 if thorough else 900)
    ctx.cov['free_running_rounds'] = tot.get('executions', 0)
    ctx.sample_trace(obs, 3)
    ctx.assumptions += [
        'free-running rounds (E5): only per-thread program order and quiescent points (all threads returned) are used to '
        'order operations; a round that does not finish within 10 s of wall-clock time counts as stuck (an accepted '
        'element never reached a pop)',
        'TLA+ interleaving semantics are sequentially consistent (weak-memory effects are C10)',
        'payload operations between two schedule points are atomic w.r.t. other threads only under the controlled scheduler',
        'TLC, the JSON/IOUtils community modules and g++ are trusted',
    ]
