"""C27 - pipeline delivers every item through every stage exactly once (DESIGN 5.4 / C27).

E1  TLC, exhaustive, on spec/pipeline (Gate.tla = LimitGatedScheduler::Impl one action per atomic access /
    queue call, Pipeline.tla = generator instances, chained gates, the caller's waits, task-set cancellation,
    abstract pool): AtMostOnce, InputIsPredecessorsOutput, AllDelivered (returned normally => every item ran
    exactly the stages it reaches, queues empty, counters at rest), SingleRuns, over 1..4 stage pipelines,
    limits {1, 2, unlimited}, <= 4 items, pool 0..2, inline / queued submission, incl. the hand-off race.
    Negative control: the one-stage pipeline on a zero-thread pool before the fix (nothing ran).
E3/E4  REAL pipelines on the REAL pool under the controlled scheduler (random + PCT schedules, pools 0..3,
    fixed and random shapes, filtering stages, follow-up pipelines), every step validated by TLC
    (PipelineTrace.tla: hook sites -> Gate/Pipeline actions, in-body begin/end notes, projection of every
    gate's resources_/outstanding_/queue size and the task set's words after every event).
"""
import random

import pipe_common as pc

WHAT = 'pipeline delivers every item through every stage exactly once'
VAC = ('PlCatch', 'PlGuardRel', 'PlWtDiscDeq', 'PlWtDiscDec', 'PlWtAcqDec', 'TaskSkip', 'Terminated')


def _e1(ctx, thorough):
    ctx.check_model(pc.SPEC, 'MCPipeline.tla', 'MC_clean.cfg', WHAT, workers=4, vacuity_exempt=VAC,
                    label='10 clean configurations: 1..4 stages, limits 1/2/unlimited, pool 0..2, <= 4 items')
    pc.negative_control(ctx, 'MC_neg_single.cfg', 'AllDelivered', 'one-stage pipeline on a zero-thread pool before the fix')
    if thorough:
        ctx.check_model(pc.SPEC, 'MCPipeline.tla', 'MC_clean_big.cfg', WHAT, workers=4, vacuity_exempt=pc.SUPP, timeout=1500,
                        label='larger clean configurations (3 workers, 4 items, 4 stages)')
        ctx.check_model(pc.SPEC, 'MCPipeline.tla', 'MC_live.cfg', WHAT + ' (termination under fairness)', workers=4, vacuity_exempt=pc.SUPP, timeout=1500,
                        label='liveness: <>Returned')


def run(ctx):
    thorough = ctx.tier == 'thorough'
    exe = pc.build(ctx)
    if not pc.traces_only():
        _e1(ctx, thorough)
    pc.cleanup()
    rng = random.Random(ctx.seed)
    fixed = [
        pc.cfg(0, [2], 0, 3) + '|' + pc.cfg(1, [1, 1], 0, 2),                       # one stage, zero-thread pool
        pc.cfg(1, [1, 1], 1, 4),                                                    # serial sink: hand-off race
        pc.cfg(2, [1, 1, 1], 2, 4, filt=[(1, 2)]),
        pc.cfg(2, [2, 2, 1], 3, 4, raw=0) + '|' + pc.cfg(2, [1, 1, 1], 3, 3, raw=1),
        pc.cfg(3, [1, 2, 99, 1], 2, 3, filt=[(2, 1)]),
        pc.cfg(2, [1, 99, 2], 1, 3, api=1),
        pc.cfg(1, [1, 1], 1, 40),      # serial stage with more queued items than the inline depth limit (32)
        # transforms wrapped as dispenso::stage(f, 1) that return a REFERENCE (const Item&) to a result buffer they reuse for
        # the next item (driver kind ops=2): the result has to be taken while the serial slot is held.  Generator limit > 1 and
        # few workers give the stage a backlog, so its completion callback chains the next item (which overwrites the buffer);
        # the receiving stage logs the identity found in what it RECEIVED, so a late read is an item delivered twice / lost.
        pc.cfg(2, [2, 1, 1], 1, 4, ops=[2]),
        pc.cfg(3, [3, 1, 1, 2], 2, 4, ops=[2, 2]) + '|' + pc.cfg(3, [1, 1, 1, 1], 2, 3, filt=[(1, 2)], ops=[1, 2]),
        pc.cfg(2, [1, 1, 99], 0, 3, ops=[2]),
    ]
    progs = fixed + [_rand_prog(rng) for _ in range(20 if thorough else 4)]
    n = 12 if thorough else 3
    tr, tot = pc.run_programs(ctx, exe, progs, n, ctx.seed, WHAT, 'fixed and random clean pipelines')
    if thorough:
        # a serial stage with more queued items than the inline depth limit (32): depth-guard path
        deep = [pc.cfg(2, [1, 1, 1], 1, 40), pc.cfg(1, [1, 1], 2, 40), pc.cfg(1, [1, 1], 0, 36)]
        pc.run_programs(ctx, exe, deep, 4, ctx.seed + 1, WHAT, 'serial stage deeper than the inline depth limit', maxsteps=60000)
        san = pc.build(ctx, sanitize=True)
        pc.run_programs(ctx, san, progs[:12], 3, ctx.seed + 2, WHAT, 'sanitised build', sanitized=True)
    ctx.sample({'programs': progs[:8]})
    ctx.sample_trace(tr, 14, skip=30)
    ctx.assumptions += pc.ASSUME


def _rand_prog(rng):
    c, p = pc.random_cfg(rng, False, refs=True)
    if rng.random() < 0.4:
        c += '|' + pc.random_cfg(rng, False, p=p, refs=True)[0]
    return c
