"""C44 - bit-math helpers are correct for all inputs (dispenso/detail/math.h, platform.h, util.h).

E1  TLC, exhaustive over EVERY W-bit word of reduced widths (W = 8, 12; thorough also 4, 16), one state
    per word, spec/pure/Bits.tla + MCBits.tla (same run: the transcribed algorithms at the real widths
    32 / 64 on all words with <= 2 set bits, all runs, all complements of one bit): the algorithms transcribed from the C++ source
    (smear-and-increment nextPow2, table-driven log2const incl. the literal 32/64-bit tables, the
    portable ctz / popcount loops, add-mask-and-clear alignToCacheLine, the alignedMalloc address
    arithmetic) equal the bit-set definitions, and the bit-set definitions equal the number-level
    mathematical definitions (smallest power of two >= v, floor(log2 v), ...).
E5  the COMPILED 32/64-bit functions (detail:: and the public dispenso:: wrappers, runtime and
    constexpr evaluation) on all words with <= 2 set bits, all 2^k +- 1, all complements of one
    bit, all contiguous runs, seeded random words; alignedMalloc(bytes, 2^k) for every k <= 16
    (address mod 2^k, distance to the malloc'd block).  Every record is validated by TLC
    (BitsTrace.tla): observed = definition.

The 64-bit claim is universally quantified over 2^64 inputs: no explicit-state tool can enumerate
them, so the evidence says exhaustive: false for W = 64 (level: exploration); exhaustive only for
the reduced widths.
"""
import json
import os

from vlib import ToolError

SPEC = 'spec/pure'
WHAT = 'bit-math helpers return the mathematically specified result'
LEVEL = 'exploration'


def _wide_class(w):
    """Size check only: the structured class MCBits.tla enumerates at a real width."""
    c = {frozenset()}
    for i in range(w):
        c.add(frozenset(range(w)) - {i})
        for j in range(i, w):
            c.add(frozenset((i, j)))
            c.add(frozenset(range(i, j + 1)))
    return c


def run(ctx):
    thorough = ctx.tier == 'thorough'
    exe = ctx.build('drv_bits', ['harness/drv/drv_bits.cpp', 'harness/ctl/ctl.cpp'])

    # E1 -------------------------------------------------------------------------------------
    # one TLC run, one state per (width, word): every word of the narrow widths, the structured
    # classes of the real widths 32 / 64
    narrow = [4, 8, 12, 16] if thorough else [8, 12]
    wide = [32, 64]
    res = ctx.check_model(SPEC, 'MCBits.tla', 'MC_bits_%s.cfg' % ctx.tier, WHAT,
                          label='every word of widths %s: algorithm = bit definition = number definition; '
                                'structured classes of widths %s: algorithm = bit definition' % (narrow, wide),
                          workers=4, timeout=1800)
    exhaustive_words = sum(2 ** w for w in narrow)
    wide_words = sum(len(_wide_class(w)) for w in wide)
    expected = exhaustive_words + sum(2 ** (w // 2) for w in narrow) + wide_words + sum(w + 1 for w in wide)
    if res.ok and res.distinct != expected:
        raise ToolError('MCBits explored %d states, expected %d' % (res.distinct, expected))

    # E5 -------------------------------------------------------------------------------------
    tr = os.path.join(ctx.work, 'bits.ndjson')
    nrand = 20000 if thorough else 1500
    tot, _ = ctx.driver(exe, ['--out', tr, '--seed', ctx.seed, '--random', nrand,
                              '--malloc', 6 if thorough else 2], WHAT, label='compiled helpers')
    crashed = ctx.violations > 0      # a driver crash (e.g. heap corruption) is already a reported violation
    try:
        # the records flushed before a crash are still judged by TLC (they contain the offending one)
        ctx.validate(SPEC, 'BitsTrace.tla', 'BitsTrace.cfg', tr, WHAT, executions=1, label='compiled helpers',
                     timeout=1500)
    except ToolError:
        if not crashed:
            raise
    if crashed:
        return

    # measured coverage of the record file (vacuity guard: every helper must have been observed)
    seen = {}
    distinct = {32: set(), 64: set()}
    classes = {}
    n_am = 0
    am_k = set()
    samples = []
    with open(tr) as f:
        for line in f:
            ev = json.loads(line)
            if ev['e'] in ('w', 'ce'):
                for k in ev:
                    if k not in ('e', 'W', 'cls', 'v', 'line'):
                        seen[(ev['W'], k)] = seen.get((ev['W'], k), 0) + 1
                distinct[ev['W']].add(tuple(ev['v']))
                classes[ev['cls']] = classes.get(ev['cls'], 0) + 1
                if len(samples) < 3 and ev['cls'] in ('rnd', 'constexpr') or (len(samples) < 2 and len(ev['v']) == 2):
                    samples.append(ev)
            elif ev['e'] == 'am':
                n_am += 1
                am_k.add(ev['k'])
                if ev['k'] == 12 and len(samples) < 5:
                    samples.append(ev)
    need = [(64, f) for f in ('np2', 'np2P', 'l2c', 'l2cP', 'l2', 'l2P', 'ctz', 'pop', 'al', 'alP')] + \
           [(32, 'l2c'), (32, 'l2')]
    missing = [n for n in need if not seen.get(n)]
    if missing or am_k != set(range(17)):
        raise ToolError('vacuous E5 run: helpers never observed: %s; alignments %s' % (missing, sorted(am_k)))
    for s in samples:
        ctx.sample(s)
    n64 = len(distinct[64])
    n32 = len(distinct[32])
    ctx.cov.update({
        'evaluations': sum(seen.values()) + n_am,
        'distinct_nontrivial': n64 + n32 + n_am,
        'rule': 'E5 inputs: all 64/32-bit words with <= 2 set bits, 2^k-1, 2^k+1, ~(2^k), all contiguous runs, '
                'seeded random words (uniform / sparse / dense / random width), constexpr evaluation on 2^k-1,2^k,2^k+1, '
                'alignedMalloc(bytes, 2^k) for k = 0..16 with fixed and random sizes; distinct = distinct input '
                'words per width (measured from the record file) + alignedMalloc calls; an evaluation is one '
                'helper result judged by TLC',
        'exhaustive': False,
        'exhaustive_detail': {
            'W=64': {'exhaustive': False, 'distinct_words': n64},
            'W=32': {'exhaustive': False, 'distinct_words': n32},
            'reduced widths %s' % narrow: {'exhaustive': True, 'words': exhaustive_words},
            'transcribed algorithms at W=32/64 (TLC)': {'exhaustive': False, 'words': wide_words},
        },
        'helper_observations': {'%d:%s' % k: v for k, v in sorted(seen.items())},
        'input_classes': classes,
        'aligned_malloc_records': n_am,
    })
    ctx.assumptions += [
        'W = 64 / 32: not exhaustive; the structured classes exhaust highest bit x lowest bit and all run shapes, on '
        'which the results of the helpers depend; width-independence of the transcribed algorithms is argued from '
        'the exhaustive reduced-width runs, not proved',
        'documented preconditions respected: nextPow2 v <= 2^63, log2/log2const/countTrailingZeros v != 0, '
        'alignToCacheLine without wrap, alignedMalloc alignment a power of two and malloc succeeds',
        'only the code paths selected by this platform (x86-64 gcc: bsr asm, __builtin_ctzll/popcountll) are '
        'executed in E5; the portable fallbacks are covered by E1 only',
        'TLC, the JSON/IOUtils community modules and g++ are trusted',
    ]
