"""C47 - schedule(f, ForceQueuingTag) never runs the functor on the caller (pool with >= 1 thread)."""
import random
import pool_common as pc
from C01 import VAC
WHAT = 'ForceQueuingTag submissions are never executed inside the submitting call on a pool with threads'


def run(ctx):
    thorough = ctx.tier == 'thorough'
    # the spec's TpFqLoadThreads runs the functor inline iff numThreads_ == 0 and for nothing else; every recorded step
    # of the real code that runs a task inside a submitting call must therefore be that step with numThreads_ == 0
    ctx.check_model(pc.SPEC, 'MCPool.tla', 'MC_q2_basic.cfg' if not thorough else 'MC_q_basic.cfg', WHAT,
                    label='fq (+ sched) + destructor', workers=8, required=('TpFqLoadThreads', 'TpAddWork', 'TpEnqueue'), timeout=3000, heap='16g')
    exe = pc.build(ctx, 2)
    rng = random.Random(ctx.seed + 47)
    progs = ['main:new1,fq1,fq2,fq3,fq4,del', 'main:new2,pfq1,pfq2,placed3,pfq4,del', 'main:new2,up,fq1,fq2,sync,del;p2:up,fq5,fq6,sched7',
             'main:new2,bulk1.3,fq4,fq5,resize1,fq6,del']
    progs += pc.random_programs(rng, 8 if thorough else 2, ['fq', 'fq', 'sched', 'bulk'], resize=False)
    progs = [p for p in progs if 'new0' not in p]
    n = 25 if thorough else 6
    tr = None
    for i, p in enumerate(progs):
        # mult=1: the load factor is tiny, so plain schedule() does run inline while FQ must not
        tr = pc.validate_prog(ctx, exe, 2, p, WHAT, n, ctx.seed + i, mult=1)
    ctx.sample({'programs': progs})
    ctx.sample_trace(tr, 12, skip=30)
    # TaskSet / ConcurrentTaskSet half of the property (spec/taskset/TaskSet.tla, drv_taskset)
    import c47_taskset
    c47_taskset.run_taskset_part(ctx)
    # E5, allocation failure inside the central queue's enqueue (spec/pool/FqFaultObs.tla, drv_fqfault): the one branch of
    # the force-queued paths that the controlled engines above can never take - under them the queue always has memory -
    # and on which the property must hold all the same (ThreadPool, TaskSet, ConcurrentTaskSet light / heavy)
    import c47_fqfault
    c47_fqfault.run_fqfault_part(ctx)
    ctx.assumptions += pc.ASSUME
