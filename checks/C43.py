"""C43 - CpuSet set algebra, CPU-list parsing and grouping are correct (dispenso/cpu_set.h, cpu_set.cpp).

E1  TLC, one run of spec/pure/MCCpuSet.tla (CpuList.tla, Grouping.tla), exhaustive on bounded domains:
    - the parser transcribed from cpu_set.cpp yields exactly the in-range ids denoted by EVERY well-formed
      string over a 6-symbol alphabet up to length 5 (thorough: 7);
    - the transcribed range-checked set operations (Linux and portable branch) equal the set-theoretic
      definitions for every set over a reduced id space and every argument incl. negative / huge / int32
      extremes, and at the real bound 1024 for boundary sets and arguments;
    - the transcribed packing algorithm satisfies every promised grouping property for EVERY well-formed
      cache topology over 3 CPUs (thorough: 4; of those at most 20000, every k-th, are fed to the code).
E2  direction spec -> code: the strings and topologies enumerated by that TLC run are fed to the compiled
    parseLinuxCpuList / buildGroupsFromCacheTopology.
E5  the compiled code on the TLC-generated inputs, boundary inputs and seeded random inputs (random
    executions of set operations with ids incl. negative and huge ones, random CPU lists, random
    synthetic cache topologies); every observation record is validated by TLC (CpuSetTrace.tla).
"""
import json
import os
import re

from vlib import ToolError

SPEC = 'spec/pure'
WHAT = 'CpuSet set algebra / CPU-list parsing / cache-topology grouping'


def _gen_inputs(out, path, max_topo):
    """Glue only: copies the inputs TLC enumerated (PrintT(ToJson(..)) lines) into the driver's format.
    All strings are kept; if TLC enumerated more than max_topo topologies every k-th one is kept (selection by
    position only, no look at the content)."""
    nstr = ntopo = 0
    lines = [l for l in out.splitlines() if l.startswith('"[\\"GEN')]
    total_topo = sum(1 for l in lines if 'GENTOPO' in l[:14])
    stride = max(1, -(-total_topo // max_topo))
    seen_topo = 0
    with open(path, 'w') as f:
        for line in lines:
            v = json.loads(json.loads(line))
            if v[0] == 'GENTOPO':
                seen_topo += 1
                if seen_topo % stride:
                    continue
            if v[0] == 'GENSTR':
                f.write('P %d %s\n' % (len(v[1]), ' '.join(str(c) for c in v[1])))
                nstr += 1
            else:
                m, l2, l3 = v[1], v[2], v[3]
                groups = lambda t: '%d %s' % (len(t), ' '.join('%d %s' % (len(g), ' '.join(map(str, g))) for g in t))
                f.write('G %d %s %s\n' % (m, groups(l2), groups(l3)))
                ntopo += 1
    return nstr, ntopo, total_topo


def run(ctx):
    thorough = ctx.tier == 'thorough'
    exe = ctx.build('drv_cpuset', ['harness/drv/drv_cpuset.cpp', 'harness/ctl/ctl.cpp'], dispenso=['cpu_set.cpp'])
    exe_portable = ctx.build('drv_cpuset_portable', ['harness/drv/drv_cpuset.cpp', 'harness/ctl/ctl.cpp'],
                             dispenso=['cpu_set.cpp'], flags=['-U__linux__', '-U__linux', '-Ulinux'])

    # E1 (+ generation of the E2 inputs) --------------------------------------------------------
    res = ctx.check_model(SPEC, 'MCCpuSet.tla', 'MC_cpuset_%s.cfg' % ctx.tier, WHAT,
                          label='all strings / all small sets x args / all small topologies: algorithm = definition',
                          workers=4, timeout=3000)
    if not res.ok:
        return
    inputs = os.path.join(ctx.work, 'tlc_inputs.txt')
    nstr, ntopo, total_topo = _gen_inputs(res.out, inputs, 20000)
    if nstr < 1000 or ntopo < 500:
        raise ToolError('TLC generated too few inputs: %d strings, %d topologies' % (nstr, ntopo))
    ctx.cov['tlc_generated_inputs'] = {'strings': nstr, 'topologies_fed': ntopo, 'topologies_enumerated': total_topo}

    # E5 -------------------------------------------------------------------------------------------
    tr = os.path.join(ctx.work, 'cpuset.ndjson')
    args = ['--out', tr, '--inputs', inputs, '--seed', ctx.seed]
    args += ['--ops', 1000, '--oplen', 14, '--randstr', 10000, '--randtopo', 6000] if thorough else \
            ['--ops', 100, '--oplen', 12, '--randstr', 800, '--randtopo', 600]
    tot, _ = ctx.driver(exe, args, WHAT, label='compiled CpuSet (Linux cpu_set_t branch)')
    # the portable branch (uint64_t words_[], used where there is no native affinity set): same driver
    # compiled with -U__linux__; its records are appended to the same trace
    tr2 = os.path.join(ctx.work, 'cpuset_portable.ndjson')
    args2 = ['--out', tr2, '--seed', ctx.seed + 1, '--noedge']
    args2 += ['--ops', 500, '--oplen', 14, '--randstr', 2000, '--randtopo', 1000] if thorough else \
             ['--ops', 70, '--oplen', 12, '--randstr', 150, '--randtopo', 100]
    tot2, _ = ctx.driver(exe_portable, args2, WHAT, label='compiled CpuSet (portable bitset branch)')
    if ctx.violations:
        return
    with open(tr, 'a') as f, open(tr2) as g:
        f.write(g.read())
    tot['completed'] = tot.get('completed', 0) + tot2.get('completed', 0)
    vres = ctx.validate(SPEC, 'CpuSetTrace.tla', 'CpuSetTrace.cfg', tr, WHAT, executions=tot.get('completed', 0),
                        label='compiled CpuSet', timeout=3000)
    if vres.violation:
        return
    m = re.search(r'"TRACE_STATS",\s*"(.*)"', vres.out)
    if not m:
        raise ToolError('trace statistics missing from the TLC output')
    stats = json.loads(m.group(1).replace('\\"', '"'))
    # vacuity guards: every record class must have been judged
    for k, least in (('ops', 1500), ('wf', 3000), ('beyond', 50), ('malformed', 50), ('groups', 1500)):
        if stats.get(k, 0) < least:
            raise ToolError('vacuous E5 run: only %d %s records' % (stats.get(k, 0), k))
    if stats.get('algDiffers', 0):
        # not a property violation: the transcription of the parser (E1) does not describe the compiled parser
        raise ToolError('the transcribed parser (CpuList.tla ParseAlg) differs from the compiled parser on %d '
                        'recorded strings: the E1 result does not transfer, fix the transcription' % stats['algDiffers'])
    ctx.cov['record_classes'] = stats
    ctx.cov['exhaustive'] = False
    ctx.cov['explanation'] = (
        'exhaustive for the bounded domains of the E1 run (strings over 6 symbols up to the length bound, reduced '
        'id space, topologies over 3-4 CPUs); E5 = TLC-generated + boundary + seeded random inputs. '
        'beyondDiffers = strings of the right shape whose numerals exceed kMaxReasonableCpuId (2^20) on which the '
        'compiled parser drops ids the string denotes (outside the promised grammar, reported in notes_C43.md).')
    # samples
    picked = {}
    with open(tr) as f:
        for line in f:
            ev = json.loads(line)
            key = ev['e'] + ':' + ev.get('src', '')
            if key not in picked and ev['e'] != 'Reset' and (ev['e'] != 'parse' or len(ev['s']) > 4):
                picked[key] = ev
                if len(picked) >= 8:
                    break
    for ev in list(picked.values())[:8]:
        ctx.sample(ev)
    ctx.assumptions += [
        'R1: CPU-list grammar = comma separated items, item = "" | num | num-num, decimal numerals <= 2^20 '
        '(kMaxReasonableCpuId), lo <= hi; other strings are recorded but only judged for representation invariants '
        '(and, when only the numeral bound is exceeded, for "no id that is not denoted")',
        'R1: cache topologies are hierarchies: non-negative ids, a CPU in at most one L2 and one L3 group, every L2 '
        'group inside one L3 group or outside all of them',
        'both set representations are executed: the Linux cpu_set_t branch and (compiled with -U__linux__) the '
        'portable uint64_t[] branch; the Windows branch is not compiled',
        'TLC, the JSON/IOUtils community modules and g++ are trusted',
    ]
