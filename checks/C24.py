"""C24 - AsyncRequest delivers each update at most once.

E1  TLC, exhaustive, on the implementation-level spec spec/asyncreq/AsyncReq.tla (one action per
    access to state_ / obj_): AtMostOnce, DeliveredFresh, EmplaceOnlyWhenRequested, SlotExclusive,
    NoOverwrite, ResultsMatch, StateDescribesSlot, NoLeakAfterDestroy in every state of every
    interleaving of 1..3 consumers x 1..3 producers, <= 4 ops per thread, for the three move
    semantics of the optional behind AsyncRequest (C++14 detail::OpResult; C++17 std::optional with
    a payload that zeroes / keeps its source on move).
    Negative control: the same model with getUpdate() as originally found (plain load instead of a
    claiming CAS) must violate the invariants - otherwise the model would be blind to the defect.
E2  every transition of the cover configuration's state graph is replayed in the real AsyncRequest
    under the controlled scheduler, in the C++14 build and in the C++17 build (both payloads) ...
E3  ... and every recorded step (action, thread, returned value, state_, object in obj_, number of
    live payload objects, lifetime errors) is validated by TLC (AsyncReqTrace.tla), invariants on.
E4  random controlled schedules (uniform and PCT) of random programs, all three builds/payloads.
E5  free-running rounds (drv_asyncreq --stress): 1..3 consumers and 1..3 producers hammer one fresh
    AsyncRequest per round truly concurrently, hook points inert, so the interleavings INSIDE a step of
    the specification occur (a CAS split into load + store is invisible to E2-E4).  One record per
    round (what every call returned, per thread in program order, + state at quiescence), judged by
    TLC with AsyncReqObs.tla: fresh, at most once, never lost, only when requested, hand-over order.
"""
import os
import shutil

SPEC = 'spec/asyncreq'
WHAT = 'AsyncRequest at-most-once delivery'
COVER_PROG = 'c1:req,get;c2:get;p1:emp1;p2:chk,emp2'


def cat(out, parts):
    with open(out, 'wb') as o:
        for p in parts:
            if usable(p):
                with open(p, 'rb') as f:
                    shutil.copyfileobj(f, o)
    return out



def usable(trace):
    """A driver that crashed may leave a truncated last line: drop it (the crash itself has been
    reported); returns False when nothing is left to validate."""
    try:
        data = open(trace, 'rb').read()
    except OSError:
        return False
    if data and not data.endswith(b'}\n'):
        data = data[:data.rfind(b'\n') + 1]
        open(trace, 'wb').write(data)
    return data.count(b'\n') >= 2


def run(ctx):
    thorough = ctx.tier == 'thorough'
    srcs = ['harness/drv/drv_asyncreq.cpp', 'harness/ctl/ctl.cpp']
    exe14 = ctx.build('drv_asyncreq', srcs)
    exe17 = ctx.build('drv_asyncreq17', srcs, flags=['-std=c++17'])
    builds = [('cxx14', exe14, 'tracked'), ('cxx17', exe17, 'tracked'), ('cxx17pod', exe17, 'pod')]

    # E1 -------------------------------------------------------------------------------------
    dot = os.path.join(ctx.work, 'cover.dot')
    ctx.check_model(SPEC, 'MCAsyncReq.tla', 'MC_cover.cfg', WHAT, label='cover 2C+2P', dump=dot, workers=4)
    ctx.check_model(SPEC, 'MCAsyncReq.tla', 'MC_all_Quick.cfg', WHAT, workers=4,
                    label='1x1, 2x2 (3 move semantics), 3x1, 1x3; 3-4 ops per thread')
    if thorough:
        ctx.check_model(SPEC, 'MCAsyncReq.tla', 'MC_all_Thorough.cfg', WHAT, workers=4, timeout=900,
                        label='3x1, 1x3, 3x3 (2 ops) for all move semantics')
        ctx.check_model(SPEC, 'MCAsyncReq.tla', 'MC_all_Big.cfg', WHAT, workers=4, timeout=1000, heap='16g',
                        label='3x3, 3 ops per thread')
    # negative control: the original getUpdate() (no claim) must be caught by the same invariants
    neg = ctx.tlc(SPEC, 'MCAsyncReq.tla', 'MC_orig_clear.cfg', workers=4, count=False,
                  label='negative control: getUpdate without claim (original code)',
                  extra=['-noGenerateSpecTE'])
    ctx.cov['negative_control'] = neg.violation
    if not neg.violation:
        raise vlib_error('negative control passed: the model does not detect two consumers racing in getUpdate()')

    # E2 (cover replay) and E4 (random), then E3: ONE TLC validation of all recorded traces -------
    sched = os.path.join(ctx.work, 'cover.sched')
    ctx.cov['cover_graph'] = ctx.walker(dot, sched)
    # the C++17 builds replay the whole cover set in the thorough tier, the first 100 schedules in quick
    sched_short = os.path.join(ctx.work, 'cover_short.sched')
    with open(sched) as f, open(sched_short, 'w') as o:
        o.writelines(f.readlines()[:100])
    parts, execs = [], 0
    for name, exe, payload in builds:
        tr = os.path.join(ctx.work, 'cover_%s.ndjson' % name)
        use = sched if (thorough or name == 'cxx14') else sched_short
        tot, _ = ctx.driver(exe, ['--out', tr, '--prog', COVER_PROG, '--payload', payload, '--schedules', use],
                            WHAT, label='cover replay ' + name)
        parts.append(tr)
        execs += tot.get('completed', 0)
    ctx.sample_trace(parts[0], 16)
    n = 2500 if thorough else 150
    for name, exe, payload in builds:
        for pct in (0, 3):
            tr = os.path.join(ctx.work, 'rand_%s_p%d.ndjson' % (name, pct))
            tot, _ = ctx.driver(exe, ['--out', tr, '--payload', payload, '--random', n, '--seed', ctx.seed + pct,
                                      '--randprog', '--maxops', 4 if thorough else 3, '--pct', pct],
                                WHAT, label='random %s pct%d' % (name, pct))
            parts.append(tr)
            execs += tot.get('completed', 0)
    ctx.sample_trace(parts[-1], 10)
    tr = cat(os.path.join(ctx.work, 'all.ndjson'), parts)
    if usable(tr):
        ctx.validate(SPEC, 'AsyncReqTrace.tla', 'AsyncReqTrace.cfg', tr, WHAT, executions=execs,
                     label='cover replay + random (3 builds)', timeout=1800)
    # E5: free-running rounds, real threads, no controller: the windows BETWEEN two hook points --------------
    # (a round = up to 6 threads x 2..160 calls on one fresh object; TLC's JSON parsing dominates the cost)
    rounds = 24000 if thorough else 1200
    parts, execs = [], 0
    for name, exe, payload in builds:
        tr = os.path.join(ctx.work, 'stress_%s.ndjson' % name)
        tot, _ = ctx.driver(exe, ['--out', tr, '--stress', rounds, '--seed', ctx.seed, '--payload', payload], WHAT,
                            label='free-running rounds ' + name, allow_incomplete=True, timeout=900)
        parts.append(tr)
        execs += tot.get('executions', 0)
    tr = cat(os.path.join(ctx.work, 'stress_all.ndjson'), parts)
    if usable(tr):
        ctx.validate(SPEC, 'AsyncReqObs.tla', 'AsyncReqObs.cfg', tr, WHAT, executions=execs,
                     label='free-running rounds (3 builds): fresh, at most once, never lost, requested, ordered',
                     timeout=1800)
    ctx.cov['free_running_rounds'] = execs
    ctx.assumptions += [
        'free-running rounds (E5) observe only what the public API returned to each thread (in program order) plus '
        'state_, one draining getUpdate() and the live payload count once every thread is done; no order between '
        'operations of different threads is assumed; a round that does not end within 10 s is recorded as stuck',
        'TLA+ interleaving semantics are sequentially consistent (weak-memory effects are C10)',
        'each access to the non-atomic obj_ (emplace / move-out) is one indivisible step; the invariant '
        'SlotExclusive shows that no two such accesses are ever concurrently enabled, which justifies it',
        'threads keep to the documented roles: consumers call requestUpdate/getUpdate, producers call '
        'updateRequested/tryEmplaceUpdate; any number of each',
        'TLC, the JSON/IOUtils community modules and g++ are trusted',
    ]


def vlib_error(msg):
    import vlib
    return vlib.ToolError(msg)
