"""C01 - every task handed to a ThreadPool runs exactly once (see DESIGN 5.0 / C01)."""
import os
import random
import re
import shutil
import subprocess
import pool_common as pc
import vlib
WHAT = 'ThreadPool runs every submitted task exactly once'


def prove_abstraction(ctx):
    """tlapm: for ANY task set and ANY behaviour of PoolAbs.tla - the abstraction ThreadPool.tla is checked to refine -
    every task runs at most once, only after submission, and nothing is pending once the pool is gone"""
    d = os.path.join(ctx.work, 'tlapm')
    os.makedirs(d, exist_ok=True)
    for f in ('PoolAbs.tla', 'PoolAbs_proofs.tla'):
        shutil.copy(os.path.join(vlib.ROOT, pc.SPEC, f), d)
    shutil.rmtree(os.path.join(d, '.tlacache'), ignore_errors=True)
    p = subprocess.run(['timeout', '600', 'tlapm', '--threads', '4', '--toolbox', '0', '0', 'PoolAbs_proofs.tla'], cwd=d,
                       stdout=subprocess.PIPE, stderr=subprocess.STDOUT, text=True)
    m = re.search(r'All (\d+) obligations? proved', p.stdout)
    if not m:
        raise vlib.ToolError('tlapm did not prove PoolAbs_proofs.tla: ' + p.stdout[-1500:])
    ctx.cov['tlapm'] = {'module': 'spec/pool/PoolAbs_proofs.tla', 'obligations': int(m.group(1)), 'proved': int(m.group(1)),
                        'theorems': ['InitInv', 'StepInv', 'Safety']}


def run(ctx):
    thorough = ctx.tier == 'thorough'
    prove_abstraction(ctx)
    ctx.check_model(pc.SPEC, 'MCPool.tla', 'MC_q2_basic.cfg', WHAT, label='2 workers: fq racing the workers and the destructor',
                    workers=8, required=('TpAddWork', 'TpEnqueue', 'TpStop', 'TpRzJoined', 'FutexWait', 'FutexWake'), timeout=1500)
    if thorough:
        ctx.check_model(pc.SPEC, 'MCPool.tla', 'MC_q_basic.cfg', WHAT, label='2 workers: fq, sched, destructor', workers=12,
                        required=('TpAddWork', 'TpEnqueue', 'TpStop', 'TpRzJoined', 'FutexWait', 'FutexWake'), timeout=3000, heap='16g')
        ctx.check_model(pc.SPEC, 'MCPool.tla', 'MC_idle_bulk.cfg', WHAT, label='3 workers: bulk from idle', workers=8, required=('TpBulkLoadThreads', 'TpStop', 'TpRzJoined', 'FutexWait', 'FutexWake'))
    exe = pc.build(ctx, 2)
    rng = random.Random(ctx.seed)
    progs = ['main:new2,fq1,sched2,bulk3.2,del', 'main:new0,fq1,sched2,bulk3.2,del',
             'main:new2,up,fq1,sched2,sync,del;p2:up,fq5,bulk6.2', 'main:new1,wake0,fq1,bulk2.3,del']
    progs += ['main:new2,up,placed1,pfq2,sched3,sync,del;p2:up,pfq5,placed6,fq7', 'main:new2,rbulk1.2,pfq3,placed4,rbulk5.2,pfq7,del']
    progs += pc.random_programs(rng, 10 if thorough else 2, ['fq', 'sched', 'bulk', 'placed', 'pfq'])
    n = 30 if thorough else 6
    tr = None
    for i, p in enumerate(progs):
        tr = pc.validate_prog(ctx, exe, 2, p, WHAT, n, ctx.seed + i, mult=(1 if i % 2 else 32), pct=(3 if i % 3 == 0 else 0))
    ctx.sample({'programs': progs[:6]})
    pc.stress(ctx, WHAT, 4000 if thorough else 400, 0)
    ctx.sample_trace(tr, 12, skip=40)
    ctx.assumptions += pc.ASSUME


VAC = ('TpInlineCheck', 'DrRingCheck', 'GateUp', 'GateIdle', 'GateQuiet', 'GateOthers', 'TpBulkLoadThreads',
       'TpBulkLoadCheck', 'BeAddWorkN', 'BeEnqueueBulk', 'BeSetFlag', 'BeLoadWake', 'BeReadSleeping',
       'BeReadNotWorking', 'RbAddWorkN', 'RbLoadRingCount', 'RbLoadWake1', 'RbPushRing', 'RbbPushRingBatch',
       'RbLoadWake2', 'PwSeedReadSleeping', 'PwSeedReadMask', 'PwCascadeReadMask', 'TpRzGrowRings',
       'TpRzStoreNumRings', 'TpRzStoreNumSteal', 'TpRzStoreWake', 'TpRzStoreLoadFactor', 'TpRzStoreNumThreads',
       'TpRzStoreNotWorking', 'TpStoreEnable', 'TpWkPopSteal', 'TpWkReadStealMask', 'TpWkCrossSteal',
       'TpWkClearStealBit', 'TpWkFlushBatch', 'TpWkDecNotWorking2', 'TpDecWork2', 'TpRzDrainSteal', 'TpRzDrainRing',
       'TpDecWorkRz', 'FutexTimeout', 'Terminated', 'TpSetFlagWk', 'TpWkSizeApprox', 'PwStoreNextGroup',
       'PwClaim', 'PwClaimReadMask', 'PwReadNextGroup', 'PwClaimReadSleeping', 'FutexWake', 'EwBump',
       'CwReadPending', 'CwReadSleeping', 'TpWkIncNotWorkingX', 'TpWkIncNotWorkingS', 'TpWkDecNotWorkingF',
       'TpWkFlushFinal', 'TpWkDequeue', 'TpWkClearFlag', 'TpStealCentral', 'PwAllReadMask', 'TpWkPopRing',
       'TpEnqueue', 'TpSetFlagEnq', 'TpAddWork', 'TpFqLoadThreads', 'CwLoadWake', 'TpStop', 'TpRzLoadWake', 'TpRzJoined')
