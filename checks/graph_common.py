"""Shared machinery of the task-graph checks (C30 C31): spec/graph, harness/drv/drv_graph.cpp."""
import json
import os
import random
import sys

import vlib
import pool_common

SPEC = 'spec/graph'
ASSUME = [
    'contract (R1): the graph is acyclic; setAllNodesIncomplete() or ONE ForwardPropagator pass (not after '
    'setAllNodesIncomplete, not twice) precedes every evaluation; no build/mark call runs concurrently with an evaluation; '
    'ConcurrentTaskSetExecutor is used with wait=true',
    'the ThreadPool / TaskSet / parallel_for are taken as correct schedulers here (their own properties: C01-C09, C12-C17); '
    'in the model the pool is an abstract bag of ready tasks, in the traces it is the real pool under the controlled scheduler',
    'sequentially consistent interleavings (the relaxed/acq_rel orders of the counters are C10); node functors only '
    'log (two schedule points per functor so that functors really overlap under the controlled scheduler)',
    'big-mode runs (graphs up to 200 nodes) use a free-running pool: only the order of the begin/end records taken inside '
    'the functors is used (R3); the structure is compared with the specification before and after each evaluation',
    'TLC, the JSON/IOUtils community modules and g++ are trusted; TLC worker stack raised with -Xss for the 200-node traces',
]

OPMAP = {'Sub': 'sub', 'Add': 'add', 'Dep': 'dep', 'Bi': 'bi', 'Clr': 'clr', 'Mk': 'mark', 'All': 'setall',
         'Prop': 'prop', 'Ev': 'eval'}


def build(ctx):
    return ctx.build('drv_graph', ['harness/drv/drv_graph.cpp', 'harness/ctl/ctl.cpp'],
                     dispenso=vlib.DISPENSO_SRCS, flags=pool_common.TUNE + ['-DDISPENSO_TUNE_WAKE_GROUP_SIZE=2'])


def _walker():
    sys.path.insert(0, os.path.join(vlib.ROOT, 'bin'))
    import walker
    return walker


def programs_from_dot(ctx, dot, out, kind, max_paths=None):
    """E2: edge cover of the model's state graph -> driver programs (one per path).  The evaluation
    steps of the model (single-thread executor) are dropped: the driver's eval runs the executor it is
    told to use; what is replayed are the model's build / mark / propagate / evaluate sequences."""
    w = _walker()
    init, edges, nodes, nedges = w.load(dot)
    if init is None:
        raise vlib.ToolError('no initial state in ' + dot)
    paths, total, covered = w.cover(init, edges, max_paths)
    progs = []
    seen = set()
    acts = {}
    for p in paths:
        ops = []
        for lab in p:
            st = w.parse_label(lab)
            if st is None:
                continue
            acts[st['a']] = acts.get(st['a'], 0) + 1
            m = OPMAP.get(st['a'])
            if not m:
                continue
            x = st.get('x', [])
            if m in ('add', 'clr', 'mark'):
                ops.append('%s%s' % (m, x[0]))
            elif m in ('dep', 'bi'):
                ops.append('%s%s.%s' % (m, x[0], x[1]))
            else:
                ops.append(m)
        if ops and ops[-1] not in ('eval',):
            # a path that stops in the middle of a build: finish with a full evaluation so that the
            # end state is judged too
            if any(o.startswith('add') for o in ops):
                ops += ['setall', 'eval']
        t = ','.join(ops)
        if t and t not in seen:
            seen.add(t)
            progs.append(t)
    with open(out, 'w') as f:
        for t in progs:
            f.write('%s %s\n' % (kind, t))
    try:
        os.remove(dot)
    except OSError:
        pass
    info = {'nodes': len(nodes), 'edges': nedges, 'reachable_edges': total, 'covered_edges': covered,
            'paths': len(paths), 'programs': len(progs), 'actions': acts}
    return progs, info


def write_programs(path, kind, progs):
    with open(path, 'w') as f:
        for t in progs:
            f.write('%s %s\n' % (kind, t))


def validate(ctx, trace, what, tot, label, big=False):
    # the 200-node observation lines need a deeper TLC worker stack (set operators nest per element)
    os.environ['JAVA_TOOL_OPTIONS'] = '-Xss512m'
    try:
        return ctx.validate(SPEC, 'GraphTrace.tla', 'GraphTraceBig.cfg' if big else 'GraphTrace.cfg', trace, what,
                            executions=tot.get('completed', 0), label=label)
    finally:
        os.environ.pop('JAVA_TOOL_OPTIONS', None)


def drive(ctx, exe, args, what, label):
    """run the driver; returns (trace file, totals)"""
    tr = os.path.join(ctx.work, label.replace(' ', '_').replace('/', '_') + '.ndjson')
    tot, _ = ctx.driver(exe, ['--out', tr] + list(args), what, label=label)
    return tr, tot


def validate_all(ctx, runs, what, label, big=False):
    """E3 for several recorded traces at once (executions are separated by Reset lines, one JVM start)."""
    out = os.path.join(ctx.work, label.replace(' ', '_') + '_all.ndjson')
    done = 0
    with open(out, 'w') as f:
        for tr, tot in runs:
            done += tot.get('completed', 0)
            with open(tr) as g:
                for line in g:
                    f.write(line)
    return validate(ctx, out, what, {'completed': done}, label, big=big)


def run_and_validate(ctx, exe, args, what, label, big=False):
    tr, tot = drive(ctx, exe, args, what, label)
    res = validate(ctx, tr, what, tot, label, big=big)
    return tr, tot, res


def negative_control(ctx, cfg, what, expect=None):
    """The specification of the code BEFORE the fix (MergeFix = FALSE) must violate the property."""
    res = ctx.tlc(SPEC, 'MCGraph.tla', cfg, workers=4, label='negative control: ' + what, timeout=600, count=False)
    ctx.cov.setdefault('negative_controls', []).append(
        {'cfg': cfg, 'what': what, 'violation': res.violation, 'states': res.distinct})
    if not res.violation or (expect and expect not in res.violation):
        raise vlib.ToolError('negative control %s did not produce the expected violation (%s): %s'
                             % (cfg, what, res.violation))
    for f in os.listdir(os.path.join(vlib.ROOT, SPEC)):
        if '_TTrace_' in f:
            os.remove(os.path.join(vlib.ROOT, SPEC, f))
    return res


VAC = ('Sub', 'Clr', 'Mk', 'Prop', 'All', 'Bi', 'Dep', 'Ld')   # bounded out in some configurations
