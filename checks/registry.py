"""Single source for MANIFEST.json: one entry per claimed property."""
CHECKS = {
    'C34': dict(
        level='model_checking',
        text='TLC exhaustively checks the atomic-step spec of MpmcRingBuffer (all interleavings of 2P+2C, '
             'capacity 2/3, up to 3 ops per thread) for bounded/FIFO/exactly-once/lifetime invariants; every '
             'transition of the cover graph is replayed in the real ring under a controlled scheduler and each '
             'recorded step (action, thread, return value, head/tail/seq/live payload) is validated by TLC.',
        note='Sequentially consistent interleavings only (weak memory is C10); bounded programs; trusted: TLC, g++, '
             'the controlled scheduler (harness/ctl).',
        technique='TLA+ spec + TLC exhaustive model checking; TLC-graph transition-cover replay and TLC trace validation',
        design='5.6 C34'),
}

# components contributed as checks/reg_<ID>.json
import glob as _glob, json as _json, os as _os
for _f in sorted(_glob.glob(_os.path.join(_os.path.dirname(_os.path.abspath(__file__)), 'reg_*.json'))):
    _id = _os.path.basename(_f)[4:-5]
    if _os.path.exists(_os.path.join(_os.path.dirname(_f), _id + '.py')):
        CHECKS[_id] = _json.load(open(_f))
