"""C17 - static chunking arithmetic partitions ranges exactly.

PROOF  spec/parfor/Chunking_proofs.tla, checked by tlapm: for ALL naturals items, chunks >= 1 (and
       g >= 2, items = u*g): sizes sum to items, 1 <= transition <= chunks, sizes are ceil and
       ceil - g (non-negative; ceil is the ceiling, i.e. the balanced split), the quotient/remainder
       form of the result, and contiguity / sizes of the StaticChunkMapper boundaries (no wrap).
E1     TLC on the grid items 0..400 x chunks 1..40 x g 1..8 (g | items): the same properties plus
       the mapper exactly as parallel_for_staticImpl builds it (larger first, contiguous, count) and
       the for_each_n boundaries (bounded fall-back for anything tlapm does not discharge).
E5     the compiled staticChunkSize / staticChunkSizeGranular / public staticChunkSize on the grid
       and on values up to 2^62 (quotient/remainder form), and the real parallel_for with static
       chunking (pools 1..39 threads, g 1..8, sizes 0..400, int32/int64/uint8/uint16/uint64 incl.
       ranges at the type limits): each record validated by TLC against the spec operators.
       Boundary-biased inputs (the arithmetic serves 8/16/32/64-bit index types and a uint32_t
       granularity; a narrow fast path can only be wrong in a window of a few values next to a power
       of two): items, items / g, chunks and g next to 2^7 2^8 2^15 2^16 2^24 2^31 2^32 2^33 2^48 2^53
       2^62 2^63 at distances 0, +-1, +-2, +-chunks/2, +-(chunks-1), +-chunks, +-(chunks+1), -2*chunks
       ("wide" records, 63-bit values as 21-bit limbs), and the real static parallel_for over ranges of
       such sizes up to the whole domain of the 16/32-bit types and 2^63 - chunks for the 64-bit ones
       (body records boundaries only; "pfw" records) - same TLC run (ChunkingTrace.tla).
"""
import os
import re
import shutil
import subprocess
import time

import parfor_common as pc
import vlib

WHAT = 'static chunking arithmetic partitions ranges exactly'
LEVEL = 'proof'


def _defs(path, names):
    txt = open(path).read()
    out = {}
    for n in names:
        m = re.search(r'^' + re.escape(n) + r'\(.*?(?=\n\s*\n)', txt, re.S | re.M)
        out[n] = re.sub(r'\s+', ' ', re.sub(r'\\\*[^\n]*', '', m.group(0))).strip() if m else None
    return out


def run_tlapm(ctx):
    """Runs tlapm (fresh cache, under timeout) and records obligations / proved counts."""
    src = os.path.join(vlib.ROOT, pc.SPEC, 'Chunking_proofs.tla')
    names = ['StaticChunkSize', 'StaticChunkSizeGranular']
    a, b = _defs(src, names), _defs(os.path.join(vlib.ROOT, pc.SPEC, 'Chunking.tla'), names)
    if a != b or None in a.values():
        raise vlib.ToolError('Chunking_proofs.tla does not restate the definitions of Chunking.tla: %s vs %s' % (a, b))
    d = os.path.join(ctx.work, 'tlapm')
    os.makedirs(d, exist_ok=True)
    shutil.copy(src, d)
    t0 = time.time()
    info = {'module': 'Chunking_proofs.tla', 'obligations': 0, 'proved': 0, 'failed': None, 'timeout': False}
    limit = 1500 if ctx.tier == 'thorough' else 300
    try:
        p = subprocess.run(['timeout', str(limit), 'tlapm', '--threads', '4', '--stretch', '6', '--toolbox', '0', '0',
                            'Chunking_proofs.tla'],
                           cwd=d, stdout=subprocess.PIPE, stderr=subprocess.STDOUT, text=True)
        out = p.stdout
        m = re.search(r'All (\d+) obligations? proved', out)
        if m:
            info['obligations'] = info['proved'] = int(m.group(1))
            info['failed'] = 0
        else:
            m = re.search(r'(\d+)/(\d+) obligations? failed', out)
            if m:
                info['obligations'] = int(m.group(2))
                info['failed'] = int(m.group(1))
                info['proved'] = info['obligations'] - info['failed']
                info['failed_at'] = re.findall(r'File "[^"]*", line (\d+)', out)[:10]
            elif p.returncode == 124:
                info['timeout'] = True
            else:
                info['error'] = out[-1500:]
    except OSError as e:
        info['error'] = str(e)
    info['wall_s'] = round(time.time() - t0, 1)
    info['theorems'] = ['CeilFacts', 'SumExact', 'DivMul', 'GranularSumExact', 'MulLt', 'QuotRemForm',
                        'MapperContiguous']
    ctx.cov['tlapm'] = info
    ctx.cov['obligations'] = info['obligations']
    ctx.cov['discharged'] = info['proved']
    ctx.cov['checker_cmd'] = 'tlapm --threads 4 --stretch 6 --toolbox 0 0 spec/parfor/Chunking_proofs.tla'
    ctx.cov['trusted_base'] = ['tlapm (TLAPS) and its back-ends Z3/SMT, Zenon, Isabelle', 'TLC for the bounded part',
                               'the restated definitions equal those of Chunking.tla (text compared by the check)']
    vlib.log('tlapm: %s' % info)
    return info


def run(ctx):
    thorough = ctx.tier == 'thorough'
    exe_pf = pc.build_parfor(ctx)
    # drv_chunking also calls the real static parallel_for over huge ranges: same dispenso objects as drv_parfor
    exe_ch = ctx.build('drv_chunking', ['harness/drv/drv_chunking.cpp'], dispenso=vlib.DISPENSO_SRCS,
                       flags=pc.third_party_flag() + ['-g0'])
    bg = pc.Background(ctx, exe_pf, WHAT)
    bg.start('static17', ['--n', 2500 if thorough else 400])

    info = run_tlapm(ctx)
    proved_all = info.get('failed') == 0 and info['obligations'] > 0
    if not proved_all:
        # not a violation of the property: the claim falls back to the bounded TLC result below
        ctx.level = 'model_checking'
        ctx.assumptions.append('tlapm did not discharge every obligation (%s); the bounded TLC result is the claim'
                               % {k: info.get(k) for k in ('obligations', 'proved', 'failed', 'timeout')})

    pc.model(ctx, 'MCChunking.tla', 'MC_c17_thorough.cfg' if thorough else 'MC_c17_quick.cfg', WHAT, 'grid items x chunks x g')

    tr = os.path.join(ctx.work, 'chunking.ndjson')
    tot, _ = ctx.driver(exe_ch, ['--out', tr, '--tier', ctx.tier, '--seed', ctx.seed], WHAT,
                        label='compiled staticChunkSize*')
    ctx.validate(pc.SPEC, 'ChunkingTrace.tla', 'ChunkingTrace.cfg', tr, WHAT,
                 executions=tot.get('completed', 0), label='staticChunkSize* records')
    ctx.sample_trace(tr, 2, skip=100)
    for suite, tr2, tot2 in bg.join():
        ctx.validate(pc.SPEC, 'ParForTrace.tla', 'ParForTrace_C17.cfg', tr2, WHAT,
                     executions=tot2.get('completed', 0), label='static parallel_for records', timeout=2400)
        ctx.sample_trace(tr2, 2, skip=3)
    ctx.assumptions += [
        'the tlapm theorems are over unbounded integers: "within ssize_t without overflow" is the precondition that maps them to the 64-bit code',
        'Chunking_proofs.tla restates StaticChunkSize* (text compared with Chunking.tla by the check); tlapm, its SMT/Zenon/Isabelle back-ends, TLC and g++ are trusted',
        'for_each_n boundaries are checked at model level only (for_each observes elements, not chunks; C15 covers its once-per-element behaviour)',
    ]
