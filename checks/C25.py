"""C25 - ResourcePool bounds and exclusivity.

E1  TLC, exhaustive, on spec/respool/ResPool.tla (semaphore-guarded bag of `size` resources, every
    queue call one step; handles: acquire, destruction, move construction, move assignment onto a
    holding / an empty handle, self-move, get; pool destructor): HeldBound, Exclusive, Conservation,
    BlockedOnlyIfAllHeld, AllReturned, Lifetime, ResultsOk for pool sizes 1..4, 2..4 threads.
E2  every transition of the cover configuration's state graph is replayed in the real
    ResourcePool/Resource under the controlled scheduler ...
E3  ... and every recorded step (action, thread, returned resource, number of queued resources,
    content of every handle slot, object identity at every resource address, lifetime errors) is
    validated by TLC (ResPoolTrace.tla), all invariants on.
E4  random controlled schedules of random well-formed, deadlock-free programs, sizes 1..4.
E4f free-running executions (real threads, really blocking acquire()): invoke/response events
    validated by TLC against the API-level ResPoolFree.tla (rule R3).
E4m the same with MANY simultaneously live user threads (4 x hardware threads + 8, at least 64) on one
    small pool, taking strict turns so that acquire() must never block; afterwards all resources are
    acquired at once and the pool is destroyed (drv_respool --many; see executeMany there).
"""
import json
import os
import shutil

SPEC = 'spec/respool'
WHAT = 'ResourcePool bounds and exclusivity'
COVER_PROG = 't1:acq1,acq2,mva12,rel1,rel2;t2:acq1,mvc12,mva21,smv1,get1,rel2,rel1'
COVER_SIZE = 2


def parse_prog(s):
    prog = {}
    for th in s.split(';'):
        name, ops = th.split(':')
        prog[name] = [(o[:3], int(o[3]), int(o[4]) if len(o) > 4 else 0) for o in ops.split(',') if o]
    return prog


class Sim:
    """Scheduling aid (not an oracle): follows a schedule on the abstract state so that it can be
    completed fairly.  The controller's own completion policy (lowest-index runnable thread) would
    spin for ever on a thread that waits in acquire() while another one holds the resource."""

    def __init__(self, prog, size):
        self.prog, self.avail = prog, size
        self.ip = {t: 0 for t in prog}
        self.started = {t: False for t in prog}
        self.slot = {t: {1: -1, 2: -1} for t in prog}

    def pc(self, t):
        if not self.started[t]:
            return 'Start'
        if self.ip[t] >= len(self.prog[t]):
            return 'Done'
        op, a, b = self.prog[t][self.ip[t]]
        if op == 'acq':
            return 'Acquire'
        if op == 'rel':
            return 'Recycle' if self.slot[t][a] == 1 else 'Local'
        if op == 'mva':
            return 'Recycle' if self.slot[t][b] == 1 else 'Local'
        return 'Local'

    def step(self, t, action):
        if self.pc(t) != action:
            raise ValueError('schedule step %s:%s but thread is at %s' % (t, action, self.pc(t)))
        if action == 'Start':
            self.started[t] = True
            return
        op, a, b = self.prog[t][self.ip[t]]
        s = self.slot[t]
        if action == 'Acquire':
            if self.avail == 0:
                return
            self.avail -= 1
            s[a] = 1
        elif op == 'rel':
            if s[a] == 1:
                self.avail += 1
            s[a] = -1
        elif op in ('mva', 'mvc'):
            if op == 'mva' and s[b] == 1:
                self.avail += 1
            s[b] = s[a]
            s[a] = 0
        self.ip[t] += 1

    def complete(self):
        out = []
        names = sorted(self.prog)
        k = 0
        while any(self.pc(t) != 'Done' for t in names):
            for i in range(len(names)):
                t = names[(k + i) % len(names)]
                p = self.pc(t)
                if p != 'Done' and not (p == 'Acquire' and self.avail == 0):
                    break
            else:
                raise ValueError('program can deadlock')
            out.append({'t': t, 'a': p})
            self.step(t, p)
            k += 1
        return out


def complete_schedules(src, dst, prog, size):
    n = 0
    with open(src) as f, open(dst, 'w') as o:
        for line in f:
            sch = json.loads(line)
            sim = Sim(prog, size)
            for st in sch:
                sim.step(st['t'], st['a'])
            sch += sim.complete()
            n += len(sch)
            o.write(json.dumps(sch, separators=(',', ':')) + '\n')
    return n


def free_stats(trace):
    """How many acquire() calls were invoked while (by the log) no resource was available."""
    acq = waited = 0
    avail, pend = 0, {}
    for line in open(trace):
        e = json.loads(line)
        if e['e'] == 'Reset':
            avail, pend = e['size'], {}
        elif e['e'] == 'AcqInv':
            acq += 1
            pend[e['t']] = avail == 0
        elif e['e'] == 'AcqRet':
            waited += 1 if pend.pop(e['t'], False) else 0
            avail -= 1
        elif e['e'] == 'Rel':
            avail += 1
    return {'acquires': acq, 'acquires_invoked_with_pool_empty': waited}



def many_stats(trace):
    """Pools, live threads and distinct releasing threads per pool in the many-thread rounds."""
    pools, threads, rel = 0, [], []
    try:
        for line in open(trace):
            try:
                e = json.loads(line)
            except ValueError:
                continue
            if e['e'] == 'Reset':
                pools += 1
                threads.append(e.get('threads', 0))
                rel.append(set())
            elif e['e'] == 'Rel' and rel:
                rel[-1].add(e['t'])
    except OSError:
        pass
    return {'pools': pools, 'live_threads_min': min(threads or [0]), 'live_threads_max': max(threads or [0]),
            'distinct_releasing_threads_min': min([len(r) for r in rel] or [0])}


def usable(trace):
    """A driver that crashed may leave a truncated last line: drop it (the crash itself has been
    reported); returns False when nothing is left to validate."""
    try:
        data = open(trace, 'rb').read()
    except OSError:
        return False
    if data and not data.endswith(b'}\n'):
        data = data[:data.rfind(b'\n') + 1]
        open(trace, 'wb').write(data)
    return data.count(b'\n') >= 2


def run(ctx):
    thorough = ctx.tier == 'thorough'
    exe = ctx.build('drv_respool', ['harness/drv/drv_respool.cpp', 'harness/ctl/ctl.cpp'])

    # E1 -------------------------------------------------------------------------------------
    dot = os.path.join(ctx.work, 'cover.dot')
    ctx.check_model(SPEC, 'MCResPool.tla', 'MC_cover.cfg', WHAT, label='cover: size 2, 2 threads, all ops',
                    dump=dot, workers=4)
    ctx.check_model(SPEC, 'MCResPool.tla', 'MC_all_Quick.cfg', WHAT, workers=4,
                    label='sizes 1..3, 2-3 threads, 3-7 ops per thread')
    if thorough:
        ctx.check_model(SPEC, 'MCResPool.tla', 'MC_all_Thorough.cfg', WHAT, workers=4, timeout=1000,
                        label='sizes 3..4, 3-4 threads')

    # E2 + E3 ---------------------------------------------------------------------------------
    sched0 = os.path.join(ctx.work, 'cover.sched0')
    sched = os.path.join(ctx.work, 'cover.sched')
    ctx.cov['cover_graph'] = ctx.walker(dot, sched0)
    ctx.cov['cover_graph']['steps_with_completion'] = complete_schedules(sched0, sched, parse_prog(COVER_PROG),
                                                                         COVER_SIZE)
    tr_cover = os.path.join(ctx.work, 'cover.ndjson')
    tot, _ = ctx.driver(exe, ['--out', tr_cover, '--size', COVER_SIZE, '--prog', COVER_PROG, '--schedules', sched],
                        WHAT, label='cover replay')
    execs = tot.get('completed', 0)
    ctx.sample_trace(tr_cover, 14)

    # E4 (+ E3 for both: one TLC validation of the concatenated controlled traces) -----------------
    n = 6000 if thorough else 500
    tr_rand = os.path.join(ctx.work, 'rand.ndjson')
    tot, _ = ctx.driver(exe, ['--out', tr_rand, '--random', n, '--seed', ctx.seed, '--randprog'], WHAT,
                        label='random controlled, sizes 1..4')
    execs += tot.get('completed', 0)
    tr = os.path.join(ctx.work, 'controlled_all.ndjson')
    with open(tr, 'wb') as o:
        for p in (tr_cover, tr_rand):
            if usable(p):
                with open(p, 'rb') as f:
                    shutil.copyfileobj(f, o)
    if usable(tr):
        ctx.validate(SPEC, 'ResPoolTrace.tla', 'ResPoolTrace.cfg', tr, WHAT, executions=execs,
                     label='cover replay + random controlled')

    # E4f: free-running, API-level ---------------------------------------------------------------
    n = 4000 if thorough else 500
    tr_free = os.path.join(ctx.work, 'free.ndjson')
    tot, _ = ctx.driver(exe, ['--out', tr_free, '--free', n, '--seed', ctx.seed], WHAT,
                        label='free-running, sizes 1..4')
    execs = tot.get('completed', 0)
    # E4m: the property holds for every number of user threads, but E2-E4f use 2..4 of them.  The pool
    # keeps its resources in a queue with per-thread (producer) state, so "many more live threads than
    # resources / hardware threads" is a class of its own: rounds of >= 64 live threads taking strict turns
    # (never more than `hold` <= size handles live, so a correct acquire() cannot block; a blocked one is a
    # Hang record, which ResPoolFree never accepts), then all resources at once, then ~ResourcePool.
    tr_many = os.path.join(ctx.work, 'many.ndjson')
    tot, _ = ctx.driver(exe, ['--out', tr_many, '--many', 12 if thorough else 4, '--seed', ctx.seed], WHAT,
                        label='many-threads')
    execs += tot.get('completed', 0)
    ctx.cov['many_threads'] = many_stats(tr_many)
    tr = os.path.join(ctx.work, 'free_all.ndjson')
    with open(tr, 'wb') as o:
        for p in (tr_free, tr_many):
            if usable(p):
                with open(p, 'rb') as f:
                    shutil.copyfileobj(f, o)
    if usable(tr):
        ctx.validate(SPEC, 'ResPoolFree.tla', 'ResPoolFree.cfg', tr, WHAT, executions=execs,
                     label='free-running invoke/response (random programs + many-thread rounds)')
        ctx.cov['free_running'] = free_stats(tr_free) if usable(tr_free) else {}
    ctx.sample_trace(tr_free, 10)
    ctx.sample_trace(tr_many, 8)
    ctx.assumptions += [
        'moodycamel::BlockingConcurrentQueue is a linearizable black box: every queue call is one step, '
        'no schedule points inside it',
        'controlled runs never let wait_dequeue block: the driver polls availability at the Acquire point and '
        'runs acquire() to completion in the same step; the really blocking path is exercised free-running only',
        'many-thread rounds: thread count is 4 x hardware threads + 8 (at least 64); a defect that needs more '
        'live threads than that is not seen',
        'handles are not passed between threads; every handle is destroyed before the pool (documented precondition)',
        'programs are deadlock-free by construction (sum over threads of (max handles held - 1) < size)',
        'TLC, the JSON/IOUtils community modules and g++ are trusted',
    ]
