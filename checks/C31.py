"""C31 - graph partial re-evaluation runs exactly the propagated closure.

E1  TLC, exhaustive, on spec/graph/Graph.tla: every Graph/BiPropGraph on <= 4 nodes (each edge plain or
    bidirectional-propagation) x every marked subset (<= 2 nodes) x ForwardPropagator, and clear()/rebuild followed
    by ForwardPropagator: PreparedOK (after the pass the incomplete nodes are exactly forward-closure(marked) + every
    propagation class that meets it, every counter = number of incomplete predecessors), BiSetsOK (every node's set
    object = its class), then RunOnce / OrderOK / AllRan / AllComplete for the evaluation; setAllNodesIncomplete =>
    everything runs.  Negative control: the specification of the code before the fix commit violates PreparedOK.
E2/E3  the model's build / mark / propagate / evaluate sequences are replayed on the real BiPropGraph / Graph with
    every executor and validated step by step (projection of counters, dependents_, set objects after every step).
E4  seeded random programs (bi-prop edges, set merges, marks, clear/rebuild) x executors x schedules.
E5  random DAGs up to 200 nodes with bi-prop classes and random marked subsets, free-running pool.
"""
import os
import random
import graph_common as gc

WHAT = 'graph partial re-evaluation runs exactly the propagated closure'


def run(ctx):
    thorough = ctx.tier == 'thorough'
    exe = gc.build(ctx)

    # E1 -------------------------------------------------------------------------------------
    dot = os.path.join(ctx.work, 'cover31.dot')
    ctx.check_model(gc.SPEC, 'MCGraph.tla', 'MC_cover31.cfg', WHAT, label='cover: 3 nodes, every plain/bi edge set, <=2 marks, propagate',
                    dump=dot, workers=4, vacuity_exempt=gc.VAC)
    ctx.check_model(gc.SPEC, 'MCGraph.tla', 'MC_c31_prop.cfg', WHAT, label='4 nodes, <=3 plain/bi edges (set merges), <=2 marks, propagate',
                    workers=4, vacuity_exempt=gc.VAC)
    ctx.check_model(gc.SPEC, 'MCGraph.tla', 'MC_c31_rebuild.cfg', WHAT, label='3+1 nodes, clear/rebuild then propagate',
                    workers=4, vacuity_exempt=gc.VAC)
    gc.negative_control(ctx, 'MC_c31_prefix.cfg', 'set merge that re-points only one member (code before the fix)', expect='PreparedOK')
    if thorough:
        ctx.check_model(gc.SPEC, 'MCGraph.tla', 'MC_c31_rebuild_big.cfg', WHAT, label='3+1 nodes, clear/rebuild, marks, propagate or setAll',
                        workers=4, vacuity_exempt=gc.VAC, timeout=3000)
        ctx.check_model(gc.SPEC, 'MCGraph.tla', 'MC_c30_ctsbi.cfg', WHAT, label='ConcurrentTaskSetExecutor on BiPropGraph, partial re-evaluation',
                        workers=4, vacuity_exempt=gc.VAC)

    # E2 + E3 ---------------------------------------------------------------------------------
    pf = os.path.join(ctx.work, 'cover31.prog')
    progs, info = gc.programs_from_dot(ctx, dot, pf, 'biprop')
    ctx.cov['cover_graph'] = info
    runs = []
    tr, tot = gc.drive(ctx, exe, ['--programs', pf, '--execs', '0'], WHAT, 'cover replay single-thread')
    runs.append((tr, tot))
    ctx.sample_trace(tr, 14)
    rng = random.Random(ctx.seed)
    sample = progs if thorough else rng.sample(progs, min(len(progs), 24))
    pf2 = os.path.join(ctx.work, 'cover31_pool.prog')
    gc.write_programs(pf2, 'biprop', sample)
    runs.append(gc.drive(ctx, exe, ['--programs', pf2, '--execs', '2,1', '--runs', 2 if thorough else 1, '--seed', ctx.seed,
                                    '--varypool', '--varymult'], WHAT, 'cover replay pool executors'))
    plain = [p for p in sample if 'bi' not in p]
    if plain:
        pf3 = os.path.join(ctx.work, 'cover31_node.prog')
        gc.write_programs(pf3, 'node', plain)
        runs.append(gc.drive(ctx, exe, ['--programs', pf3, '--execs', '0,2', '--seed', ctx.seed + 1, '--varypool'], WHAT,
                             'cover replay plain Graph'))
    # the 4-node set-merge scenarios of the model (the ones the negative control trips over) on the real code
    merges = ['add0,add0,add0,add0,bi4.1,bi3.2,bi4.2,setall,eval,mark3,prop,eval',
              'add0,add0,add0,add0,bi3.1,bi4.2,bi4.3,setall,eval,mark2,prop,eval',
              'sub,add0,add1,add1,add0,add0,bi2.1,bi4.3,bi4.2,dep2.5,setall,eval,mark5,prop,eval,clr1,mark1,prop,eval',
              'sub,add0,add0,add1,add1,bi2.1,bi4.3,bi3.2,prop,eval,clr1,add1,bi5.2,mark1,prop,eval']
    pf4 = os.path.join(ctx.work, 'merge.prog')
    gc.write_programs(pf4, 'biprop', merges)
    runs.append(gc.drive(ctx, exe, ['--programs', pf4, '--execs', '0,2', '--seed', ctx.seed + 2], WHAT, 'set-merge scenarios'))

    # E4 + E3 ---------------------------------------------------------------------------------
    n = 120 if thorough else 14
    tr, tot = gc.drive(ctx, exe, ['--randprog', n, '--maxnodes', 9, '--execs', '0,2,1,0,3', '--seed', ctx.seed + 3,
                                  '--partial', 75, '--kind', 'biprop', '--varypool', '--varymult'], WHAT,
                       'random programs BiPropGraph')
    runs.append((tr, tot))
    ctx.sample_trace(tr, 10, skip=30)
    runs.append(gc.drive(ctx, exe, ['--randprog', 40 if thorough else 5, '--maxnodes', 9, '--execs', '0,2,1', '--seed', ctx.seed + 4,
                                    '--partial', 75, '--kind', 'node', '--varypool'], WHAT, 'random programs Graph'))
    gc.validate_all(ctx, runs, WHAT, 'cover replay + random programs')

    # E5 --------------------------------------------------------------------------------------
    gc.run_and_validate(ctx, exe, ['--big', 10 if thorough else 3, '--maxnodes', 200 if thorough else 90, '--seed', ctx.seed + 5,
                                   '--partial', 80], WHAT, 'random large DAGs free-running pool', big=True)
    ctx.assumptions += gc.ASSUME
