"""C37 - ConcurrentObjectArena growth and copies are exact.

E1  TLC, exhaustive, on the implementation-level spec spec/arena/Arena.tla (one action per atomic
    access of grow_by / constructObjects / operator[] / the observers; the resizeMutex_ critical
    section with the capacity doubling of the pointer table is one action; the sequential operations
    are one action each): RangesExact, ConstructedOnce, ElementsConstructed, StableRefs, CopiesEqual,
    NoUninitRead, Bookkeeping, NoLeakNoSharing, LifetimeBalance, BufSizesExact in every state of every
    interleaving of 2 growers on arenas with buffer size 1, 2, 4 reaching 1..6 buffers, followed by
    copy construction, copy/move assignment, move construction, swap, destruction.  In the FineLock
    configuration the mutex section is split into its atomic accesses so that a lock-free grower
    interleaves with it (AllocCovered: capacity is never published before the buffer is in the table);
    the real code is bound to that order by a NOTE immediately before the locked store.
    Negative controls (thorough): the model with the copy loop bound of the code as found, and the
    model that publishes allocatedSize_ before the buffer, must be rejected.
E2  every transition of the cover configuration's state graph is replayed in the real arena under
    the controlled scheduler ...
E3  ... and the recorded trace (action, thread, returned values, every field of every arena, the
    buffer-pointer table as buffer ids, contents through operator[], raw content and number of
    default constructions of every slot of every live buffer, live pointer tables, table entries
    read by the copy constructor) is validated by TLC against the spec (ArenaTrace.tla), all
    invariants on.
E4  seeded random and PCT controlled schedules of random programs (minBuffSize 1..4, initial sizes,
    1-2 growers, 1-2 growth phases, random sequential tails of copy/move/assign/swap/del/getters).
E5  free-running rounds (drv_arena --stress): 2-4 real threads call grow_by truly concurrently on a
    fresh arena (no controller, inert hook points, buffer sizes 1/2/4, initial sizes 0..3, random
    deltas 0..6); one observation record per round (returned indices and size() in per-thread program
    order, final size / capacity / buffer count / buffer sizes / contents, construction counts,
    reference checks), validated by TLC against spec/arena/ArenaObs.tla: the windows INSIDE a step of
    Arena.tla (the resizeMutex_ section, the compare-exchange) that the controlled engines cannot open.
Auxiliary monitor (thorough): the same driver under ASan/UBSan/LSan.
"""
import os
import shutil

SPEC = 'spec/arena'
WHAT = 'ConcurrentObjectArena exact growth, stable references, exact copies, no uninitialised read'
SRCS = ['harness/drv/drv_arena.cpp', 'harness/ctl/ctl.cpp']
LIBS = ['-Wl,--wrap=malloc', '-Wl,--wrap=free']
COVER_PROG = ('m:new.A.1.0|g1:grow.A.2,write.A.1.1.11;g2:grow.A.2,size.A|'
              'm:copy.B.A,readi.B.1,bufsize.A.4,new.C.2.1,assign.C.A,swap.A.B,del.B,move.B.C,massign.A.B,readi.A.3')
# actions that a given configuration does not exercise (each is exercised by another one)
LK = ('LkLdAlloc', 'LkAllocBuf', 'LkStAlloc', 'LkUnlock')      # FineLock only
EX_COVER = ('CapLd', 'NumBuf', 'GetBufLd') + LK
EX_FINE = ('SizeLd', 'NumBuf', 'GetBufLd')
EX_B2 = ('SizeLd',) + LK
EX_B4 = ('CapLd', 'NumBuf', 'GetBufLd') + LK
EX_B1 = ('SizeLd', 'CapLd', 'NumBuf', 'GetBufLd') + LK


def cat(files, out):
    with open(out, 'w') as o:
        for fn in files:
            with open(fn) as f:
                shutil.copyfileobj(f, o)
    return out


def run(ctx):
    from vlib import ToolError
    thorough = ctx.tier == 'thorough'
    exe = ctx.build('drv_arena', SRCS, libs=LIBS)

    # E1 -------------------------------------------------------------------------------------
    dot = os.path.join(ctx.work, 'cover.dot')
    ctx.check_model(SPEC, 'MCArena.tla', 'MC_cover.cfg', WHAT,
                    label='cover: buffer size 1, 2 growers reach 5 buffers (table capacity 8), copy/assign/move/swap',
                    dump=dot, vacuity_exempt=EX_COVER, workers=4)
    ctx.check_model(SPEC, 'MCArena.tla', 'MC_fine.cfg', WHAT,
                    label='FineLock: the mutex section split into its atomic accesses, a lock-free grower '
                          'interleaves with the locked one (buffer size 2, 2 growers x 3-4 ops)',
                    vacuity_exempt=EX_FINE, workers=4)
    if thorough:
        ctx.check_model(SPEC, 'MCArena.tla', 'MC_b2.cfg', WHAT,
                        label='buffer size 2, initial size 1, 2 growers x 4-5 ops, weak CAS, copy + self-assign',
                        vacuity_exempt=EX_B2, workers=4)
        ctx.check_model(SPEC, 'MCArena.tla', 'MC_b4.cfg', WHAT,
                        label='buffer size 4 (minBuffSize 3), grow_by(0), growth across a buffer boundary, weak CAS',
                        vacuity_exempt=EX_B4, workers=4)
        ctx.check_model(SPEC, 'MCArena.tla', 'MC_b1.cfg', WHAT,
                        label='buffer size 1, 2 growers x 3 ops reaching 6 buffers, weak CAS, copy of copy',
                        vacuity_exempt=EX_B1, workers=4)
        # negative controls: the model must reject (a) the copy loop as found in the code and (b) publishing
        # allocatedSize_ before the buffer is in the table
        for cfg, want, label in (
                ('MC_origcopy.cfg', ('Invariant NoUninitRead',), 'copy constructor loops to the table capacity'),
                ('MC_fine_storefirst.cfg', ('Invariant AllocCovered', 'Invariant StableRefs', 'Invariant NoUninitRead'),
                 'allocatedSize_ stored before allocateBuffer()')):
            res = ctx.tlc(SPEC, 'MCArena.tla', cfg, workers=4, count=False, label='negative control: ' + label,
                          extra=['-noGenerateSpecTE'])
            if res.violation not in want:
                raise ToolError('negative control failed: %s gave %r, expected one of %r' % (cfg, res.violation, want))

    # E2 ---------------------------------------------------------------------------------------
    sched = os.path.join(ctx.work, 'cover.sched')
    info = ctx.walker(dot, sched)
    ctx.cov['cover_graph'] = info
    traces = []
    tr = os.path.join(ctx.work, 'cover.ndjson')
    tot, _ = ctx.driver(exe, ['--out', tr, '--prog', COVER_PROG, '--schedules', sched], WHAT, label='cover replay')
    if tot:     # (a crashed driver is already reported; its trace is truncated)
        traces.append((tr, tot.get('completed', 0), 'cover replay'))
    ctx.sample_trace(tr, 12, skip=1)

    # E4 ---------------------------------------------------------------------------------------
    for pct, n in ((0, 2000 if thorough else 150), (3, 1000 if thorough else 80)):
        tr = os.path.join(ctx.work, 'rand_p%d.ndjson' % pct)
        tot, _ = ctx.driver(exe, ['--out', tr, '--random', n, '--seed', ctx.seed + 13 * pct, '--randprog',
                                  '--pct', pct], WHAT, label='random pct%d' % pct)
        if tot:
            traces.append((tr, tot.get('completed', 0), 'random pct%d' % pct))

    # E3 ---------------------------------------------------------------------------------------
    if thorough:
        for tr, n, label in traces:
            ctx.validate(SPEC, 'ArenaTrace.tla', 'ArenaTrace.cfg', tr, WHAT, executions=n, label=label, timeout=3000)
    elif traces:   # one JVM start for all traces (each begins with a Reset line)
        allt = cat([t[0] for t in traces], os.path.join(ctx.work, 'all.ndjson'))
        ctx.validate(SPEC, 'ArenaTrace.tla', 'ArenaTrace.cfg', allt, WHAT,
                     executions=sum(t[1] for t in traces), label='cover replay + random + PCT')

    # E5: free-running rounds (real threads, inert hooks): races inside one step of Arena.tla --------------
    obs = os.path.join(ctx.work, 'stress.ndjson')
    rounds = 40000 if thorough else 2500
    tot, _ = ctx.driver(exe, ['--out', obs, '--stress', rounds, '--seed', ctx.seed], WHAT,
                        label='free-running grow_by rounds, buffer sizes 1 2 4', allow_incomplete=True, timeout=1500)
    if tot.get('executions'):
        ctx.validate(SPEC, 'ArenaObs.tla', 'ArenaObs.cfg', obs, WHAT, executions=tot.get('completed', 0),
                     label='free-running rounds: disjoint ranges covering [0, size), constructed once, stable references',
                     timeout=3000)
    ctx.cov['free_running_rounds'] = tot.get('completed', 0)

    if thorough:
        # auxiliary monitor: ASan/UBSan/LSan report = driver crash / exit 66 = reported
        sexe = ctx.build('drv_arena', SRCS, libs=LIBS, sanitize=True)
        tr = os.path.join(ctx.work, 'san.ndjson')
        ctx.driver(sexe, ['--out', tr, '--random', 2500, '--seed', ctx.seed + 3, '--randprog'], WHAT,
                   label='sanitised random')
        ctx.driver(sexe, ['--out', tr, '--prog', COVER_PROG, '--schedules', sched], WHAT, label='sanitised cover replay')

    ctx.assumptions += [
        'free-running rounds (E5): per round only what the public API returns is observed (grow_by results and size() '
        'in per-thread program order; after the join size, capacity, numBuffers, getBufferSize, contents, construction '
        'counts kept by the element type, references re-checked through operator[] / getBuffer); no cross-thread order '
        'is recorded; a round that does not finish within 10 s of wall-clock time counts as a hang',
        'TLA+ interleaving semantics are sequentially consistent (weak-memory effects are C10)',
        'the resizeMutex_ critical section is atomic (no schedule point while the mutex is held); the plain reads of '
        'buffersPos_ by numBuffers() racing with that section are outside the model',
        'programs are the ones the documentation allows: copy/move/assignment/swap/getBufferSize/destruction only '
        'while no other thread uses the arenas involved; a thread writes only elements of its own grow_by ranges; '
        'moved-from arenas are only assigned to or destroyed and are not compared (R6)',
        'malloc returns memory with arbitrary content and new T*[n] an array with arbitrary content (the driver '
        'fills them with recognisable garbage / a pointer to a poison buffer)',
        'TLC, the JSON/IOUtils community modules and g++ are trusted',
    ]
