#!/usr/bin/env python3
"""Regenerates MANIFEST.json from checks/registry.py, NA.json and the /repo hook commits."""
import json, os, subprocess, sys
ROOT = os.path.dirname(os.path.dirname(os.path.abspath(__file__)))
sys.path.insert(0, os.path.join(ROOT, 'checks'))
import registry
props = [json.loads(l)['id'] for l in open(os.path.join(ROOT, 'properties.jsonl'))]
na_reasons = json.load(open(os.path.join(ROOT, 'checks', 'NA.json')))
hooks = subprocess.run(['git', '-C', '/repo', 'log', '--format=%H %s'], stdout=subprocess.PIPE, text=True).stdout.splitlines()
hook_commits = [l.split()[0] for l in hooks if 'verif hooks' in l]
enabled = set(open(os.path.join(ROOT, 'checks', 'ENABLED.txt')).read().split())
checks = []
for p in props:
    c = registry.CHECKS.get(p) if p in enabled else None
    if not c:
        continue
    checks.append({
        'property_id': p,
        'quick_cmd': 'bin/vcheck %s quick' % p,
        'thorough_cmd': 'bin/vcheck %s thorough' % p,
        'evidence_file': 'evidence/%s.json' % p,
        'replay_cmd_template': 'cat {path}',
        'engine': 'vcheck',
        'level_claimed': {'category': c['level'], 'text': c['text'], 'design_ref': 'DESIGN.md ' + c.get('design', '')},
        'level_note': c['note'],
        'technique': c['technique'],
    })
na = [{'property_id': p, 'reason': na_reasons.get(p, 'not yet covered by a specification-bound check in this tree')}
      for p in props if p not in registry.CHECKS or p not in enabled]
m = {
    'version': 1,
    'setup_cmd': 'bin/setup',
    'hooks': {
        'guard': 'DISPENSO_VERIF',
        'enable': 'checks compile /repo sources with -DDISPENSO_VERIF (bin/vlib.py Ctx.build); hooks are weak-symbol calls implemented by harness/ctl',
        'baseline_off_cmd': 'cmake --build /repo/_build -j 12 && ctest --test-dir /repo/_build -j8 --timeout 900',
        'source_commits': hook_commits,
        'add_only': True,
    },
    'engines': [
        {'name': 'vcheck', 'path': 'bin/vcheck', 'serves_properties': sorted(set(registry.CHECKS) & enabled),
         'kind_free_text': 'TLA+ specs checked by TLC (E1), TLC state-graph transition cover replayed in the real code under a controlled scheduler (E2), TLC trace validation of recorded executions (E3), seeded random controlled schedules (E4), record validators (E5)'},
    ],
    'checks': checks,
    'not_applicable': na,
    'notes': 'See DESIGN.md. Every check rebuilds its driver from /repo\'s working tree (content-hashed object cache under build/).',
}
json.dump(m, open(os.path.join(ROOT, 'MANIFEST.json'), 'w'), indent=1)
print('MANIFEST: %d checks, %d not_applicable' % (len(checks), len(na)))
