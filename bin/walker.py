#!/usr/bin/env python3
"""State graph (TLC `-dump dot,actionlabels`) -> a set of schedules that covers every transition.

Each edge label is `Action("thread", extra...)`; the first argument is the logical thread, an
optional set-of-strings argument is the environment's choice of futex waiters.  Edges whose label
has no argument (e.g. `Destroy`) are taken by the harness implicitly and are not scheduled.

Output: one schedule per line, a JSON array of {"t":thread,"a":action[,"w":[...]]}.
A summary JSON (nodes, edges, paths, steps) is printed on stdout.
"""
import collections
import json
import re
import sys

EDGE = re.compile(r'^(-?\d+) -> (-?\d+) \[label="((?:[^"\\]|\\.)*)"')
NODE = re.compile(r'^(-?\d+) \[label="((?:[^"\\]|\\.)*)"(.*)$')


def parse_label(lab):
    lab = lab.replace('\\"', '"').replace('\\\\', '\\')
    m = re.match(r'^(\w+)(?:\((.*)\))?$', lab, re.S)
    if not m:
        return None
    name, args = m.group(1), m.group(2)
    if args is None:
        return {"a": name}
    # split top-level commas
    parts, depth, cur = [], 0, ''
    for ch in args:
        if ch in '{<([':
            depth += 1
        elif ch in '}>)]':
            depth -= 1
        if ch == ',' and depth == 0:
            parts.append(cur.strip())
            cur = ''
        else:
            cur += ch
    if cur.strip():
        parts.append(cur.strip())
    step = {"a": name}
    if parts:
        t = parts[0]
        if t.startswith('"'):
            step["t"] = t.strip('"')
        else:
            step["t"] = t
        for p in parts[1:]:
            if p.startswith('{'):
                step["w"] = sorted(re.findall(r'"([^"]*)"', p))
            else:
                step.setdefault("x", []).append(p.strip('"'))
    return step


def load(dotfile):
    init = None
    edges = collections.defaultdict(list)  # u -> [(v, label)]
    nedges = 0
    nodes = set()
    with open(dotfile) as f:
        for line in f:
            m = EDGE.match(line)
            if m:
                u, v, lab = m.group(1), m.group(2), m.group(3)
                edges[u].append((v, lab))
                nodes.add(u)
                nodes.add(v)
                nedges += 1
                continue
            m = NODE.match(line)
            if m:
                nodes.add(m.group(1))
                if 'style = filled' in m.group(3) and init is None:
                    init = m.group(1)
    return init, edges, nodes, nedges


def cover(init, edges, max_paths=None):
    """Returns list of paths (each a list of labels) covering every edge reachable from init."""
    # BFS tree from init
    parent = {init: None}
    order = [init]
    dq = collections.deque([init])
    while dq:
        u = dq.popleft()
        for i, (v, lab) in enumerate(edges.get(u, ())):
            if v not in parent:
                parent[v] = (u, i)
                order.append(v)
                dq.append(v)
    uncovered = {(u, i) for u in parent for i in range(len(edges.get(u, ())))}
    total = len(uncovered)
    depth = {}
    for u in order:
        depth[u] = 0 if parent[u] is None else depth[parent[u][0]] + 1

    def path_to(u):
        p = []
        while parent[u] is not None:
            pu, i = parent[u]
            p.append((pu, i))
            u = pu
        p.reverse()
        return p

    # uncovered edges ordered by depth of their source
    pending = sorted(uncovered, key=lambda e: (depth[e[0]], e))
    pos = 0
    paths = []
    while uncovered:
        while pos < len(pending) and pending[pos] not in uncovered:
            pos += 1
        if pos >= len(pending):
            break
        u, i = pending[pos]
        p = path_to(u) + [(u, i)]
        for e in p:
            uncovered.discard(e)
        cur = edges[u][i][0]
        # extend: prefer an uncovered out-edge; else BFS forward to the nearest uncovered edge
        while True:
            outs = edges.get(cur, ())
            nxt = None
            for j in range(len(outs)):
                if (cur, j) in uncovered:
                    nxt = [(cur, j)]
                    break
            if nxt is None:
                seen = {cur: None}
                q = collections.deque([cur])
                found = None
                steps = 0
                while q and found is None and steps < 20000:
                    x = q.popleft()
                    steps += 1
                    for j, (y, _) in enumerate(edges.get(x, ())):
                        if (x, j) in uncovered:
                            found = (x, j)
                            break
                        if y not in seen:
                            seen[y] = (x, j)
                            q.append(y)
                if found is None:
                    break
                x, j = found
                seg = [(x, j)]
                while seen[x] is not None:
                    px, pj = seen[x]
                    seg.append((px, pj))
                    x = px
                seg.reverse()
                nxt = seg
            for e in nxt:
                uncovered.discard(e)
                p.append(e)
            cur = edges[p[-1][0]][p[-1][1]][0]
        paths.append([edges[a][b][1] for (a, b) in p])
        if max_paths and len(paths) >= max_paths:
            break
    return paths, total, total - len(uncovered)


def main():
    dot, out = sys.argv[1], sys.argv[2]
    max_paths = int(sys.argv[3]) if len(sys.argv) > 3 else None
    init, edges, nodes, nedges = load(dot)
    if init is None:
        print(json.dumps({"error": "no initial state in dot file"}))
        sys.exit(2)
    paths, total, covered = cover(init, edges, max_paths)
    steps = 0
    actions = collections.Counter()
    with open(out, 'w') as f:
        for p in paths:
            sch = []
            for lab in p:
                st = parse_label(lab)
                if st is None or 't' not in st:
                    continue
                st.pop('x', None)
                sch.append(st)
                actions[st['a']] += 1
            steps += len(sch)
            f.write(json.dumps(sch, separators=(',', ':')) + '\n')
    print(json.dumps({"nodes": len(nodes), "edges": nedges, "reachable_edges": total,
                      "covered_edges": covered, "paths": len(paths), "steps": steps,
                      "actions": dict(actions)}))


if __name__ == '__main__':
    main()
