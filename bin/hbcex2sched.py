#!/usr/bin/env python3
"""TLC counterexample of an HB overlay whose next-state relation is  \\E t : HStep(t)  (all steps print as
HStep("t")) -> one schedule line for a driver's --schedules option.  The site a thread executes in a step is
its pc in the PREVIOUS state (implementation-level specs name the pc after the hook site about to run).
usage: hbcex2sched.py <tlc-output.txt>"""
import json, re, sys
txt = open(sys.argv[1]).read()
states = re.split(r'^State \d+: ', txt, flags=re.M)[1:]
steps, prev = [], None
for s in states:
    head = s.split('\n', 1)[0]
    m = re.search(r'^/\\ pc = \[(.*?)\]$', s, re.M | re.S)
    pc = dict(re.findall(r'(\w+) \|-> "(\w+)"', m.group(1))) if m else {}
    tm = re.match(r'<\w+\("([^"]+)"\)', head)
    if tm and prev is not None:
        t = tm.group(1)
        steps.append({'a': prev.get(t, ''), 't': t})
    prev = pc
print(json.dumps(steps, separators=(',', ':')))
