#!/usr/bin/env python3
"""Regenerates DESIGN.md §0.5 (seeded changes vs checks) from seeded/*/meta.json."""
import glob, json, os, re
ROOT = os.path.dirname(os.path.dirname(os.path.abspath(__file__)))
rows = []
for f in sorted(glob.glob(os.path.join(ROOT, 'seeded', '*', 'meta.json'))):
    m = json.load(open(f))
    name = os.path.basename(os.path.dirname(f))
    s = (m.get('summary') or '').replace('\n', ' ').replace('|', '/')
    if len(s) > 230:
        s = s[:227] + '...'
    r = (m.get('result') or '').replace('\n', ' ').replace('|', '/')
    note = (m.get('note') or '').replace('\n', ' ').replace('|', '/')
    if note:
        r += ' - ' + (note if len(note) <= 420 else note[:417] + '...')
    rows.append('| %s | %s | %s | %s |' % (name, m.get('property'), s, r))
table = ('### 0.5 Seeded changes (from fresh sub-agents that saw only the property text) and the checks that catch them\n\n'
         'Each change compiles, passes the relevant repository tests, and comes with a demonstration (seeded/<name>/agent_demo.cpp)\n'
         'that fails with it and passes without it; `bin/seedtest` applies it to /repo, runs the check, and reverts.\n\n'
         + open(os.path.join(ROOT, 'docs', 'seed_summary.md')).read() +
         '| Seed | Prop | Change | Outcome |\n|------|------|--------|---------|\n' + '\n'.join(rows) + '\n\n')
p = os.path.join(ROOT, 'DESIGN.md')
s = open(p).read()
a = s.find('### 0.5 Seeded changes')
if a >= 0:
    b = s.find('\n# ', a) if s.find('\n## 1.', a) < 0 else s.find('\n## 1.', a)
    s = s[:a] + table + s[b + 1:]
else:
    marker = "(the per-check \"which seeded change is caught by which check\" table is §0.5, filled from `seeded/*/meta.json`)\n\n"
    s = s.replace(marker, table)
open(p, 'w').write(s)
print('rows', len(rows))
