#!/usr/bin/env python3
"""TLC counterexample (text output) -> one schedule line for a driver's --schedules option.
Every 'State N: <Action("t", extra) line ...>' becomes {"t":t,"a":site[,"w":[...]]}; the action name is
mapped to the hook site with the table given as JSON file (optional: default identity)."""
import json, re, sys
txt = open(sys.argv[1]).read()
sitemap = json.load(open(sys.argv[2])) if len(sys.argv) > 2 else {}
steps = []
for m in re.finditer(r'^State \d+: <(\w+)(?:\((.*?)\))? line \d+', txt, re.M):
    act, args = m.group(1), m.group(2)
    if act in ('Initial', 'Terminated') or args is None:
        continue
    am = re.match(r'"([^"]+)"(?:,(.*))?$', args)
    if not am:
        continue
    st = {'t': am.group(1), 'a': act if act in ('FutexTimeout', 'FutexSpurious') else sitemap.get(act, '')}
    if am.group(2) and am.group(2).strip().startswith('{'):
        st['w'] = sorted(re.findall(r'"([^"]*)"', am.group(2)))
    steps.append(st)
print(json.dumps(steps, separators=(',', ':')))
