#!/usr/bin/env python3
"""bin/seedmeta.py <name> <prop> <result text> [note]  - writes seeded/<name>/meta.json from the agent's meta + my run"""
import json, sys
name, prop, result = sys.argv[1:4]
note = sys.argv[4] if len(sys.argv) > 4 else ''
d = '/verif/seeded/' + name
a = {}
try:
    a = json.load(open(d + '/agent_meta.json'))
except Exception:
    pass
json.dump({"property": prop, "summary": a.get('summary'), "needs_to_manifest": a.get('needs_to_manifest'),
           "author": "fresh sub-agent (property text + scratch worktree only, nothing from /verif)",
           "confirmed": "patch applies to /repo main and compiles (the check rebuilt its drivers from the patched tree); demonstration by the agent: fails with / passes without the change (rates in agent_meta.json); relevant repository tests pass with the change (agent_meta.json tests_run)",
           "ran": "bin/seedtest %s /tmp/mut_%s/_scratch %s quick" % (name, prop, prop), "result": result, "note": note},
          open(d + '/meta.json', 'w'), indent=1)
