"""Shared machinery for the dispenso verification checks.

A check is a python module checks/<ID>.py with a function run(ctx).  It drives four engines:
  ctx.tlc(...)        E1  exhaustive / simulation model checking of a TLA+ spec with TLC
  ctx.walker(...)     E2  TLC state graph -> transition-covering schedules (bin/walker.py)
  ctx.driver(...)         run a C++ driver (real dispenso code under the controlled scheduler)
  ctx.validate(...)   E3  TLC trace validation of what the driver recorded
and reports through ctx.violation(...) / ctx.finish().
"""
import fcntl
import hashlib
import json
import os
import re
import shlex
import shutil
import subprocess
import sys
import time
from concurrent.futures import ThreadPoolExecutor

ROOT = os.path.dirname(os.path.dirname(os.path.abspath(__file__)))
REPO = os.environ.get('VERIF_REPO', '/repo')
BUILD = os.environ.get('VERIF_BUILD', os.path.join(ROOT, 'build'))
EVID = os.environ.get('VERIF_EVIDENCE', os.path.join(ROOT, 'evidence'))
TLA_JAR = '/opt/veriftools/tla/tla2tools.jar'
NCPU = os.cpu_count() or 8

DISPENSO_SRCS = [
    'cpu_set.cpp', 'graph.cpp', 'graph_executor.cpp', 'pool_allocator.cpp', 'priority.cpp',
    'schedulable.cpp', 'small_buffer_allocator.cpp', 'task_set.cpp', 'thread_id.cpp',
    'thread_pool.cpp', 'thread_pool_wake.cpp', 'timed_task.cpp', 'timing.cpp',
    'tsan_annotations.cpp', 'detail/per_thread_info.cpp', 'detail/quanta.cpp',
]


class ToolError(Exception):
    pass


def log(msg):
    sys.stdout.write(msg + '\n')
    sys.stdout.flush()


def sha(path):
    h = hashlib.sha1()
    with open(path, 'rb') as f:
        h.update(f.read())
    return h.hexdigest()


class TlcResult:
    def __init__(self):
        self.ok = False            # ran to completion, nothing violated
        self.generated = 0
        self.distinct = 0
        self.depth = 0
        self.violation = None      # e.g. "Invariant Bounded", "Temporal", "Deadlock", "Postcondition"
        self.error = None          # tool error text
        self.out = ''
        self.actions = {}          # action -> (distinct, generated) from -coverage
        self.rejected_line = None  # trace validation: 1-based line that could not be explained
        self.wall = 0.0

    def counterexample(self):
        i = self.out.find('Error:')
        return self.out[i:i + 3000000] if i >= 0 else self.out[-4000:]


def parse_tlc(out, res):
    res.out = out
    m = None
    for m in re.finditer(r'(\d+) states generated, (\d+) distinct states found', out):
        pass
    if m:
        res.generated, res.distinct = int(m.group(1)), int(m.group(2))
    m = re.search(r'depth of the complete state graph search is (\d+)', out)
    if m:
        res.depth = int(m.group(1))
    for m in re.finditer(r'^<(\w+) line \d+, col \d+ to line \d+, col \d+ of module \w+>: (\d+):(\d+)',
                         out, re.M):
        res.actions[m.group(1)] = (int(m.group(2)), int(m.group(3)))
    m = re.search(r'TRACE_REJECTED_AT_LINE", (\d+)', out)
    if m:
        res.rejected_line = int(m.group(1))
    v = None
    m = re.search(r'Error: Invariant (\S+) is violated', out)
    if m:
        v = 'Invariant ' + m.group(1)
    elif re.search(r'Error: Action property (\S+)', out):
        v = 'ActionProperty ' + re.search(r'Error: Action property (\S+)', out).group(1)
    elif re.search(r'Temporal property (\w+) was violated', out):
        v = 'Temporal ' + re.search(r'Temporal property (\w+) was violated', out).group(1)
    elif 'Temporal properties were violated' in out:
        v = 'Temporal'
    elif 'Error: Deadlock reached' in out:
        v = 'Deadlock'
    elif re.search(r'Error: Postcondition', out) or 'TRACE_REJECTED_AT_LINE' in out:
        v = 'Postcondition'
    elif re.search(r'Error: The (first|second) argument of Assert evaluated to FALSE|Assertion', out):
        v = 'Assert'
    res.violation = v
    finished = 'Model checking completed. No error has been found.' in out or \
        ('Finished in' in out and v is None and 'Error:' not in out)
    if v is None and not finished:
        if 'Error:' in out or 'error' in out.lower():
            i = out.find('Error')
            res.error = out[i:i + 3000] if i >= 0 else out[-3000:]
        else:
            res.error = 'TLC did not finish: ' + out[-1500:]
    res.ok = v is None and res.error is None
    return res


class Ctx:
    def __init__(self, prop, tier, level='model_checking'):
        self.prop = prop
        self.tier = tier
        self.level = level
        self.seed = int(os.environ.get('VERIF_SEED', '1') or 1)
        self.t0 = time.time()
        # one scratch directory per property, tier and evidence directory, so that a quick and a thorough run of the same
        # check (or a run against a scratch copy with its own VERIF_EVIDENCE) never delete each other's files
        tag = prop if tier == 'quick' else prop + '_' + tier
        if EVID != os.path.join(ROOT, 'evidence'):
            tag += '_' + os.path.basename(EVID.rstrip('/'))
        self.work = os.path.join(BUILD, 'work', tag)
        shutil.rmtree(self.work, ignore_errors=True)
        os.makedirs(self.work, exist_ok=True)
        os.makedirs(EVID, exist_ok=True)
        self.replay_dir = os.path.join(EVID, 'replay')
        os.makedirs(self.replay_dir, exist_ok=True)
        self.cov = {'states': 0, 'transitions': 0, 'traces_validated_against_impl': 0,
                    'samples': [], 'tlc_runs': [], 'driver_runs': [], 'trace_events_validated': 0}
        self.assumptions = []
        self.violations = 0
        self.known = 0
        self.errors = []
        self._md = 0
        kf = os.path.join(ROOT, 'known_findings.json')
        self.known_findings = json.load(open(kf)) if os.path.exists(kf) else []

    # ------------------------------------------------------------------ build
    def build(self, name, srcs, dispenso=(), flags=(), libs=(), sanitize=False, opt='-O1'):
        """Compile harness sources + the listed dispenso .cpp files from REPO's working tree.
        Objects are cached by the sha1 of the command line and of every dependency's content."""
        variant = 'tsan' if sanitize == 'thread' else ('san' if sanitize else 'std')
        objdir = os.path.join(BUILD, 'obj', variant, name)
        os.makedirs(objdir, exist_ok=True)
        lock = open(os.path.join(BUILD, '.lock'), 'w')
        fcntl.flock(lock, fcntl.LOCK_EX)
        try:
            base = ['g++', '-std=c++14', opt, '-g', '-fno-access-control', '-DDISPENSO_VERIF', '-DNDEBUG',
                    '-pthread', '-I' + REPO, '-I' + os.path.join(REPO, 'dispenso/third-party'), '-I' + os.path.join(REPO, 'dispenso/third-party/moodycamel'),
                    '-I' + os.path.join(ROOT, 'harness')]
            if sanitize == 'thread':
                base += ['-fsanitize=thread', '-fno-omit-frame-pointer']
            elif sanitize:
                base += ['-fsanitize=address,undefined', '-fno-omit-frame-pointer',
                         '-fno-sanitize-recover=undefined']
            base += list(flags)
            units = [(os.path.join(ROOT, s) if not os.path.isabs(s) else s) for s in srcs]
            units += [os.path.join(REPO, 'dispenso', d) for d in dispenso]
            jobs = []
            objs = []
            shared = os.path.join(BUILD, 'obj', variant, '_shared')
            os.makedirs(shared, exist_ok=True)
            for u in units:
                # objects are shared between drivers that compile a unit with identical flags
                key = hashlib.sha1((' '.join(base) + '|' + u).encode()).hexdigest()[:16]
                o = os.path.join(shared, os.path.basename(u).replace('.cpp', '') + '-' + key + '.o')
                objs.append(o)
                cmd = base + ['-MMD', '-MF', o + '.d', '-c', u, '-o', o]
                if self._stale(o, cmd):
                    jobs.append((u, o, cmd))

            def comp(job):
                u, o, cmd = job
                p = subprocess.run(cmd, stdout=subprocess.PIPE, stderr=subprocess.STDOUT, text=True)
                if p.returncode != 0:
                    return 'compile failed: %s\n%s' % (u, p.stdout[-6000:])
                self._stamp(o, cmd)
                return None
            with ThreadPoolExecutor(max_workers=NCPU) as ex:
                for err in ex.map(comp, jobs):
                    if err:
                        raise ToolError(err)
            # the executable is private to (source tree, evidence directory, tier): runs against a scratch copy of the
            # library or with their own evidence directory never replace each other's binaries
            ctxtag = hashlib.sha1(('%s|%s|%s' % (REPO, EVID, self.tier)).encode()).hexdigest()[:8]
            exedir = objdir if (REPO == '/repo' and EVID == os.path.join(ROOT, 'evidence') and self.tier == 'quick') \
                else os.path.join(objdir, ctxtag)
            os.makedirs(exedir, exist_ok=True)
            exe = os.path.join(exedir, name)
            link = ['g++', '-o', exe] + objs + ['-pthread'] + \
                (['-fsanitize=thread'] if sanitize == 'thread' else (['-fsanitize=address,undefined'] if sanitize else [])) + list(libs)
            if True:  # always relink (cheap); objects may have been rebuilt by another driver
                p = subprocess.run(link, stdout=subprocess.PIPE, stderr=subprocess.STDOUT, text=True)
                if p.returncode != 0:
                    raise ToolError('link failed: %s\n%s' % (name, p.stdout[-6000:]))
            return exe
        finally:
            fcntl.flock(lock, fcntl.LOCK_UN)
            lock.close()

    def _deps(self, o):
        try:
            txt = open(o + '.d').read()
        except OSError:
            return None
        txt = txt.replace('\\\n', ' ')
        parts = txt.split(':', 1)[1].split()
        return [p for p in parts if p.startswith(REPO) or p.startswith(ROOT) or not p.startswith('/usr')]

    def _sig(self, o, cmd):
        deps = self._deps(o)
        if deps is None:
            return None
        h = hashlib.sha1(' '.join(cmd).encode())
        for d in sorted(set(deps)):
            try:
                h.update(d.encode())
                h.update(sha(d).encode())
            except OSError:
                return None
        return h.hexdigest()

    def _stale(self, o, cmd):
        if not os.path.exists(o):
            return True
        try:
            old = open(o + '.sig').read()
        except OSError:
            return True
        return self._sig(o, cmd) != old

    def _stamp(self, o, cmd):
        s = self._sig(o, cmd)
        if s:
            open(o + '.sig', 'w').write(s)

    # ------------------------------------------------------------------ TLC
    def tlc(self, specdir, module, cfg, workers=None, dump=None, simulate=None, depth=None,
            env=None, timeout=900, coverage=False, java_opts=(), label=None, heap='8g',
            extra=(), count=True, deque=False):
        specdir = os.path.join(ROOT, specdir)
        self._md += 1
        md = os.path.join(self.work, 'md%d' % self._md)
        cmd = self._tlc_base(java_opts, heap, deque)
        cmd += ['-workers', str(workers or NCPU), '-metadir', md, '-config', cfg, '-noGenerateSpecTE']
        if dump:
            cmd += ['-dump', 'dot,actionlabels', dump]
        if simulate:
            cmd += ['-simulate', 'num=%d' % simulate]
            if depth:
                cmd += ['-depth', str(depth)]
            cmd += ['-seed', str(self.seed)]
        if coverage:
            cmd += ['-coverage', '1']
        cmd += list(extra)
        cmd += [module]
        e = dict(os.environ)
        if env:
            e.update(env)
        t0 = time.time()
        res = TlcResult()
        try:
            p = subprocess.run(cmd, cwd=specdir, env=e, stdout=subprocess.PIPE, stderr=subprocess.STDOUT,
                               text=True, timeout=timeout)
            out = p.stdout
        except subprocess.TimeoutExpired as ex:
            out = (ex.stdout or b'').decode() if isinstance(ex.stdout, bytes) else (ex.stdout or '')
            res.wall = time.time() - t0
            parse_tlc(out, res)
            res.ok = False
            res.error = 'TLC timed out after %ds' % timeout
            shutil.rmtree(md, ignore_errors=True)
            if simulate and res.violation is None:
                # a simulation that is cut off by the time limit without violation is a normal end
                res.error = None
                res.ok = True
                self.cov['tlc_runs'].append({'spec': module, 'cfg': cfg, 'label': label or '', 'distinct': res.distinct,
                                             'generated': res.generated, 'mode': 'simulate (time-boxed)',
                                             'wall_s': round(res.wall, 2)})
                return res
            if res.violation:
                return res
            raise ToolError('TLC timed out after %ds on %s/%s (no result)' % (timeout, module, cfg))
        res.wall = time.time() - t0
        parse_tlc(out, res)
        shutil.rmtree(md, ignore_errors=True)
        if count:
            self.cov['states'] += res.distinct
            self.cov['transitions'] += res.generated
        self.cov['tlc_runs'].append({'spec': module, 'cfg': cfg, 'label': label or '', 'distinct': res.distinct,
                                     'generated': res.generated, 'depth': res.depth,
                                     'violation': res.violation, 'wall_s': round(res.wall, 2),
                                     'mode': 'simulate' if simulate else 'bfs'})
        if res.error:
            raise ToolError('TLC error in %s/%s:\n%s' % (module, cfg, res.error))
        return res

    def _tlc_base(self, java_opts, heap, deque):
        cmd = ['java', '-XX:+UseParallelGC', '-Xmx' + heap]
        if deque:
            cmd += ['-Dtlc2.tool.queue.IStateQueue=StateDeque']
        cmd += list(java_opts)
        cp = os.environ.get('VERIF_TLC_CP')
        if not cp:
            cp = _tlc_classpath()
        cmd += ['-cp', cp, 'tlc2.TLC']
        return cmd

    def check_model(self, specdir, module, cfg, what, label=None, vacuity_exempt=(), required=None, **kw):
        """E1: run TLC; a violated invariant/property is a property violation of the DESIGN
        (reported with the counterexample as replay file).  Also fails on vacuity: an action that
        was never taken (unless exempted)."""
        res = self.tlc(specdir, module, cfg, coverage=True, label=label, **kw)
        if res.violation:
            path = self.save_replay('%s-%s-%s.txt' % (self.prop, module, cfg.replace('.cfg', '')),
                                    'TLC %s on %s/%s\n\n%s' % (res.violation, module, cfg, res.counterexample()))
            self.violation('model:%s:%s:%s' % (module, cfg, res.violation), what + ': ' + res.violation, path)
        else:
            if required is not None:
                dead = [a for a in required if res.actions.get(a, (0, 0))[1] == 0]
            else:
                dead = [a for a, (d, g) in res.actions.items() if g == 0 and a not in vacuity_exempt
                        and a not in ('Init',)]
            if dead:
                raise ToolError('vacuous model run %s/%s: actions never taken: %s' % (module, cfg, dead))
        return res

    def validate(self, specdir, module, cfg, trace, what, executions=0, timeout=900, label=None,
                 heap='8g', deque=False, report=True):
        """E3: TLC trace validation of an ndjson trace recorded from the implementation."""
        nlines = sum(1 for _ in open(trace))
        res = self.tlc(specdir, module, cfg, workers=1, env={'TRACE': trace}, timeout=timeout,
                       label=label or ('trace:' + os.path.basename(trace)), heap=heap, count=False,
                       deque=deque)
        self.cov['trace_events_validated'] += max(0, (res.depth or 0) - 1)
        if res.violation and report:
            line = res.rejected_line
            if line is None and res.depth:
                line = res.depth  # invariant violated in the state reached by that line
            ctx_lines = self._trace_context(trace, line)
            path = self.save_replay('%s-%s-trace.txt' % (self.prop, module),
                                    'trace %s\nTLC: %s at trace line %s of %d\n\n%s\n\n--- trace context ---\n%s' %
                                    (trace, res.violation, line, nlines, res.counterexample()[:6000], ctx_lines))
            kind = 'rejected' if res.violation == 'Postcondition' else res.violation
            self.violation('trace:%s:%s' % (module, kind),
                           '%s: implementation trace %s (line %s)' % (what, kind, line), path)
        elif not res.violation:
            self.cov['traces_validated_against_impl'] += executions
        return res

    def _trace_context(self, trace, line, before=25):
        if not line:
            return ''
        out = []
        # find the start of the execution (last Reset before `line`)
        lines = []
        with open(trace) as f:
            for i, l in enumerate(f, 1):
                if i > line + 2:
                    break
                lines.append(l.rstrip('\n'))
        start = 0
        for i in range(min(line, len(lines)) - 1, -1, -1):
            if '"e":"Reset"' in lines[i]:
                start = i
                break
        seg = lines[start:line + 2]
        if len(seg) > 400:
            seg = seg[:5] + ['...'] + seg[-before:]
        for k, l in enumerate(seg):
            out.append(l[:600])
        return '\n'.join(out)

    # ------------------------------------------------------------------ walker / driver
    def walker(self, dot, out, max_paths=None):
        cmd = [sys.executable, os.path.join(ROOT, 'bin', 'walker.py'), dot, out]
        if max_paths:
            cmd.append(str(max_paths))
        p = subprocess.run(cmd, stdout=subprocess.PIPE, stderr=subprocess.PIPE, text=True)
        if p.returncode != 0:
            raise ToolError('walker failed: ' + p.stderr[-2000:] + p.stdout[-500:])
        info = json.loads(p.stdout.strip().splitlines()[-1])
        try:
            os.remove(dot)
        except OSError:
            pass
        return info

    def driver(self, exe, args, what, timeout=600, label=None, env=None, allow_incomplete=False, report=True):
        """Runs a driver; parses its DRIVER line.  A run that diverges from the schedule, gets stuck,
        crashes or (unless allowed) deadlocks is a violation candidate: it is re-run once and only
        reported if it repeats."""
        def once():
            e = dict(os.environ)
            e.setdefault('ASAN_OPTIONS', 'detect_leaks=1:abort_on_error=0:exitcode=66')
            e.setdefault('UBSAN_OPTIONS', 'print_stacktrace=1:halt_on_error=1:exitcode=67')
            if env:
                e.update(env)
            t0 = time.time()
            try:
                p = subprocess.run([exe] + [str(a) for a in args], stdout=subprocess.PIPE,
                                   stderr=subprocess.STDOUT, text=True, timeout=timeout, env=e, errors='replace')
                out, rc = p.stdout, p.returncode
            except subprocess.TimeoutExpired as ex:
                out = ex.stdout if isinstance(ex.stdout, str) else (ex.stdout or b'').decode(errors='replace')
                rc = -999
            tot = {}
            m = re.search(r'^DRIVER (.*)$', out, re.M)
            if m:
                for kv in m.group(1).split():
                    k, v = kv.split('=')
                    tot[k] = int(v)
            return rc, out, tot, time.time() - t0
        rc, out, tot, wall = once()
        bad = self._driver_bad(rc, tot, allow_incomplete)
        if bad and not report:
            tot = {}
        elif bad:
            rc2, out2, tot2, wall2 = once()
            bad2 = self._driver_bad(rc2, tot2, allow_incomplete)
            if bad2:
                path = self.save_replay('%s-driver-%s.txt' % (self.prop, label or os.path.basename(exe)),
                                        'driver: %s %s\nproblem: %s\n\n%s' %
                                        (exe, ' '.join(shlex.quote(str(a)) for a in args), bad2, out2[-8000:]))
                self.violation('driver:%s:%s' % (os.path.basename(exe), bad2.split(':')[0]),
                               '%s: %s' % (what, bad2), path)
            else:
                rc, out, tot, wall = rc2, out2, tot2, wall2
        self.cov['driver_runs'].append(dict(tot, label=label or '', wall_s=round(wall, 2), rc=rc))
        return tot, out

    @staticmethod
    def _driver_bad(rc, tot, allow_incomplete):
        if rc == -999:
            return 'timeout: driver did not finish'
        if rc != 0:
            return 'crash: driver exit status %d' % rc
        if not tot:
            return 'crash: driver printed no DRIVER line'
        if tot.get('diverged', 0):
            return 'diverged: the implementation cannot follow a behaviour of the specification'
        if tot.get('stuck', 0):
            return 'stuck: a step did not complete'
        if tot.get('deadlocks', 0) and not allow_incomplete:
            return 'deadlock: all threads blocked'
        return None

    # ------------------------------------------------------------------ reporting
    def save_replay(self, name, text):
        self._rp = getattr(self, '_rp', 0) + 1
        base, ext = os.path.splitext(name)
        path = os.path.join(self.replay_dir, '%s-%d%s' % (base, self._rp, ext))
        with open(path, 'w') as f:
            f.write(text)
        return path

    def sample(self, s):
        if len(self.cov['samples']) < 8:
            self.cov['samples'].append(s)

    def sample_trace(self, trace, n=12, skip=0):
        try:
            with open(trace) as f:
                lines = []
                for i, l in enumerate(f):
                    if i < skip:
                        continue
                    lines.append(json.loads(l))
                    if len(lines) >= n:
                        break
            self.sample({'trace_excerpt': lines})
        except Exception:
            pass

    def violation(self, signature, what, replay):
        for k in self.known_findings:
            if k.get('property') == self.prop and k.get('status') == 'open' and \
                    re.search(k.get('signature', '^$'), signature + ' ' + what):
                log('KNOWN-FINDING: property=%s %s' % (self.prop, k.get('what', what)))
                self.known += 1
                return
        self.violations += 1
        log('VIOLATION property=%s replay=%s' % (self.prop, replay))
        log('  what: %s' % what)
        log('  signature: %s' % signature)

    def finish(self, extra=None):
        wall = time.time() - self.t0
        cov = self.cov
        if extra:
            cov.update(extra)
        if not cov['samples']:
            cov['samples'] = [{'note': 'no sample recorded'}]
        ev = {
            'property_id': self.prop,
            'tier': self.tier,
            'seed': self.seed,
            'level': self.level,
            'coverage': cov,
            'assumptions': self.assumptions,
            'wall_s': round(wall, 2),
            'violations': self.violations,
            'known_findings_reported': self.known,
        }
        with open(os.path.join(EVID, self.prop + '.json'), 'w') as f:
            json.dump(ev, f, indent=1)
        log('%s %s tier=%s states=%d transitions=%d traces=%d wall=%.1fs' % (
            'FAIL' if self.violations else ('ERROR' if cov.get('tool_error') else 'PASS'), self.prop, self.tier,
            cov.get('states', 0),
            cov.get('transitions', 0), cov.get('traces_validated_against_impl', 0), wall))
        return 1 if self.violations else 0


_CP = None


def _tlc_classpath():
    global _CP
    if _CP:
        return _CP
    # reuse whatever classpath the installed `tlc` wrapper uses (tla2tools + CommunityModules)
    cp = [TLA_JAR]
    d = os.path.dirname(TLA_JAR)
    for f in sorted(os.listdir(d)):
        if f.endswith('.jar') and os.path.join(d, f) not in cp:
            cp.append(os.path.join(d, f))
    _CP = ':'.join(cp)
    return _CP


def main(argv):
    if len(argv) < 2:
        print('usage: vcheck <Cxx> [quick|thorough]')
        return 2
    prop = argv[1]
    tier = argv[2] if len(argv) > 2 else os.environ.get('VERIF_TIER', 'quick')
    sys.path.insert(0, os.path.join(ROOT, 'checks'))
    try:
        mod = __import__(prop)
    except ImportError as e:
        print('ERROR: no check module for %s: %s' % (prop, e))
        return 2
    ctx = Ctx(prop, tier, getattr(mod, 'LEVEL', 'model_checking'))
    try:
        mod.run(ctx)
    except ToolError as e:
        log('ERROR property=%s %s' % (prop, str(e)[:6000]))
        ctx.errors.append(str(e)[:2000])
        ctx.cov['tool_error'] = str(e)[:2000]
        rc = ctx.finish()
        # a violation that was already reported stands (typically a crashed driver, whose truncated trace then
        # trips the validator): exit 1; a tool error without any violation is exit 2 (the check did not decide)
        return 1 if rc == 1 else 2
    return ctx.finish()
