#!/usr/bin/env python3
"""Regenerates the generated list of findings in DESIGN.md §0.3 from known_findings.json."""
import json, os
ROOT = os.path.dirname(os.path.dirname(os.path.abspath(__file__)))
k = json.load(open(os.path.join(ROOT, 'known_findings.json')))
rows = ['| %s | %s | %s | %s |' % (e['property'], e['status'], e.get('commit', '-'), e['what'].replace('|', '/')) for e in sorted(k, key=lambda e: (e['property'], e['status']))]
block = ('<!-- findings:begin -->\n**Complete list (generated from `known_findings.json`; `fixed` = separate `fix:` commit in /repo, `open` = known finding the check reports as KNOWN-FINDING):**\n\n'
         '| Prop | Status | Commit | What failed |\n|------|--------|--------|-------------|\n' + '\n'.join(rows) + '\n<!-- findings:end -->\n')
p = os.path.join(ROOT, 'DESIGN.md')
s = open(p).read()
if '<!-- findings:begin -->' in s:
    a = s.index('<!-- findings:begin -->'); b = s.index('<!-- findings:end -->') + len('<!-- findings:end -->\n')
    s = s[:a] + block + s[b:]
else:
    s = s.replace('### 0.4 False alarms', block + '\n### 0.4 False alarms')
open(p, 'w').write(s)
print(len(rows))
