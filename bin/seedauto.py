#!/usr/bin/env python3
"""bin/seedauto.py <name> <prop> [note]: derive seeded/<name>/meta.json 'result' from the check log of the seeded run"""
import re, subprocess, sys
name, prop = sys.argv[1:3]
note = sys.argv[3] if len(sys.argv) > 3 else ''
log = open('/verif/seeded/%s/check_%s.log' % (name, prop)).read()
sigs = []
for m in re.finditer(r'^VIOLATION property=\S+ replay=.*\n  what: (.*)\n  signature: (.*)$', log, re.M):
    w = m.group(1)
    w = w.split(': ', 1)[1] if ': ' in w else w
    s = '%s [%s]' % (w[:160], m.group(2)[:80])
    if s not in sigs:
        sigs.append(s)
if re.search(r'^PASS ', log, re.M) or not sigs:
    res = 'MISSED by %s quick' % prop
else:
    res = 'CAUGHT by %s quick: ' % prop + '; '.join(sigs[:4])
subprocess.check_call(['/verif/bin/seedmeta.py', name, prop, res, note])
print(name, res[:200])
