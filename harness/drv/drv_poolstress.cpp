// E5 for the pool checks (C01 / C03 / C08): free-running (no controller, real futex, real threads) rounds
// of submissions through every public path racing workers, resize and the destructor.  The hooks of the
// library are inert here, so windows BETWEEN two hook points are exercised too.  Each round writes one
// record that a user of the public API could have produced (plus workRemaining_ read through
// -fno-access-control at a quiescent point):
//   {"e":"PoolRound","kind":K,"n":threads,"sub":submitted,"once":ran exactly once,"multi":ran more than once,
//    "lost":never ran,"late":ran after the pool object was gone,"wr":workRemaining_ at quiescence (0 if not sampled),
//    "stuck":0|1}
//   --out FILE --stress ROUNDS --seed S
#include <dispenso/task_set.h>
#include <dispenso/thread_pool.h>

#include <unistd.h>

#include <atomic>
#include <chrono>
#include <cstdio>
#include <thread>
#include <vector>

#include "../ctl/ctl.h"
#include "../ctl/drv_common.h"

static std::atomic<long long> g_progress{0};
static FILE* g_out = nullptr;
static char g_roundInfo[256];

static void watchdog() {
  long long last = -1;
  int idle = 0;
  for (;;) {
    std::this_thread::sleep_for(std::chrono::milliseconds(500));
    long long p = g_progress.load();
    if (p == last) {
      if (++idle >= 40) { // 20 s without a finished round
        fprintf(g_out, "{\"e\":\"PoolRound\",%s,\"sub\":0,\"once\":0,\"multi\":0,\"lost\":0,\"late\":0,\"wr\":0,\"stuck\":1}\n",
                g_roundInfo);
        fflush(g_out);
        printf("DRIVER executions=%lld steps=%lld completed=%lld deadlocks=1 diverged=0 stuck=0\n", p + 1, p + 1, p);
        fflush(stdout);
        _exit(0);
      }
    } else {
      idle = 0;
      last = p;
    }
  }
}

struct Counters {
  std::vector<std::atomic<int>> runs;
  std::atomic<int> poolGone{0};
  std::atomic<int> late{0};
  explicit Counters(size_t n) : runs(n) {
    for (auto& r : runs)
      r.store(0);
  }
  void hit(size_t i) {
    if (poolGone.load(std::memory_order_acquire))
      late.fetch_add(1);
    runs[i].fetch_add(1, std::memory_order_relaxed);
  }
};

static void spin(uint64_t n) {
  for (volatile uint64_t k = 0; k < n; ++k) {
  }
}

// submit task ids [base, base+cnt) through a path chosen per task
static void submitMixed(dispenso::ThreadPool& pool, Counters& c, size_t base, size_t cnt, uint64_t& rng) {
  size_t i = 0;
  while (i < cnt) {
    uint64_t r = ctl::splitmix(rng);
    switch (r % 6) {
      case 0:
        pool.schedule([&c, id = base + i]() { c.hit(id); });
        ++i;
        break;
      case 1:
        pool.schedule([&c, id = base + i]() { c.hit(id); }, dispenso::ForceQueuingTag());
        ++i;
        break;
      case 2: {
        size_t k = std::min<size_t>(cnt - i, 1 + (r >> 8) % 5);
        pool.scheduleBulk(k, [&c, b = base + i](size_t j) { return [&c, id = b + j]() { c.hit(id); }; });
        i += k;
        break;
      }
      case 3: {
        dispenso::TaskSet ts(pool);
        size_t k = std::min<size_t>(cnt - i, 1 + (r >> 8) % 4);
        ts.scheduleBulk(k, [&c, b = base + i](size_t j) { return [&c, id = b + j]() { c.hit(id); }; });
        i += k;
        ts.wait();
        break;
      }
      case 4: {
        dispenso::ConcurrentTaskSet ts(pool);
        size_t k = std::min<size_t>(cnt - i, 1 + (r >> 8) % 3);
        for (size_t j = 0; j < k; ++j)
          ts.schedule([&c, id = base + i + j]() { c.hit(id); });
        i += k;
        ts.wait();
        break;
      }
      default:
        spin((r >> 8) % 200);
        pool.schedule([&c, id = base + i]() { c.hit(id); });
        ++i;
        break;
    }
  }
}

static void record(int kind, int n, Counters& c, long long wr) {
  long long once = 0, multi = 0, lost = 0;
  for (auto& r : c.runs) {
    int v = r.load();
    if (v == 1)
      ++once;
    else if (v == 0)
      ++lost;
    else
      ++multi;
  }
  fprintf(g_out,
          "{\"e\":\"PoolRound\",\"kind\":%d,\"n\":%d,\"sub\":%zu,\"once\":%lld,\"multi\":%lld,\"lost\":%lld,\"late\":%d,"
          "\"wr\":%lld,\"stuck\":0}\n",
          kind, n, c.runs.size(), once, multi, lost, c.late.load(), wr);
}

int main(int argc, char** argv) {
  drv::Args a(argc, argv);
  g_out = fopen(a.str("out", "poolstress.ndjson").c_str(), "w");
  if (!g_out)
    return 2;
  long long rounds = a.num("stress", 200);
  uint64_t rng = (uint64_t)a.num("seed", 1) * 0x9e3779b97f4a7c15ULL + 11;
  std::thread(watchdog).detach();
  for (long long r = 0; r < rounds; ++r) {
    int kind = (int)(ctl::splitmix(rng) % 4);
    int n = (int)(ctl::splitmix(rng) % 5); // 0..4 threads
    snprintf(g_roundInfo, sizeof g_roundInfo, "\"kind\":%d,\"n\":%d", kind, n);
    if (kind == 0) {
      // producers racing the workers; destructor drains what is left (C01)
      size_t per = 20 + ctl::splitmix(rng) % 30;
      Counters c(2 * per);
      {
        dispenso::ThreadPool pool((size_t)n, 1 + ctl::splitmix(rng) % 32);
        uint64_t r2 = rng ^ 0x5555;
        std::thread p2([&]() { submitMixed(pool, c, per, per, r2); });
        submitMixed(pool, c, 0, per, rng);
        p2.join();
      }
      c.poolGone.store(1, std::memory_order_release);
      record(kind, n, c, 0);
    } else if (kind == 1) {
      // tasks that schedule a child on their own pool while the destructor is joining (C01)
      size_t parents = (size_t)std::max(n, 1) + ctl::splitmix(rng) % 2; // every worker busy with a parent
      Counters c(2 * parents);
      std::atomic<int> go{0};
      // released before, while and after the destructor's drain / stop / join sequence
      uint64_t delay = (ctl::splitmix(rng) % 4 == 0) ? ctl::splitmix(rng) % 3000 : ctl::splitmix(rng) % 150000;
      std::thread releaser;
      {
        dispenso::ThreadPool pool((size_t)std::max(n, 1), 32);
        for (size_t i = 0; i < parents; ++i)
          pool.schedule(
              [&, i]() {
                c.hit(i);
                while (!go.load(std::memory_order_acquire)) {
                }
                spin(20 * i);
                pool.schedule([&c, id = parents + i]() { c.hit(id); }, dispenso::ForceQueuingTag());
              },
              dispenso::ForceQueuingTag());
        releaser = std::thread([&go, delay]() {
          spin(delay);
          go.store(1, std::memory_order_release);
        });
        // the destructor starts while the parents wait for `go`
      }
      releaser.join();
      c.poolGone.store(1, std::memory_order_release);
      record(kind, n, c, 0);
    } else if (kind == 2) {
      // resize racing producers (C03); workRemaining_ at quiescence (C08)
      size_t per = 20 + ctl::splitmix(rng) % 20;
      Counters c(2 * per);
      long long wr = 0;
      {
        dispenso::ThreadPool pool((size_t)std::max(n, 1), 32);
        uint64_t r2 = rng ^ 0x77;
        std::thread p2([&]() { submitMixed(pool, c, per, per, r2); });
        for (int k = 0; k < 4; ++k) {
          pool.resize((ssize_t)(ctl::splitmix(rng) % 4));
          spin(ctl::splitmix(rng) % 500);
        }
        submitMixed(pool, c, 0, per, rng);
        p2.join();
        pool.resize(2);
        // quiescence: every task ran and the workers have flushed their batches (they park after a short spin)
        auto t0 = std::chrono::steady_clock::now();
        for (;;) {
          bool all = true;
          for (auto& x : c.runs)
            all = all && x.load() >= 1;
          wr = (long long)pool.workRemaining_.load();
          if ((all && wr == 0) || std::chrono::steady_clock::now() - t0 > std::chrono::seconds(15))
            break;
          std::this_thread::yield();
        }
      }
      c.poolGone.store(1, std::memory_order_release);
      record(kind, n, c, wr);
    } else {
      // task-set bulk through the ring fast path from two task sets at once, then wait (C01/C02 hand-over)
      size_t per = 8 + ctl::splitmix(rng) % 8;
      Counters c(2 * per);
      {
        dispenso::ThreadPool pool((size_t)std::max(n, 1), 32);
        auto work = [&](size_t base, uint64_t seed) {
          dispenso::TaskSet ts(pool);
          size_t i = 0;
          while (i < per) {
            size_t k = std::min<size_t>(per - i, 1 + ctl::splitmix(seed) % 3);
            ts.scheduleBulk(k, [&c, b = base + i](size_t j) { return [&c, id = b + j]() { c.hit(id); }; });
            i += k;
          }
          ts.wait();
        };
        std::thread p2([&]() { work(per, rng ^ 0x99); });
        work(0, rng ^ 0x33);
        p2.join();
      }
      c.poolGone.store(1, std::memory_order_release);
      record(kind, n, c, 0);
    }
    g_progress.fetch_add(1);
  }
  fclose(g_out);
  printf("DRIVER executions=%lld steps=%lld completed=%lld deadlocks=0 diverged=0 stuck=0\n", rounds, rounds, rounds);
  fflush(stdout);
  _exit(0);
}
