// Driver for the bit-math helpers (spec/pure/Bits.tla, property C44).  E5: evaluates the COMPILED
// functions of dispenso/detail/math.h, dispenso/platform.h and their public wrappers in
// dispenso/util.h on structured and seeded random inputs and writes one observation record per
// input.  The driver judges nothing: spec/pure/BitsTrace.tla (TLC) is the oracle.
//
//   --out FILE     observation records (ndjson)
//   --seed S       seed of the random classes
//   --random N     number of random 64-bit words (N/2 random 32-bit words)
//   --malloc R     repetitions of the alignedMalloc sweep (k = 0..16, several sizes)
//
// Record formats (a word is the ascending list of its set-bit positions; never a raw 64-bit number):
//   {"e":"Reset"}
//   {"e":"w","W":64|32,"cls":class,"v":[bits],
//      "np2":[bits],"np2P":[bits]   detail::nextPow2 / dispenso::nextPow2     (only if v <= 2^63, W=64)
//      "l2c":n,"l2cP":n             detail::log2const / dispenso::log2const   (only if v != 0)
//      "l2":n,"l2P":n               detail::log2 / dispenso::log2             (only if v != 0)
//      "ctz":n                      detail::countTrailingZeros                (only if v != 0, W=64)
//      "pop":n                      detail::countSetBits                      (W=64)
//      "al":[bits],"alP":[bits]}    detail::alignToCacheLine / dispenso::     (only if no wrap, W=64)
//   {"e":"ce",...same fields...}    the constexpr functions evaluated by the COMPILER
//   {"e":"am","k":k,"dflt":0|1,"bytes":b,"rem":addr mod 2^k,"off":addr-malloc'd block,"line":log2 kCacheLineSize}
#include <dispenso/detail/math.h>
#include <dispenso/platform.h>
#include <dispenso/util.h>

#include <cstring>

#include "../ctl/ctl.h"
#include "../ctl/drv_common.h"

using ctl::Json;

static void bits(Json& j, const char* key, uint64_t v) {
  j.key(key).beginArr();
  for (int b = 0; b < 64; ++b)
    if ((v >> b) & 1)
      j.num(b);
  j.endArr();
}

static constexpr int kLineLog = dispenso::detail::log2const(static_cast<uint64_t>(dispenso::kCacheLineSize));

static bool np2InDomain(uint64_t v) {
  return v <= (uint64_t(1) << 63); // documented: result must be representable
}
static bool alignInDomain(uint64_t v) {
  return v <= ~uint64_t(0) - (dispenso::kCacheLineSize - 1); // v + mask does not wrap
}

static long long g_records = 0;

static void word64(ctl::Trace& tr, const char* cls, uint64_t v) {
  namespace d = dispenso::detail;
  Json j;
  j.beginObj();
  j.kv("e", std::string("w")).kv("W", 64).kv("cls", std::string(cls));
  bits(j, "v", v);
  if (np2InDomain(v)) {
    bits(j, "np2", d::nextPow2(v));
    bits(j, "np2P", dispenso::nextPow2(v));
  }
  if (v != 0) {
    j.kv("l2c", d::log2const(v)).kv("l2cP", dispenso::log2const(v));
    j.kv("l2", d::log2(v)).kv("l2P", dispenso::log2(v));
    j.kv("ctz", d::countTrailingZeros(v));
  }
  j.kv("pop", d::countSetBits(v));
  if (alignInDomain(v)) {
    bits(j, "al", d::alignToCacheLine(static_cast<uintptr_t>(v)));
    bits(j, "alP", dispenso::alignToCacheLine(static_cast<uintptr_t>(v)));
  }
  j.kv("line", kLineLog);
  j.endObj();
  tr.line(j.s);
  ++g_records;
}

static void word32(ctl::Trace& tr, const char* cls, uint32_t v) {
  namespace d = dispenso::detail;
  if (v == 0)
    return; // every 32-bit helper requires v != 0
  Json j;
  j.beginObj();
  j.kv("e", std::string("w")).kv("W", 32).kv("cls", std::string(cls));
  bits(j, "v", v);
  j.kv("l2c", d::log2const(v));
  j.kv("l2", d::log2(v));
  j.kv("line", kLineLog);
  j.endObj();
  tr.line(j.s);
  ++g_records;
}

// ------------------------------------------------------------------ compile-time evaluation
struct CeTable {
  static constexpr int N = 64 * 3;
  uint64_t in[N];
  uint64_t np2[N];
  uint32_t l2c[N];
  uint32_t l2c32[N];
  uint64_t al[N];
};
constexpr CeTable makeCe() {
  CeTable t{};
  for (int k = 0; k < 64; ++k) {
    for (int d = 0; d < 3; ++d) {
      uint64_t v = (uint64_t(1) << k) + static_cast<uint64_t>(d) - 1; // 2^k - 1, 2^k, 2^k + 1
      int i = k * 3 + d;
      t.in[i] = v;
      t.np2[i] = dispenso::nextPow2(v);
      t.l2c[i] = v ? dispenso::log2const(v) : 0;
      t.l2c32[i] = static_cast<uint32_t>(v) ? dispenso::detail::log2const(static_cast<uint32_t>(v)) : 0;
      t.al[i] = dispenso::alignToCacheLine(static_cast<uintptr_t>(v));
    }
  }
  return t;
}
static constexpr CeTable kCe = makeCe(); // forces evaluation by the compiler

static void constexprRecords(ctl::Trace& tr) {
  for (int i = 0; i < CeTable::N; ++i) {
    uint64_t v = kCe.in[i];
    Json j;
    j.beginObj();
    j.kv("e", std::string("ce")).kv("W", 64).kv("cls", std::string("constexpr"));
    bits(j, "v", v);
    if (np2InDomain(v))
      bits(j, "np2", kCe.np2[i]);
    if (v != 0)
      j.kv("l2c", kCe.l2c[i]);
    if (alignInDomain(v))
      bits(j, "al", kCe.al[i]);
    j.kv("line", kLineLog);
    j.endObj();
    tr.line(j.s);
    ++g_records;
    uint32_t v32 = static_cast<uint32_t>(v);
    if (v32 != 0 && v32 == v) {
      Json q;
      q.beginObj();
      q.kv("e", std::string("ce")).kv("W", 32).kv("cls", std::string("constexpr"));
      bits(q, "v", v32);
      q.kv("l2c", kCe.l2c32[i]);
      q.kv("line", kLineLog);
      q.endObj();
      tr.line(q.s);
      ++g_records;
    }
  }
}

// ------------------------------------------------------------------------------ alignedMalloc
static void mallocRecord(ctl::Trace& tr, int k, bool dflt, size_t bytes, std::vector<void*>& keep, bool hold) {
  void* p = dflt ? dispenso::alignedMalloc(bytes) : dispenso::alignedMalloc(bytes, size_t(1) << k);
  uintptr_t a = reinterpret_cast<uintptr_t>(p);
  uintptr_t old = *reinterpret_cast<uintptr_t*>(reinterpret_cast<char*>(p) - sizeof(uintptr_t));
  Json j;
  j.beginObj();
  j.kv("e", std::string("am")).kv("k", k).kv("dflt", dflt ? 1 : 0).kv("bytes", (long long)bytes);
  j.kv("rem", (long long)(a & ((uintptr_t(1) << k) - 1)));
  j.kv("off", (long long)(a - old));
  j.kv("ptr", (long long)sizeof(uintptr_t));
  j.kv("line", kLineLog);
  j.endObj();
  tr.line(j.s);
  tr.flush(); // the record must reach TLC even if a wrong address makes the next lines crash
  ++g_records;
  if (bytes)
    memset(p, 0xA5, bytes); // the caller may use all `bytes`
  if (hold)
    keep.push_back(p);
  else
    dispenso::alignedFree(p);
}

int main(int argc, char** argv) {
  drv::Args a(argc, argv);
  ctl::Trace tr(a.str("out", "/dev/null"));
  uint64_t seed = (uint64_t)a.num("seed", 1) * 0x9E3779B97F4A7C15ull + 12345;
  long long nrand = a.num("random", 1000);
  int mallocReps = (int)a.num("malloc", 2);

  tr.line("{\"e\":\"Reset\"}");

  // all words with at most two set bits
  word64(tr, "le2", 0);
  for (int i = 0; i < 64; ++i) {
    word64(tr, "le2", uint64_t(1) << i);
    for (int k = i + 1; k < 64; ++k)
      word64(tr, "le2", (uint64_t(1) << i) | (uint64_t(1) << k));
  }
  // 2^k - 1, 2^k + 1, and ~(2^k), ~0
  for (int k = 0; k < 64; ++k) {
    word64(tr, "pm1", (uint64_t(1) << k) - 1);
    word64(tr, "pm1", (uint64_t(1) << k) + 1);
    word64(tr, "co1", ~(uint64_t(1) << k));
  }
  word64(tr, "co1", ~uint64_t(0));
  // all contiguous runs lo..hi
  for (int lo = 0; lo < 64; ++lo)
    for (int hi = lo; hi < 64; ++hi) {
      uint64_t hiMask = (hi == 63) ? ~uint64_t(0) : ((uint64_t(1) << (hi + 1)) - 1);
      word64(tr, "run", hiMask & ~((uint64_t(1) << lo) - 1));
    }
  // seeded random words: uniform, sparse (AND of 2-3), dense (OR of 2-3), random width
  for (long long i = 0; i < nrand; ++i) {
    uint64_t r = ctl::splitmix(seed);
    switch (i & 3) {
      case 0:
        break;
      case 1:
        r &= ctl::splitmix(seed) & ctl::splitmix(seed);
        break;
      case 2:
        r |= ctl::splitmix(seed) | ctl::splitmix(seed);
        break;
      default:
        r >>= (ctl::splitmix(seed) & 63);
        break;
    }
    word64(tr, "rnd", r);
  }
  // 32-bit overloads
  for (int i = 0; i < 32; ++i) {
    word32(tr, "le2", uint32_t(1) << i);
    for (int k = i + 1; k < 32; ++k)
      word32(tr, "le2", (uint32_t(1) << i) | (uint32_t(1) << k));
  }
  for (int lo = 0; lo < 32; ++lo)
    for (int hi = lo; hi < 32; ++hi) {
      uint32_t hiMask = (hi == 31) ? ~uint32_t(0) : ((uint32_t(1) << (hi + 1)) - 1);
      word32(tr, "run", hiMask & ~((uint32_t(1) << lo) - 1));
    }
  for (int k = 0; k < 32; ++k) {
    word32(tr, "pm1", (uint32_t(1) << k) + 1);
    word32(tr, "co1", ~(uint32_t(1) << k));
  }
  for (long long i = 0; i < nrand / 2; ++i) {
    uint32_t r = static_cast<uint32_t>(ctl::splitmix(seed));
    if (i & 1)
      r >>= (ctl::splitmix(seed) & 31);
    word32(tr, "rnd", r);
  }
  constexprRecords(tr);
  tr.flush();

  // alignedMalloc: every power-of-two alignment 2^0 .. 2^16, fixed and random sizes; a random
  // subset of the blocks stays allocated during the sweep so that malloc hands out varied addresses
  std::vector<void*> keep;
  const size_t fixedSizes[] = {0, 1, 7, 8, 9, 63, 64, 65, 4095, 4096, 100000};
  for (int rep = 0; rep < mallocReps; ++rep) {
    for (int k = 0; k <= 16; ++k) {
      for (size_t b : fixedSizes)
        mallocRecord(tr, k, false, b, keep, (ctl::splitmix(seed) & 3) == 0);
      for (int i = 0; i < 6; ++i)
        mallocRecord(tr, k, false, (size_t)(ctl::splitmix(seed) % 3000), keep, (ctl::splitmix(seed) & 3) == 0);
    }
    for (size_t b : fixedSizes)
      mallocRecord(tr, kLineLog, true, b, keep, (ctl::splitmix(seed) & 1) == 0);
  }
  for (void* p : keep)
    dispenso::alignedFree(p);
  dispenso::alignedFree(nullptr); // documented: nullptr allowed

  tr.flush();
  printf("DRIVER executions=1 steps=%lld completed=1 deadlocks=0 diverged=0 stuck=0\n", g_records);
  fflush(stdout);
  return 0;
}
