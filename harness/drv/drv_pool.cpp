// Driver for dispenso::ThreadPool (spec/pool/ThreadPool.tla).
//   --out FILE  --prog "main:new3,idle,fq1,bulk2.2,quiet,del;p2:up,sched7"  --mult 32
//   --random N --seed S [--pct D] [--notimeout] [--spurious]
// ops: newN | up | idle | quiet | schedK | fqK | rschedK | rfqK | bulkK.N | resizeN | wakeB | del
#include <dispenso/thread_pool.h>

#include <unistd.h>

#include <atomic>
#include <set>

#include "../ctl/ctl.h"
#include "../ctl/drv_common.h"
#include "pool_proj.h"

using ctl::Json;

struct Op {
  std::string op;
  int a = 0, b = 0;
};
using Program = std::vector<std::pair<std::string, std::vector<Op>>>;

static Program parseProg(const std::string& s) {
  Program p;
  for (auto& th : drv::split(s, ';')) {
    if (th.empty())
      continue;
    auto nm = drv::split(th, ':');
    std::vector<Op> ops;
    for (auto& o : drv::split(nm.size() > 1 ? nm[1] : "", ',')) {
      if (o.empty())
        continue;
      Op d;
      size_t i = 0;
      while (i < o.size() && !isdigit((unsigned char)o[i]))
        ++i;
      d.op = o.substr(0, i);
      auto nums = drv::split(o.substr(i), '.');
      if (!nums.empty() && !nums[0].empty())
        d.a = atoi(nums[0].c_str());
      if (nums.size() > 1)
        d.b = atoi(nums[1].c_str());
      ops.push_back(d);
    }
    p.emplace_back(nm[0], ops);
  }
  return p;
}

struct World {
  dispenso::ThreadPool* pool = nullptr;
  std::atomic<int> submitted{0};
  std::atomic<int> ran{0};
  std::atomic<int> done{0}; // driver threads that finished their program
  int nDrivers = 0;
  int mult = 32;
};

static std::string resetLine(const Program& prog, const World& w, const std::string& tag, bool timeouts) {
  Json j;
  j.beginObj();
  j.kv("e", std::string("Reset"));
  j.kv("tag", tag);
  j.kv("mult", w.mult);
  j.kv("timeouts", timeouts ? 1 : 0);
  {
    int maxw = 1;
    for (auto& th : prog)
      for (auto& o : th.second)
        if (o.op == "new" || o.op == "resize")
          maxw = std::max(maxw, o.a);
    j.kv("maxw", maxw);
  }
  j.kv("gs", DISPENSO_TUNE_WAKE_GROUP_SIZE);
  j.kv("ss", DISPENSO_TUNE_STEAL_RING_SHARING);
  j.kv("ringcap", DISPENSO_VERIF_RING_CAPACITY);
  j.key("prog").beginObj();
  for (auto& th : prog) {
    j.key(th.first.c_str()).beginArr();
    for (auto& o : th.second) {
      j.beginObj();
      j.kv("op", o.op);
      j.kv("a", o.a);
      j.kv("b", o.b);
      j.endObj();
    }
    j.endArr();
  }
  j.endObj();
  j.endObj();
  return j.s;
}

static void runTask(World* w, int k, int child, bool childFq) {
  ctl::note("run", k);
  if (child > 0) {
    w->submitted.fetch_add(1);
    ctl::note("sub", child, childFq ? 1 : 0);
    if (childFq)
      w->pool->schedule([w, child]() { runTask(w, child, 0, false); }, dispenso::ForceQueuingTag());
    else
      w->pool->schedule([w, child]() { runTask(w, child, 0, false); });
    ctl::note("subret", child);
  }
  w->ran.fetch_add(1);
  ctl::note("end", k);
}

static void doOp(World* w, const Op& o) {
  auto& P = *w;
  if (o.op == "new") {
    ctl::note("op", 0, o.a);
    P.pool = new dispenso::ThreadPool((size_t)o.a, (size_t)P.mult);
  } else if (o.op == "up") {
    ctl::gate("GateUp", [w]() { return w->pool != nullptr; });
  } else if (o.op == "idle") {
    ctl::gate("GateIdle", [w]() { return w->pool && ctl::allDynamicThreadsParked(); });
  } else if (o.op == "quiet") {
    ctl::gate("GateQuiet", [w]() {
      return w->pool && ctl::allDynamicThreadsParked() && w->ran.load() == w->submitted.load();
    });
  } else if (o.op == "sync") {
    // all OTHER driver threads have finished (needed before destroying the pool: R1)
    ctl::gate("GateOthers", [w]() { return w->done.load() == w->nDrivers - 1; });
  } else if (o.op == "sched" || o.op == "fq" || o.op == "rsched" || o.op == "rfq") {
    int k = o.a;
    bool rec = o.op[0] == 'r';
    bool fq = o.op == "fq" || o.op == "rfq";
    int child = rec ? k + 50 : 0;
    P.submitted.fetch_add(1);
    ctl::note("sub", k, fq ? 1 : 0);
    if (fq)
      P.pool->schedule([w, k, child]() { runTask(w, k, child, true); }, dispenso::ForceQueuingTag());
    else
      P.pool->schedule([w, k, child]() { runTask(w, k, child, false); });
    ctl::note("subret", k);
  } else if (o.op == "placed" || o.op == "pfq") {
    int k = o.a;
    bool fq = o.op == "pfq";
    P.submitted.fetch_add(1);
    ctl::note("sub", k, fq ? 1 : 0);
    if (fq)
      P.pool->schedulePlaced([w, k]() { runTask(w, k, 0, false); }, dispenso::ForceQueuingTag());
    else
      P.pool->schedulePlaced([w, k]() { runTask(w, k, 0, false); });
    ctl::note("subret", k);
  } else if (o.op == "bulk") {
    int k = o.a, n = o.b;
    P.submitted.fetch_add(n);
    ctl::note("subn", k, n);
    P.pool->scheduleBulk((size_t)n, [w, k](size_t i) {
      int id = k + (int)i;
      return [w, id]() { runTask(w, id, 0, false); };
    });
    ctl::note("subnret", k, n);
  } else if (o.op == "rbulk") {
    int k = o.a, n = o.b;
    P.submitted.fetch_add(n);
    ctl::note("subn", k, n);
    auto gen = [w, k](size_t i) {
      int id = k + (int)i;
      return dispenso::OnceFunction([w, id]() { runTask(w, id, 0, false); });
    };
    // the racy guard TaskSetBase::scheduleBulkImpl uses before taking the ring fast path
    ctl::point("DrRingCheck");
    size_t numPool = (size_t)P.pool->numThreads();
    if ((size_t)n * 4 >= numPool && (size_t)n <= numPool &&
        P.pool->numRings_.load(std::memory_order_relaxed) >= (size_t)n) {
      P.pool->scheduleBulkToRings((size_t)n, gen, nullptr);
    } else {
      P.pool->scheduleBulk((size_t)n, gen);
    }
    ctl::note("subnret", k, n);
  } else if (o.op == "resize") {
    ctl::note("op", 1, o.a);
    P.pool->resize(o.a);
    ctl::note("opret", 1, o.a);
  } else if (o.op == "wake") {
    ctl::note("op", 2, o.a);
    P.pool->setSignalingWake(o.a != 0, std::chrono::microseconds(o.a ? 100000 : 200));
    ctl::note("opret", 2, o.a);
  } else if (o.op == "del") {
    ctl::note("op", 3, 0);
    auto* p = P.pool;
    delete p;
    P.pool = nullptr;
    ctl::note("opret", 3, 0);
  } else {
    fprintf(stderr, "ERROR drv_pool: unknown op %s\n", o.op.c_str());
    _exit(3);
  }
}

static ctl::RunResult execute(const Program& prog, int mult, ctl::RunOptions opts, ctl::Trace& tr,
                              const std::string& tag) {
  World* w = new World();
  w->mult = mult;
  w->nDrivers = (int)prog.size();
  tr.line(resetLine(prog, *w, tag, opts.allowTimeout));
  ctl::Controller c(tr);
  ctl::setSiteFilter(poolproj::siteFilter);
  c.setProjection([w](Json& j) {
    j.kv("sub", w->submitted.load());
    j.kv("ran", w->ran.load());
    if (w->pool) {
      j.kv("alive", 1);
      poolproj::project(*w->pool, j);
    } else {
      j.kv("alive", 0);
    }
  });
  for (auto& th : prog) {
    const std::vector<Op>* ops = &th.second;
    c.addThread(th.first, [w, ops]() {
      for (auto& o : *ops) {
        ctl::point("DrOp"); // every driver op starts with its own step
        doOp(w, o);
      }
      ctl::point("DrEnd");
      w->done.fetch_add(1);
    });
  }
  ctl::RunResult res = c.run(opts);
  if (res.completed) {
    Json j;
    j.beginObj();
    j.kv("e", std::string("End"));
    j.kv("sub", w->submitted.load());
    j.kv("ran", w->ran.load());
    j.kv("alive", w->pool ? 1 : 0);
    j.endObj();
    tr.line(j.s);
    delete w->pool; // scenario forgot `del`: not part of the trace
    delete w;
  }
  return res;
}

int main(int argc, char** argv) {
  drv::Args a(argc, argv);
  ctl::Trace tr(a.str("out", "trace.ndjson"));
  drv::Totals tot;
  std::vector<Program> progs;
  for (auto& ps : drv::split(a.str("prog", "main:new2,fq1,del"), '|'))
    progs.push_back(parseProg(ps));
  long long n = a.num("random", 10);
  uint64_t seed = (uint64_t)a.num("seed", 1);
  int mult = (int)a.num("mult", 32);
  bool stop = false;
  if (a.has("schedules")) {
    // replay of TLC behaviours (e.g. a counterexample): thread order and futex wake sets from the file
    auto scheds = ctl::readSchedules(a.str("schedules"));
    for (auto& s : scheds) {
      ctl::RunOptions o;
      o.mode = ctl::RunOptions::Replay;
      o.schedule = &s;
      o.allowTimeout = !a.has("notimeout");
      o.finishAfterReplay = !a.has("stopafter");
      o.maxSteps = (size_t)a.num("maxsteps", 20000);
      auto r = execute(progs[0], mult, o, tr, "replay");
      tot.add(r);
      if (!r.completed)
        break;
    }
    stop = true;
  }
  for (size_t pi = 0; pi < progs.size() && !stop; ++pi) {
    for (long long i = 0; i < n; ++i) {
      ctl::RunOptions o;
      o.mode = ctl::RunOptions::Random;
      o.seed = seed * 1000003ULL + (uint64_t)i;
      o.pctDepth = (int)a.num("pct", 0);
      o.allowTimeout = !a.has("notimeout");
      o.allowSpurious = a.has("spurious");
      o.maxSteps = (size_t)a.num("maxsteps", 20000);
      auto r = execute(progs[pi], mult, o, tr, "p" + std::to_string(pi) + "s" + std::to_string(o.seed));
      tot.add(r);
      if (!r.completed) {
        if (r.deadlock || r.steps >= o.maxSteps) {
          // parked threads cannot be unwound: one execution per process after an incomplete run
          stop = true;
          break;
        }
        stop = true;
        break;
      }
    }
  }
  tr.flush();
  tot.print();
  fflush(stdout);
  _exit(0);
}
