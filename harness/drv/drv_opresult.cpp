// Driver for dispenso::OpResult<T> (spec/seq/OpResult.tla), property C40.
//
// Sequential component: no scheduler.  Every public operation the specification takes is executed
// on the real object (two OpResult slots "a" and "b") and one ndjson line is written per operation
// (see OpResultTrace.tla):
//   {"e":action,"c":[object,args...],"r":[returned values],
//    "s":{"a":{st,has,val,am,own},"b":{...}},"live":n,"errs":n,"dead":n}
// has/val/am (address of the contained object mod alignof(T)) only for an object in state "ok";
// own = number of live tracked objects inside the OpResult's bytes; dead = number of copy / move
// constructions and assignments of the payload whose SOURCE object was not alive (see Pay).
// The C++ side judges nothing.
//
//   --out FILE
//   --schedules FILE     replay (bin/walker.py output); the first step of a schedule is Config
//   --random K --len L --seed S
//   --T int|big|both     contained type: tracked int / alignas(64) tracked struct
#include <dispenso/util.h>

#include "../ctl/ctl.h"
#include "../ctl/drv_common.h"
#include "seq_common.h"

using ctl::Json;

enum { NONE = 0, OK = 1, MOVED = 2 };

// Payload = the tracked element of seq_common.h + "was the object I am copied / moved / assigned
// FROM alive?".  Construct / destroy counters stay balanced when an OpResult ends the lifetime of
// its contained object and THEN reads it as the source of the new one (value assignment /
// emplace-style paths whose argument aliases the contained object: r = r.value(),
// best = std::max(best.value(), cand)); with an int payload even the value survives.  Only the
// liveness of the source tells, so it is recorded on its own ("dead") next to the registry's errs.
namespace {
long long g_deadSrc = 0;
template <int A>
struct Pay : Elem<A> {
  static const Elem<A>& src(const Pay& o) {
    if (g_reg.find(&o) < 0)
      ++g_deadSrc;
    return o;
  }
  explicit Pay(int v) noexcept : Elem<A>(v) {}
  Pay(const Pay& o) noexcept : Elem<A>(src(o)) {}
  Pay(Pay&& o) noexcept : Elem<A>(std::move(const_cast<Elem<A>&>(src(o)))) {}
  Pay& operator=(const Pay& o) noexcept {
    Elem<A>::operator=(src(o));
    return *this;
  }
  Pay& operator=(Pay&& o) noexcept {
    Elem<A>::operator=(std::move(const_cast<Elem<A>&>(src(o))));
    return *this;
  }
};
using PInt = Pay<4>;
using PBig = Pay<64>;
static_assert(alignof(PInt) == 4 && sizeof(PInt) == 4, "tracked int");
static_assert(alignof(PBig) == 64 && sizeof(PBig) == 64, "over-aligned tracked struct");
} // namespace

template <class T>
struct Runner {
  using OR = dispenso::OpResult<T>;
  struct Slot {
    alignas(alignof(OR) > 64 ? alignof(OR) : 64) unsigned char b[sizeof(OR)];
  };
  static Slot* storage() {
    static Slot s[2]; // static storage: aligned by the compiler
    return s;
  }
  Slot* slots = storage();
  int stt[2] = {NONE, NONE};
  ctl::Trace& tr;
  long long steps = 0;

  explicit Runner(ctl::Trace& t) : tr(t) {}

  OR& v(int i) {
    return *reinterpret_cast<OR*>(slots[i].b);
  }
  static int oi(const Arg& a) {
    if (a.s == "a")
      return 0;
    if (a.s == "b")
      return 1;
    fprintf(stderr, "ERROR drv_opresult: unknown object '%s'\n", a.s.c_str());
    _exit(3);
  }

  void exec(const Call& k, std::vector<long long>& r) {
    const std::string& a = k.act;
    int o = oi(k.c[0]);
    void* where = slots[o].b;
    if (a == "DefaultCtor") {
      new (where) OR();
      stt[o] = OK;
    } else if (a == "ValueCtorCopy") {
      T x(static_cast<int>(k.num(1)));
      new (where) OR(x);
      stt[o] = OK;
    } else if (a == "ValueCtorMove") {
      new (where) OR(T(static_cast<int>(k.num(1))));
      stt[o] = OK;
    } else if (a == "CopyCtor") {
      int s = oi(k.c[1]);
      OR& src = v(s); // non-const lvalue: must select the copy constructor, not OpResult(U&&)
      new (where) OR(src);
      stt[o] = OK;
    } else if (a == "MoveCtor") {
      int s = oi(k.c[1]);
      new (where) OR(std::move(v(s)));
      stt[o] = OK;
      stt[s] = MOVED;
    } else if (a == "Destroy") {
      v(o).~OR();
      stt[o] = NONE;
    } else if (a == "CopyAssign") {
      int s = oi(k.c[1]);
      const OR& src = v(s);
      v(o) = src;
      stt[o] = OK;
    } else if (a == "MoveAssign") {
      int s = oi(k.c[1]);
      OR& src = v(s);
      v(o) = std::move(src);
      stt[o] = OK;
      stt[s] = MOVED; // also for s == o: valid but unspecified
    } else if (a == "AssignValue") {
      v(o) = T(static_cast<int>(k.num(1)));
      stt[o] = OK;
    } else if (a == "AssignValueCopy") {
      // a plain lvalue that lives outside every OpResult (AssignValue assigns a temporary)
      T x(static_cast<int>(k.num(1)));
      v(o) = x;
      stt[o] = OK;
    } else if (a == "AssignValueOf") {
      // The assigned value IS the object contained in OpResult s - for s == o in the destination
      // itself.  std::optional assigns through / constructs from it while it is alive; an
      // operator= that destroys the contained object before reading its argument does not.
      int s = oi(k.c[1]);
      long long how = k.num(2);
      if (how == 1) {
        v(o) = v(s).value();
      } else if (how == 2) {
        const T& cr = v(s).value(); // what std::max(best.value(), cand) returns when best wins
        v(o) = cr;
      } else if (how == 3 && s == o) {
        v(o) = std::move(v(o).value());
      } else {
        fprintf(stderr, "ERROR drv_opresult: bad AssignValueOf\n");
        _exit(3);
      }
      stt[o] = OK;
    } else if (a == "Emplace") {
      T& ref = v(o).emplace(static_cast<int>(k.num(1)));
      stt[o] = OK;
      r.push_back(ref.id);
      r.push_back(&ref == &v(o).value() ? 1 : 0);
    } else if (a == "SetValue") {
      v(o).value() = T(static_cast<int>(k.num(1)));
    } else if (a == "HasValue") {
      const OR& c = v(o);
      r.push_back(c.has_value() ? 1 : 0);
    } else if (a == "Bool") {
      const OR& c = v(o);
      r.push_back(c ? 1 : 0);
    } else if (a == "Value") {
      r.push_back(v(o).value().id);
    } else {
      fprintf(stderr, "ERROR drv_opresult: unknown action %s\n", a.c_str());
      _exit(3);
    }
  }

  void projectObj(Json& j, int o) {
    static const char* names[] = {"none", "ok", "moved"};
    j.beginObj();
    j.kv("st", std::string(names[stt[o]]));
    const unsigned char* lo = slots[o].b;
    if (stt[o] == OK) {
      OR& x = v(o);
      bool has = x.has_value();
      j.kv("has", has ? 1 : 0);
      j.kv("val", has ? x.value().id : 0);
      j.kv("am", has ? (long long)(reinterpret_cast<uintptr_t>(&x.value()) % alignof(T)) : 0);
    }
    j.kv("own", g_reg.liveIn(lo, lo + sizeof(OR)));
    j.endObj();
  }

  void step(const Call& k) {
    std::vector<long long> r;
    exec(k, r);
    ++steps;
    Json j;
    j.beginObj();
    j.kv("e", k.act);
    j.key("c").beginArr();
    for (auto& a : k.c) {
      if (a.isStr)
        j.str(a.s);
      else
        j.num(a.n);
    }
    j.endArr();
    j.arr("r", r.begin(), r.end());
    j.key("s").beginObj();
    j.key("a");
    projectObj(j, 0);
    j.key("b");
    projectObj(j, 1);
    j.endObj();
    j.kv("live", (long long)g_reg.n);
    j.kv("errs", g_reg.errs);
    j.kv("dead", g_deadSrc);
    j.endObj();
    tr.line(j.s);
    tr.flush(); // a crash in the next operation leaves only complete lines behind
  }

  void begin(const char* tname, const std::string& tag) {
    g_reg.reset();
    g_deadSrc = 0;
    Json j;
    j.beginObj();
    j.kv("e", std::string("Reset"));
    j.kv("T", std::string(tname));
    j.kv("tag", tag);
    j.endObj();
    tr.line(j.s);
  }

  void finish() {
    for (int o = 0; o < 2; ++o)
      if (stt[o] != NONE)
        step(mk("Destroy", {S(o == 0 ? "a" : "b")}));
    Json j;
    j.beginObj();
    j.kv("e", std::string("End"));
    j.kv("live", (long long)g_reg.n);
    j.kv("errs", g_reg.errs);
    j.kv("dead", g_deadSrc);
    j.kv("ctors", g_reg.ctors);
    j.kv("dtors", g_reg.dtors);
    j.endObj();
    tr.line(j.s);
  }

  // random legal programs; the shadow state only decides which calls are LEGAL (R1)
  void random(uint64_t seed, long long len) {
    uint64_t rng = seed;
    int sst[2] = {NONE, NONE};
    bool eng[2] = {false, false};
    int next = 1;
    static const char* kinds[] = {"DefaultCtor", "ValueCtorCopy", "ValueCtorMove", "CopyCtor",
                                  "MoveCtor",    "Destroy",       "CopyAssign",    "MoveAssign",
                                  "AssignValue", "Emplace",       "SetValue",      "HasValue",
                                  "Bool",        "Value",         "CopyAssign",    "MoveAssign",
                                  "CopyCtor",    "MoveCtor",      "AssignValueCopy", "AssignValueOf",
                                  "AssignValueOf"};
    const size_t nk = sizeof(kinds) / sizeof(kinds[0]);
    auto rnd = [&](long long m) { return (long long)(ctl::splitmix(rng) % (uint64_t)m); };
    static const char* on[] = {"a", "b"};
    for (long long s = 0; s < len; ++s) {
      for (int tries = 0; tries < 200; ++tries) {
        std::string a = kinds[rnd((long long)nk)];
        int o = (int)rnd(2), p = (int)rnd(2);
        Call k;
        bool ok = false;
        if (a == "DefaultCtor") {
          if (sst[o] == NONE) {
            k = mk(a, {S(on[o])});
            sst[o] = OK;
            eng[o] = false;
            ok = true;
          }
        } else if (a == "ValueCtorCopy" || a == "ValueCtorMove") {
          if (sst[o] == NONE) {
            k = mk(a, {S(on[o]), I(next++)});
            sst[o] = OK;
            eng[o] = true;
            ok = true;
          }
        } else if (a == "CopyCtor" || a == "MoveCtor") {
          if (sst[o] == NONE && sst[p] == OK) {
            k = mk(a, {S(on[o]), S(on[p])});
            sst[o] = OK;
            eng[o] = eng[p];
            if (a == "MoveCtor") {
              sst[p] = MOVED;
              eng[p] = false;
            }
            ok = true;
          }
        } else if (a == "Destroy") {
          if (sst[o] != NONE && rnd(2) == 0) {
            k = mk(a, {S(on[o])});
            sst[o] = NONE;
            eng[o] = false;
            ok = true;
          }
        } else if (a == "CopyAssign" || a == "MoveAssign") {
          if (sst[o] != NONE && sst[p] == OK) {
            k = mk(a, {S(on[o]), S(on[p])});
            if (o != p) {
              sst[o] = OK;
              eng[o] = eng[p];
              if (a == "MoveAssign") {
                sst[p] = MOVED;
                eng[p] = false;
              }
            } else if (a == "MoveAssign") {
              sst[o] = MOVED;
              eng[o] = false;
            }
            ok = true;
          }
        } else if (a == "AssignValueOf") {
          // d = (reference to) the value contained in p; p == o: the destination's own value
          if (sst[o] != NONE && sst[p] == OK && eng[p]) {
            long long how = 1 + rnd(o == p ? 3 : 2);
            k = mk(a, {S(on[o]), S(on[p]), I(how)});
            sst[o] = OK;
            eng[o] = true;
            ok = true;
          }
        } else if (a == "AssignValue" || a == "Emplace" || a == "AssignValueCopy") {
          if (sst[o] != NONE) {
            k = mk(a, {S(on[o]), I(next++)});
            sst[o] = OK;
            eng[o] = true;
            ok = true;
          }
        } else if (a == "SetValue") {
          if (sst[o] == OK && eng[o]) {
            k = mk(a, {S(on[o]), I(next++)});
            ok = true;
          }
        } else if (a == "Value") {
          if (sst[o] == OK && eng[o]) {
            k = mk(a, {S(on[o])});
            ok = true;
          }
        } else if (sst[o] == OK) { // HasValue Bool
          k = mk(a, {S(on[o])});
          ok = true;
        }
        if (ok) {
          step(k);
          break;
        }
      }
    }
  }
};

template <class T>
void runSchedule(drv::Totals& tot, ctl::Trace& tr, const std::vector<Call>& sch, const char* tname, const std::string& tag) {
  Runner<T> r(tr);
  r.begin(tname, tag);
  for (size_t i = 1; i < sch.size(); ++i) // step 0 is Config
    r.step(sch[i]);
  r.finish();
  tot.executions++;
  tot.completed++;
  tot.steps += r.steps;
}
template <class T>
void runRandom(drv::Totals& tot, ctl::Trace& tr, uint64_t seed, long long len, const char* tname, const std::string& tag) {
  Runner<T> r(tr);
  r.begin(tname, tag);
  r.random(seed, len);
  r.finish();
  tot.executions++;
  tot.completed++;
  tot.steps += r.steps;
}

int main(int argc, char** argv) {
  drv::Args a(argc, argv);
  ctl::Trace tr(a.str("out", "trace.ndjson"));
  drv::Totals tot;
  std::string ty = a.str("T", "both");
  bool doInt = ty == "int" || ty == "both", doBig = ty == "big" || ty == "both";
  if (a.has("schedules")) {
    auto scheds = readSchedules(a.str("schedules"));
    size_t idx = 0;
    for (auto& s : scheds) {
      if (s.empty() || s[0].act != "Config") {
        fprintf(stderr, "ERROR drv_opresult: schedule %zu does not start with Config\n", idx);
        return 3;
      }
      std::string tag = "sched" + std::to_string(idx++);
      if (doInt)
        runSchedule<PInt>(tot, tr, s, "int", tag);
      if (doBig)
        runSchedule<PBig>(tot, tr, s, "big", tag);
    }
  } else {
    long long k = a.num("random", 10), len = a.num("len", 30);
    uint64_t seed = (uint64_t)a.num("seed", 1);
    for (long long i = 0; i < k; ++i) {
      uint64_t s = seed * 1000003ULL + (uint64_t)i * 7919ULL;
      std::string tag = "rand" + std::to_string(s);
      if (doInt)
        runRandom<PInt>(tot, tr, s, len, "int", tag);
      if (doBig)
        runRandom<PBig>(tot, tr, s + 1, len, "big", tag);
    }
  }
  tr.flush();
  tot.print();
  return 0;
}
