// Projection of dispenso::ThreadPool's private state for the pool / task-set drivers
// (compiled with -fno-access-control).  Only counts and small words are logged.
#pragma once
#include <dispenso/thread_pool.h>

#include <algorithm>
#include <map>
#include <string>

#include "../ctl/ctl.h"

namespace poolproj {

// Stable small id for every PoolWakeState generation of a pool (index in the graveyard, 1-based; 0 = null)
inline int wakeGen(dispenso::ThreadPool& p, dispenso::detail::PoolWakeState* ws) {
  if (!ws)
    return 0;
  for (size_t i = 0; i < p.wakeStateGraveyard_.size(); ++i)
    if (p.wakeStateGraveyard_[i].get() == ws)
      return (int)i + 1;
  return -1;
}

inline void project(dispenso::ThreadPool& p, ctl::Json& j) {
  using namespace dispenso;
  j.kv("nt", (long long)p.numThreads_.load());
  j.kv("nr", (long long)p.numRings_.load());
  j.kv("ns", (long long)p.numStealRings_.load());
  j.kv("wr", (long long)p.workRemaining_.load());
  j.kv("nnw", (long long)p.numNotWorking_.load());
  j.kv("lf", (long long)p.poolLoadFactor_.load());
  j.kv("flag", p.centralQueueNonEmpty_.load() ? 1 : 0);
  j.kv("en", p.enableEpochWaiter_.load() ? 1 : 0);
  j.kv("cq", (long long)p.work_.size_approx());
  j.key("rings").beginArr();
  for (size_t i = 0; i < p.rings_.size(); ++i)
    j.num((long long)p.rings_[i].size());
  j.endArr();
  j.key("steal").beginArr();
  for (size_t i = 0; i < p.stealRings_.size(); ++i)
    j.num((long long)p.stealRings_[i].size());
  j.endArr();
  j.kv("smask", (long long)(p.stealRingsWithWork_.load() & 0xffff));
  j.key("run").beginArr();
  for (auto& t : p.threads_)
    j.num(t.running_.load() ? 1 : 0);
  j.endArr();
  auto* ws = p.wakeState_.load();
  j.kv("wg", wakeGen(p, ws));
  // every wake-state generation that still exists (old workers may still be parked on old ones)
  j.key("ws").beginArr();
  auto waiters = ctl::futexWaiters();
  for (size_t gi = 0; gi < p.wakeStateGraveyard_.size(); ++gi) {
    auto* w = p.wakeStateGraveyard_[gi].get();
    j.beginObj();
    j.kv("ts", (long long)w->totalSleeping_.load());
    j.kv("nwg", (long long)w->nextWakeGroup_.load());
    j.key("mask").beginArr();
    for (int g = 0; g < w->numGroups_; ++g)
      j.num((long long)(w->groupStates_[(size_t)g].sleepMask.load() & 0xffff));
    j.endArr();
    j.key("ep").beginArr();
    for (int g = 0; g < w->numGroups_; ++g)
      j.num((long long)(w->waiterBlocks_[(size_t)g].waiter.epoch_.load() & 0xfffff));
    j.endArr();
    j.key("fq").beginArr(); // per group: names of threads blocked in the futex on that group's word
    for (int g = 0; g < w->numGroups_; ++g) {
      j.beginArr();
      std::vector<std::string> names;
      for (auto& wi : waiters)
        if (wi.addr == (const void*)&w->waiterBlocks_[(size_t)g].waiter.ftx_)
          names.push_back(wi.name);
      std::sort(names.begin(), names.end());
      for (auto& n : names)
        j.str(n);
      j.endArr();
    }
    j.endArr();
    j.endObj();
  }
  j.endArr();
}

inline bool siteFilter(const char* s) {
  // pool-level runs treat the rings / arenas / queues as atomic units
  return (s[0] == 'T' && (s[1] == 'p' || s[1] == 's')) || (s[0] == 'P' && s[1] == 'w') ||
      (s[0] == 'E' && s[1] == 'w') || (s[0] == 'F' && s[1] == 'u') || (s[0] == 'S' && s[1] == 't') ||
      (s[0] == 'G' && s[1] == 'a') || (s[0] == 'D' && s[1] == 'r');
}

} // namespace poolproj
