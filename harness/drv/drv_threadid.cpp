// Driver for dispenso::threadId() (spec/pure/ThreadId.tla, property C45).
//
// Controlled mode (fine-grained trace, validated by ThreadIdTrace.tla):
//   --out FILE --prog "a:2;b:1;c:0"    thread name : number of threadId() calls
//   --schedules FILE                   replay each schedule (one JSON array per line)
//   --random N --seed S [--randprog]   N random controlled executions (2..6 threads with --randprog)
// Observation mode (E5 records from truly concurrent threads, validated by ThreadIdObs.tla):
//   --obs --out FILE --sweeps K --maxthreads 64 --seed S [--sizes 1,2,3,4,8,16,32,64]
//       K sweeps; each sweep runs one round for every n in 1..maxthreads (or in --sizes): n threads are created,
//       released together by a barrier, call threadId() repeatedly during their whole life and
//       record every returned value.  One {"e":"Obs",...} record per thread.
//
// Translation units.  The property is about the thread, not about the .cpp file a call is compiled
// in, and thread_id.h is free to put code and data into every includer (inline fast paths, statics):
// a per-thread cache that is private to a translation unit is perfectly stable and unique within any
// single-file harness and wrong for every real program.  So every thread of both modes calls
// threadId() alternately from THIS unit and from drv_threadid_tu2.cpp (which unit goes first varies
// per thread), and all values go into the same per-thread sequence that the spec requires to be
// constant ("via" names the unit of each call: 1 = this file, 2 = drv_threadid_tu2.cpp).  Observation
// mode also exercises the header-only user of threadId(), DistributedRWLock's sub-lock choice, across
// the two units on thread-private locks: lock_shared() compiled in one unit, unlock_shared() compiled
// in the other ("slots" = the sub-lock held after lock_shared() from unit 1 / from unit 2, "left" =
// number of sub-lock words that are not 0 after the unlock_shared() from the other unit).
//
// Identifiers are logged relative to the value of the process-global counter at the Reset line in
// controlled mode (the counter cannot be reset), and as absolute small integers in observation mode
// (uniqueness is process-wide there).
#include <dispenso/distributed_rw_lock.h>
#include <dispenso/thread_id.h>

#include <sched.h>
#include <unistd.h>

#include <atomic>
#include <thread>

#include "../ctl/ctl.h"
#include "../ctl/drv_common.h"
#include "drv_threadid_tu2.h"

namespace dispenso {
extern std::atomic<uint64_t> nextThread; // defined in thread_id.cpp
}

using ctl::Json;
using Program = std::vector<std::pair<std::string, int>>;

// threadId() as seen from translation unit `unit` (1 = this file, 2 = drv_threadid_tu2.cpp)
static inline uint64_t threadIdVia(int unit) {
  return unit == 1 ? dispenso::threadId() : tidtu2::threadId();
}

static Program parseProg(const std::string& s) {
  Program p;
  for (auto& th : drv::split(s, ';')) {
    if (th.empty())
      continue;
    auto nm = drv::split(th, ':');
    p.emplace_back(nm[0], nm.size() > 1 ? atoi(nm[1].c_str()) : 1);
  }
  return p;
}

static std::string resetLine(const Program& prog, const std::string& tag) {
  Json j;
  j.beginObj();
  j.kv("e", std::string("Reset"));
  j.kv("tag", tag);
  j.key("prog").beginObj();
  for (auto& th : prog)
    j.kv(th.first.c_str(), (long long)th.second);
  j.endObj();
  j.endObj();
  return j.s;
}

static ctl::RunResult
execute(const Program& prog, const ctl::RunOptions& opts, ctl::Trace& tr, const std::string& tag) {
  const long long base = (long long)dispenso::nextThread.load();
  tr.line(resetLine(prog, tag));
  // (heap: after an execution that did not complete the controller still owns parked threads)
  ctl::Controller* cp = new ctl::Controller(tr);
  ctl::Controller& c = *cp;
  c.setProjection(
      [base](Json& j) { j.kv("next", (long long)dispenso::nextThread.load() - base); });
  int tix = 0;
  for (auto& th : prog) {
    int calls = th.second;
    // consecutive calls of a thread come from alternating translation units; which unit makes the
    // thread's first call (the one that claims the identifier) alternates from thread to thread
    int first = tix++ % 2;
    c.addThread(th.first, [calls, base, first]() {
      for (int i = 0; i < calls; ++i) {
        uint64_t id = threadIdVia(1 + (first + i) % 2);
        ctl::ret((long long)id - base);
      }
    });
  }
  ctl::RunResult res = c.run(opts);
  if (res.completed)
    delete cp;
  return res;
}

static Program randomProgram(uint64_t& rng) {
  static const char* names[] = {"a", "b", "c", "d", "e", "f"};
  Program p;
  int nth = 2 + (int)(ctl::splitmix(rng) % 5);
  for (int t = 0; t < nth; ++t)
    p.emplace_back(names[t], (int)(ctl::splitmix(rng) % 4));
  return p;
}

// ------------------------------------------------------------------------------- observation mode
// index of the one sub-lock that is read-held exactly once (all others free); -1 otherwise
static long long heldSlot(tidtu2::Lock& l) {
  long long at = -1;
  for (size_t i = 0; i < 16; ++i) {
    int w = l.impl_.slots_[i].lockWord().load(std::memory_order_acquire);
    if (w == 0)
      continue;
    if (w != 1 || at >= 0)
      return -1;
    at = (long long)i;
  }
  return at;
}
// number of sub-lock words that are not 0 (a free lock has none)
static long long busySlots(tidtu2::Lock& l) {
  long long n = 0;
  for (size_t i = 0; i < 16; ++i)
    n += l.impl_.slots_[i].lockWord().load(std::memory_order_acquire) != 0;
  return n;
}

static int runObs(const drv::Args& a) {
  ctl::Trace tr(a.str("out", "obs.ndjson"));
  tr.line("{\"e\":\"Reset\"}");
  const int maxThreads = (int)a.num("maxthreads", 64);
  const int sweeps = (int)a.num("sweeps", 1);
  uint64_t rng = (uint64_t)a.num("seed", 1) * 2654435761ULL + 99;
  long long records = 0;
  int round = 0;
  std::vector<int> sizes;
  if (a.has("sizes")) {
    for (auto& x : drv::split(a.str("sizes"), ','))
      if (!x.empty())
        sizes.push_back(atoi(x.c_str()));
  } else {
    for (int n = 1; n <= maxThreads; ++n)
      sizes.push_back(n);
  }
  for (int s = 0; s < sweeps; ++s) {
    for (size_t si = 0; si < sizes.size(); ++si, ++round) {
      const int n = sizes[si];
      std::vector<std::vector<long long>> ids((size_t)n), via((size_t)n), slots((size_t)n), left((size_t)n);
      std::atomic<int> arrived{0}, phase2{0};
      std::vector<std::thread> ths;
      std::vector<int> extra((size_t)n);
      std::vector<unsigned> units((size_t)n); // bit k = translation unit (0: this, 1: tu2) of call k
      for (int i = 0; i < n; ++i) {
        extra[(size_t)i] = (int)(ctl::splitmix(rng) % 4);
        units[(size_t)i] = (unsigned)(ctl::splitmix(rng) & 0xff);
      }
      for (int i = 0; i < n; ++i) {
        ths.emplace_back([&, i]() {
          // barrier: all threads of the round make their first call at the same moment
          arrived.fetch_add(1, std::memory_order_acq_rel);
          // (spin briefly, then yield: the machine may have fewer free cores than n)
          for (int spins = 0; arrived.load(std::memory_order_acquire) < n; ++spins) {
            if (spins > 2000)
              sched_yield();
          }
          auto& mine = ids[(size_t)i];
          auto& unitOf = via[(size_t)i];
          const unsigned u = units[(size_t)i];
          auto call = [&](int unit) {
            mine.push_back((long long)threadIdVia(unit));
            unitOf.push_back(unit);
          };
          const int firstUnit = 1 + (int)(u & 1);
          call(firstUnit);
          for (int k = 0; k < extra[(size_t)i]; ++k)
            call(1 + (int)((u >> (k + 1)) & 1));
          // second phase: every thread of the round has an identifier by now
          phase2.fetch_add(1, std::memory_order_acq_rel);
          while (phase2.load(std::memory_order_acquire) < n)
            sched_yield();
          call(3 - firstUnit); // every thread is observed from both units
          sched_yield();
          call(firstUnit);
          // header-only user of threadId(): the reader path of DistributedRWLock picks its sub-lock
          // with threadId() in lock_shared() AND in unlock_shared(); the two calls of one critical
          // section may be compiled in different units (thread-private locks: only this thread's
          // own operations are observed)
          {
            tidtu2::Lock a, b;
            a.lock_shared(); // unit 1
            slots[(size_t)i].push_back(heldSlot(a));
            tidtu2::unlockShared(a); // unit 2
            left[(size_t)i].push_back(busySlots(a));
            tidtu2::lockShared(b); // unit 2
            slots[(size_t)i].push_back(heldSlot(b));
            b.unlock_shared(); // unit 1
            left[(size_t)i].push_back(busySlots(b));
          }
          call(3 - firstUnit);
        });
      }
      for (auto& t : ths)
        t.join();
      for (int i = 0; i < n; ++i) {
        Json j;
        j.beginObj();
        j.kv("e", std::string("Obs"));
        j.kv("round", (long long)round);
        j.kv("n", (long long)n);
        j.kv("k", (long long)(i + 1));
        j.arr("ids", ids[(size_t)i].begin(), ids[(size_t)i].end());
        j.arr("via", via[(size_t)i].begin(), via[(size_t)i].end());
        j.arr("slots", slots[(size_t)i].begin(), slots[(size_t)i].end());
        j.arr("left", left[(size_t)i].begin(), left[(size_t)i].end());
        j.endObj();
        tr.line(j.s);
        ++records;
      }
    }
  }
  tr.flush();
  // same outcome line as controlled drivers: one "execution" per round
  printf(
      "DRIVER executions=%d steps=%lld completed=%d deadlocks=0 diverged=0 stuck=0\n",
      round,
      records,
      round);
  fflush(stdout);
  return 0;
}

int main(int argc, char** argv) {
  drv::Args a(argc, argv);
  if (a.has("obs")) {
    int rc = runObs(a);
    fflush(stdout);
    _exit(rc);
  }
  ctl::Trace tr(a.str("out", "trace.ndjson"));
  drv::Totals tot;
  Program prog = parseProg(a.str("prog", "a:2;b:1;c:0"));
  if (a.has("schedules")) {
    auto scheds = ctl::readSchedules(a.str("schedules"));
    size_t idx = 0;
    for (auto& s : scheds) {
      ctl::RunOptions o;
      o.mode = ctl::RunOptions::Replay;
      o.schedule = &s;
      auto r = execute(prog, o, tr, "sched" + std::to_string(idx++));
      tot.add(r);
      if (!r.completed)
        break;
    }
  } else {
    long long n = a.num("random", 100);
    uint64_t seed = (uint64_t)a.num("seed", 1);
    uint64_t prng = seed * 7919 + 17;
    for (long long i = 0; i < n; ++i) {
      ctl::RunOptions o;
      o.mode = ctl::RunOptions::Random;
      o.seed = seed * 1000003ULL + (uint64_t)i;
      o.pctDepth = (int)a.num("pct", 0);
      Program p = a.has("randprog") ? randomProgram(prng) : prog;
      auto r = execute(p, o, tr, "rand" + std::to_string(i));
      tot.add(r);
      if (!r.completed)
        break;
    }
  }
  tr.flush();
  tot.print();
  fflush(stdout);
  _exit(0);
}
