// Driver for dispenso::PoolAllocator / NoLockPoolAllocator (spec/poolalloc/PoolAlloc.tla).
//   --out FILE              trace (ndjson)
//   --cs N --as N           chunkSize, allocSize
//   --safe 1|0              1: PoolAllocator (spin lock), 0: NoLockPoolAllocator
//   --prog "t1:a1,d1;t2:a2,a3|m:cl,a4,cp"   phases separated by '|', threads by ';', ops by ','
//                           aN: p_N = alloc(); dN: dealloc(p_N); cl: clear(); cp: totalChunkCapacity()
//   --schedules FILE        replay each schedule of FILE (one JSON array per line; phases consume the
//                           schedule one after the other)
//   --random N --seed S [--pct D]   N random controlled executions of random programs/configurations
//                           (--randprog; without it the given --prog / --cs / --as are used)
// The custom allocFunc / deallocFunc are the log: slabs are numbered in allocFunc call order and a
// chunk is reported as (slab id, byte offset), never as an address.
#include <dispenso/pool_allocator.h>

#include <unistd.h>

#include "../ctl/ctl.h"
#include "../ctl/drv_common.h"

using ctl::Json;

static const char* kThreadNames[] = {"t1", "t2", "t3", "m"};
static const int kNumThreadNames = 4;

struct OpDesc {
  std::string op; // alloc dealloc clear cap
  int h = 0;
};
// phase = ops per thread name (index into kThreadNames)
struct Phase {
  std::vector<OpDesc> ops[kNumThreadNames];
};
using Program = std::vector<Phase>;

static int threadIndex(const std::string& n) {
  for (int i = 0; i < kNumThreadNames; ++i)
    if (n == kThreadNames[i])
      return i;
  fprintf(stderr, "ERROR drv_poolalloc: unknown thread %s\n", n.c_str());
  _exit(3);
}

static Program parseProg(const std::string& s) {
  Program p;
  for (auto& ph : drv::split(s, '|')) {
    Phase phase;
    for (auto& th : drv::split(ph, ';')) {
      if (th.empty())
        continue;
      auto nm = drv::split(th, ':');
      int ti = threadIndex(nm[0]);
      for (auto& o : drv::split(nm.size() > 1 ? nm[1] : "", ',')) {
        if (o.empty())
          continue;
        OpDesc d;
        if (o == "cl")
          d.op = "clear";
        else if (o == "cp")
          d.op = "cap";
        else if (o[0] == 'a') {
          d.op = "alloc";
          d.h = atoi(o.c_str() + 1);
        } else if (o[0] == 'd') {
          d.op = "dealloc";
          d.h = atoi(o.c_str() + 1);
        } else {
          fprintf(stderr, "ERROR drv_poolalloc: unknown op %s\n", o.c_str());
          _exit(3);
        }
        phase.ops[ti].push_back(d);
      }
    }
    p.push_back(phase);
  }
  return p;
}

static int maxHandle(const Program& p) {
  int m = 0;
  for (auto& ph : p)
    for (auto& ops : ph.ops)
      for (auto& o : ops)
        m = std::max(m, o.h);
  return m;
}

static std::string resetLine(const Program& prog, int cs, int as, int safe, const std::string& tag) {
  Json j;
  j.beginObj();
  j.kv("e", std::string("Reset"));
  j.kv("tag", tag);
  j.key("cfg").beginObj();
  j.kv("cs", cs);
  j.kv("as", as);
  j.kv("safe", safe);
  j.endObj();
  j.key("prog").beginArr();
  for (auto& ph : prog) {
    j.beginObj();
    for (int t = 0; t < kNumThreadNames; ++t) {
      j.key(kThreadNames[t]).beginArr();
      for (auto& o : ph.ops[t]) {
        j.beginObj();
        j.kv("op", o.op);
        j.kv("h", o.h);
        j.endObj();
      }
      j.endArr();
    }
    j.endObj();
  }
  j.endArr();
  j.endObj();
  return j.s;
}

// ------------------------------------------------------------------------- random programs (R1)
// Only programs the documentation allows: dealloc only of a chunk that is currently handed out and
// by exactly one thread; clear()/totalChunkCapacity() only while no other thread uses the allocator;
// nothing handed out before a clear() is dealloc'd after it.
static Program randomProgram(uint64_t& rng, bool safe) {
  Program p;
  std::vector<int> pool; // live handles
  int next = 1;
  int nph = 1 + (int)(ctl::splitmix(rng) % 3);
  for (int k = 0; k < nph; ++k) {
    Phase ph;
    bool concurrent = safe && (ctl::splitmix(rng) % 3 != 0);
    if (concurrent) {
      int nth = 1 + (int)(ctl::splitmix(rng) % 3);
      std::vector<std::vector<int>> mine(nth);
      for (int h : pool)
        mine[ctl::splitmix(rng) % nth].push_back(h);
      for (int t = 0; t < nth; ++t) {
        int nops = 1 + (int)(ctl::splitmix(rng) % 4);
        for (int i = 0; i < nops; ++i) {
          OpDesc d;
          if (mine[t].empty() || ctl::splitmix(rng) % 10 < 6) {
            d.op = "alloc";
            d.h = next++;
            mine[t].push_back(d.h);
          } else {
            size_t x = ctl::splitmix(rng) % mine[t].size();
            d.op = "dealloc";
            d.h = mine[t][x];
            mine[t].erase(mine[t].begin() + x);
          }
          ph.ops[t].push_back(d);
        }
      }
      pool.clear();
      for (auto& m : mine)
        pool.insert(pool.end(), m.begin(), m.end());
    } else {
      int nops = 1 + (int)(ctl::splitmix(rng) % (safe ? 6 : 12));
      for (int i = 0; i < nops; ++i) {
        OpDesc d;
        unsigned r = (unsigned)(ctl::splitmix(rng) % 20);
        if (r < 10) {
          d.op = "alloc";
          d.h = next++;
          pool.push_back(d.h);
        } else if (r < 16 && !pool.empty()) {
          size_t x = ctl::splitmix(rng) % pool.size();
          d.op = "dealloc";
          d.h = pool[x];
          pool.erase(pool.begin() + x);
        } else if (r < 18) {
          d.op = "clear";
          pool.clear();
        } else {
          d.op = "cap";
        }
        ph.ops[3].push_back(d);
      }
    }
    p.push_back(ph);
  }
  return p;
}

// -------------------------------------------------------------------------------- the log
struct Slab {
  char* base;
  size_t size;
  bool freed;
};
static std::vector<Slab> g_slabs;
static std::vector<int> g_released;

static void note(const char* k, long long a, long long b) {
  dispenso_verif_note(k, nullptr, a, b);
}

static void locate(const char* p, int as, int& slab, int& off) {
  for (size_t i = 0; i < g_slabs.size(); ++i) {
    // a chunk that starts anywhere inside the slab's extent is reported relative to it; the
    // specification decides whether it fits
    if (!g_slabs[i].freed && p >= g_slabs[i].base && p < g_slabs[i].base + as) {
      slab = (int)i;
      off = (int)(p - g_slabs[i].base);
      return;
    }
  }
  slab = -1;
  off = -1;
}

template <class PA>
static ctl::RunResult execute(
    const Program& prog,
    int cs,
    int as,
    int safe,
    const ctl::RunOptions& base,
    ctl::Trace& tr,
    const std::string& tag) {
  g_slabs.clear();
  g_released.clear();
  auto allocFn = [](size_t n) -> void* {
    // one guard chunk of slack in front of and behind every slab: a chunk that leaves its slab
    // is observed (and reported) instead of corrupting the heap
    char* raw = (char*)malloc(n + 512);
    Slab s{raw + 256, n, false};
    int id = (int)g_slabs.size();
    g_slabs.push_back(s);
    note("allocFunc", id, (long long)n);
    return s.base;
  };
  auto deallocFn = [](void* p) {
    int id = -1;
    for (size_t i = 0; i < g_slabs.size(); ++i)
      if (g_slabs[i].base == p && !g_slabs[i].freed)
        id = (int)i;
    g_released.push_back(id);
    if (id >= 0) {
      g_slabs[id].freed = true;
      free(g_slabs[id].base - 256);
    }
  };
  PA* pa = new PA((size_t)cs, (size_t)as, allocFn, deallocFn);
  std::vector<char*> handles((size_t)maxHandle(prog) + 1, nullptr);
  tr.line(resetLine(prog, cs, as, safe, tag));

  ctl::RunResult total;
  total.completed = true;
  size_t schedPos = 0;
  for (size_t k = 0; k < prog.size(); ++k) {
    if (k > 0)
      tr.line("{\"e\":\"NextPhase\"}");
    ctl::Controller c(tr);
    c.setProjection([pa, as](Json& j) {
      j.kv("lock", (long long)pa->backingAllocLock_.load());
      auto slabOf = [](const char* p) {
        for (size_t i = 0; i < g_slabs.size(); ++i)
          if (g_slabs[i].base == p && !g_slabs[i].freed)
            return (int)i;
        return -1;
      };
      j.key("backing").beginArr();
      for (char* b : pa->backingAllocs_)
        j.num(slabOf(b));
      j.endArr();
      j.key("backing2").beginArr();
      for (char* b : pa->backingAllocs2_)
        j.num(slabOf(b));
      j.endArr();
      j.key("chunks").beginArr();
      for (char* ch : pa->chunks_) {
        int s, o;
        locate(ch, as, s, o);
        j.beginArr();
        j.num(s);
        j.num(o);
        j.endArr();
      }
      j.endArr();
      j.kv("nslab", (long long)g_slabs.size());
    });
    const Phase& ph = prog[k];
    for (int t = 0; t < kNumThreadNames; ++t) {
      if (ph.ops[t].empty())
        continue;
      const std::vector<OpDesc>* ops = &ph.ops[t];
      c.addThread(kThreadNames[t], [pa, ops, &handles, as, safe]() {
        for (auto& o : *ops) {
          if (o.op == "alloc") {
            if (!safe)
              ctl::point("NlAlloc", pa);
            char* p = pa->alloc();
            handles[o.h] = p;
            int s, off;
            locate(p, as, s, off);
            note("ret", s, off);
          } else if (o.op == "dealloc") {
            if (!safe)
              ctl::point("NlDealloc", pa);
            pa->dealloc(handles[o.h]);
          } else if (o.op == "clear") {
            ctl::point("Clear", pa);
            pa->clear();
          } else if (o.op == "cap") {
            ctl::point("Cap", pa);
            note("cap", (long long)pa->totalChunkCapacity(), 0);
          } else {
            fprintf(stderr, "ERROR drv_poolalloc: unknown op %s\n", o.op.c_str());
            _exit(3);
          }
        }
      });
    }
    ctl::RunOptions o = base;
    ctl::Schedule sub;
    if (base.mode == ctl::RunOptions::Replay && base.schedule) {
      if (schedPos < base.schedule->size())
        sub.assign(base.schedule->begin() + (long)schedPos, base.schedule->end());
      o.schedule = &sub;
    } else {
      o.seed = base.seed * 31 + k;
    }
    ctl::RunResult r = c.run(o);
    schedPos += r.steps;
    total.steps += r.steps;
    total.deadlock |= r.deadlock;
    total.diverged |= r.diverged;
    total.stuck |= r.stuck;
    if (!r.completed) {
      total.completed = false;
      total.detail = r.detail;
      return total; // parked threads: terminal for this process
    }
  }
  delete pa;
  Json j;
  j.beginObj();
  j.kv("e", std::string("Destroy"));
  j.arr("rel", g_released.begin(), g_released.end());
  j.endObj();
  tr.line(j.s);
  return total;
}

static ctl::RunResult executeAny(
    const Program& prog,
    int cs,
    int as,
    int safe,
    const ctl::RunOptions& o,
    ctl::Trace& tr,
    const std::string& tag) {
  if (safe)
    return execute<dispenso::PoolAllocator>(prog, cs, as, safe, o, tr, tag);
  return execute<dispenso::NoLockPoolAllocator>(prog, cs, as, safe, o, tr, tag);
}

int main(int argc, char** argv) {
  drv::Args a(argc, argv);
  int cs = (int)a.num("cs", 8), as = (int)a.num("as", 16), safe = (int)a.num("safe", 1);
  ctl::Trace tr(a.str("out", "trace.ndjson"));
  drv::Totals tot;
  Program prog = parseProg(a.str("prog", "t1:a1,d1;t2:a2"));
  if (a.has("schedules")) {
    auto scheds = ctl::readSchedules(a.str("schedules"));
    size_t idx = 0;
    for (auto& s : scheds) {
      ctl::RunOptions o;
      o.mode = ctl::RunOptions::Replay;
      o.schedule = &s;
      auto r = executeAny(prog, cs, as, safe, o, tr, "sched" + std::to_string(idx++));
      tot.add(r);
      if (!r.completed)
        break;
    }
  } else {
    static const int cfgs[][2] = {{8, 8}, {8, 16}, {8, 24}, {8, 28}, {16, 40}, {4, 16}, {24, 100}, {8, 15}};
    long long n = a.num("random", 100);
    uint64_t seed = (uint64_t)a.num("seed", 1);
    uint64_t prng = seed * 7919 + 17;
    for (long long i = 0; i < n; ++i) {
      ctl::RunOptions o;
      o.mode = ctl::RunOptions::Random;
      o.seed = seed * 1000003ULL + (uint64_t)i;
      o.pctDepth = (int)a.num("pct", 0);
      Program p = prog;
      int c = cs, s = as;
      if (a.has("randprog")) {
        p = randomProgram(prng, safe != 0);
        size_t ci = ctl::splitmix(prng) % (sizeof(cfgs) / sizeof(cfgs[0]));
        c = cfgs[ci][0];
        s = cfgs[ci][1];
      }
      auto r = executeAny(p, c, s, safe, o, tr, "rand" + std::to_string(o.seed));
      tot.add(r);
      if (!r.completed)
        break;
    }
  }
  tr.flush();
  tot.print();
  fflush(stdout);
  _exit(0);
}
