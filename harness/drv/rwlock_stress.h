// Free-running observation engine (E5) shared by drv_rwlock.cpp and drv_drwlock.cpp.
//
//   --stress ROUNDS --seed S --out FILE [--ms T]     (T: stop starting new batches after T ms of wall time)
//
// REAL threads, no ctl::Controller (the DISPENSO_VERIF_POINT hooks are inert, the futex is the real
// one), truly concurrent.  kThreads persistent worker threads; the work is organised in BATCHES.  A
// batch has one fresh lock object, one configuration (lock flavour, number of active threads, role
// of every thread), kRounds short random programs per thread (1-3 lock/unlock segments drawn from
// the seed, with random small spin offsets) and ONE observation record.  Two kinds of batches:
//   "step"  every round (= one program per thread) starts at a barrier that releases all threads at
//           once, so that the few-instruction windows of the lock (optimistic reader add / back-out,
//           writer bit set / rolled back, drain + futex sleep / wake, upgrade, downgrade) collide
//           again and again from the same starting line; after every round the lock is quiescent
//           and is probed (see below).  rounds = kRounds.
//   "free"  one barrier, then every thread runs its kRounds programs kLaps times back to back: the
//           threads drift against each other, the lock is under contention all the time, a thread that
//           is preempted in the middle of an operation leaves the others running.  One probe at the
//           end.  rounds = kRounds * kLaps.  (A barrier costs a scheduling quantum on a busy
//           machine; these batches keep the number of racing operations per second up there.)
// The engine gives both kinds the same share of the wall time.
//
// Protected data: two plain (non-atomic; volatile only to keep the compiler from fusing the
// accesses) 64-bit counters a, b.  A write section reads both, stores a+1, spins a little, stores
// b+1, re-reads a; a read section copies a, spins a little, copies b.  Whenever all threads have left
// the lock (after every round of a step batch, at the end of a free batch) the thread that left
// last probes the quiescent lock through the public API (try_lock must succeed, then unlock;
// try_lock_shared must succeed, then unlock_shared).
//
// The coordinating main thread never touches the lock: it is the watchdog.  If the threads do not
// come back within 10 s it writes the record of the batch with "stuck":1, flushes and _exit(0)s;
// the validator (spec/rwlock/RWLockObs.tla) rejects that record.
//
// Record (one per batch; per-thread arrays are indexed by worker, inactive workers are absent):
//   {"e":"Batch","lock":"RWLock","slots":1,"kind":"rw"|"upg","mode":"step"|"free","batch":i,
//    "rounds":n            programs per thread
//    "stuck":0|1,
//    "role":["W","R",..]   W may write-lock (and read), R only reads, U the single write-locker of an upgrade batch
//    "fin":[..]            programs finished by each thread
//    "inc":[..]            write sections executed (each increments a and b once)
//    "wtorn":[..]          write sections that found a != b on entry or found a changed under them
//    "snaps":[..] "torn":[..]   read sections executed / read sections that copied a != b
//    "back":[..]           sections that saw a smaller than the same thread saw before
//    "tl":[..] "tlok":[..] try_lock calls / successes;  "ts":[..] "tsok":[..] try_lock_shared calls / successes
//    "a":A,"b":B           the counters after the batch
//    "probes":P,"ptry":n,"psh":n   quiescent probes done / try_lock successes / try_lock_shared successes
//    "word":0|1}           0 iff every lock word is 0 after the batch
#pragma once

#include <unistd.h>

#include <atomic>
#include <chrono>
#include <cstdint>
#include <cstdio>
#include <string>
#include <thread>
#include <vector>

#include "../ctl/ctl.h"
#include "../ctl/drv_common.h"

namespace stress {

constexpr int kThreads = 4;
constexpr int kRounds = 128; // programs per thread and batch
constexpr int kLaps = 8; // a free batch runs them this many times
constexpr int kMaxSeg = 3;

enum SegType : uint8_t {
  W_LOCK, // lock; write; unlock
  W_TRY, // try_lock; ok: write; unlock
  W_LOCK_DOWN, // lock; write; lock_downgrade; read; unlock_shared
  W_TRY_DOWN, // try_lock; ok: write; lock_downgrade; read; unlock_shared
  R_LOCK, // lock_shared; read; unlock_shared
  R_TRY, // try_lock_shared; ok: read; unlock_shared
  U_UP, // lock_shared; read; lock_upgrade; write; unlock
  U_UP_DOWN, // lock_shared; read; lock_upgrade; write; lock_downgrade; read; unlock_shared
  U_TRY_UP, // try_lock_shared; ok: read; lock_upgrade; write; unlock
};

struct Seg {
  uint8_t type;
  uint8_t pre; // spin before the segment
  uint8_t cs; // spin inside the sections
  uint8_t slot; // reader index (distributed lock)
};

struct Prog {
  uint8_t nseg;
  uint8_t start; // spin after the start barrier
  Seg seg[kMaxSeg];
};

struct Stats {
  int inc = 0, wtorn = 0, snaps = 0, torn = 0, back = 0, tl = 0, tlok = 0, ts = 0, tsok = 0;
};

struct alignas(64) Cell {
  volatile uint64_t v;
};

struct alignas(64) PerThread {
  std::atomic<long long> done{-1}; // last ticket acknowledged
  std::atomic<int> nfin{0}; // programs finished in the current batch
  Stats pub; // published before `done` is stored
  char pad[64];
};

inline void spin(unsigned n) {
  for (volatile unsigned k = 0; k < n; ++k) {
  }
}

inline long long nowNs() {
  return std::chrono::duration_cast<std::chrono::nanoseconds>(
             std::chrono::steady_clock::now().time_since_epoch())
      .count();
}

// Everything the workers share.  Static storage: a stuck worker outlives the run.
template <class Adapter>
struct Shared {
  std::atomic<long long> go{-1}; // ticket (one per barrier); -2 = exit
  std::atomic<int> freeMode{0}; // 1: run all programs kLaps times;  0: run program `round`
  std::atomic<int> round{0};
  std::atomic<Adapter*> lock{nullptr};
  std::atomic<int> active{0};
  std::atomic<int> left{0}; // threads that have finished their program of the current round
  Cell a, b;
  Prog prog[kRounds][kThreads];
  PerThread th[kThreads];
  std::atomic<int> probes{0}, ptry{0}, psh{0};
};

template <class Adapter>
struct Worker {
  Shared<Adapter>& sh;
  int me;
  Stats st;
  uint64_t lastSeen = 0;
  int nfin = 0;

  void writeSection(unsigned cs) {
    uint64_t x = sh.a.v, y = sh.b.v;
    bool bad = x != y;
    sh.a.v = x + 1;
    spin(cs);
    sh.b.v = y + 1;
    if (sh.a.v != x + 1)
      bad = true;
    if (x < lastSeen)
      ++st.back;
    lastSeen = x + 1;
    ++st.inc;
    if (bad)
      ++st.wtorn;
  }
  void readSection(unsigned cs) {
    uint64_t x = sh.a.v;
    spin(cs);
    uint64_t y = sh.b.v;
    ++st.snaps;
    if (x != y)
      ++st.torn;
    if (x < lastSeen)
      ++st.back;
    lastSeen = x;
  }

  void runSeg(Adapter& lk, const Seg& s) {
    spin(s.pre);
    size_t idx = s.slot;
    switch (s.type) {
      case W_LOCK:
      case W_LOCK_DOWN:
      case W_TRY:
      case W_TRY_DOWN: {
        if (s.type == W_LOCK || s.type == W_LOCK_DOWN)
          lk.lock();
        else {
          ++st.tl;
          if (!lk.try_lock())
            return;
          ++st.tlok;
        }
        writeSection(s.cs);
        if (s.type == W_LOCK || s.type == W_TRY) {
          lk.unlock();
        } else {
          lk.lock_downgrade();
          readSection(s.cs);
          lk.unlock_shared(idx);
        }
        return;
      }
      case R_LOCK:
        lk.lock_shared(idx);
        readSection(s.cs);
        lk.unlock_shared(idx);
        return;
      case R_TRY:
        ++st.ts;
        if (!lk.try_lock_shared(idx))
          return;
        ++st.tsok;
        readSection(s.cs);
        lk.unlock_shared(idx);
        return;
      case U_UP:
      case U_UP_DOWN:
      case U_TRY_UP:
        if (s.type == U_TRY_UP) {
          ++st.ts;
          if (!lk.try_lock_shared(idx))
            return;
          ++st.tsok;
        } else
          lk.lock_shared(idx);
        readSection(s.cs);
        lk.lock_upgrade();
        writeSection(s.cs);
        if (s.type == U_UP_DOWN) {
          lk.lock_downgrade();
          readSection(s.cs);
          lk.unlock_shared(idx);
        } else
          lk.unlock();
        return;
    }
  }

  void runProg(Adapter& lk, const Prog& p) {
    spin(p.start);
    for (int k = 0; k < p.nseg; ++k)
      runSeg(lk, p.seg[k]);
    sh.th[me].nfin.store(++nfin, std::memory_order_relaxed);
  }

  void loop() {
    long long last = -1;
    unsigned idle = 0;
    for (;;) {
      long long g = sh.go.load(std::memory_order_acquire);
      if (g == last) {
        if (++idle > 2000) {
          std::this_thread::yield();
          idle = 0;
        }
        continue;
      }
      idle = 0;
      if (g == -2)
        return;
      last = g;
      // every worker acknowledges every ticket (also when it has nothing to do), so that no worker can
      // lag behind and read the configuration of a later one
      const int active = sh.active.load(std::memory_order_relaxed);
      if (me < active) {
        Adapter& lk = *sh.lock.load(std::memory_order_relaxed);
        const bool freeMode = sh.freeMode.load(std::memory_order_relaxed) != 0;
        const int r0 = sh.round.load(std::memory_order_relaxed);
        if (r0 == 0) { // first ticket of a batch
          st = Stats();
          lastSeen = 0;
          nfin = 0;
        }
        if (!freeMode)
          runProg(lk, sh.prog[r0][me]);
        else
          for (int lap = 0; lap < kLaps; ++lap)
            for (int r = 0; r < kRounds; ++r)
              runProg(lk, sh.prog[r][me]);
        sh.th[me].pub = st;
        if (sh.left.fetch_add(1, std::memory_order_acq_rel) + 1 == active) {
          // this thread is the last one to finish: everybody has left the lock, which must now behave
          // like a fresh one
          sh.probes.fetch_add(1, std::memory_order_relaxed);
          if (lk.try_lock()) {
            sh.ptry.fetch_add(1, std::memory_order_relaxed);
            lk.unlock();
          }
          size_t idx = (size_t)g;
          if (lk.try_lock_shared(idx)) {
            sh.psh.fetch_add(1, std::memory_order_relaxed);
            lk.unlock_shared(idx);
          }
        }
      }
      sh.th[me].done.store(g, std::memory_order_release);
    }
  }
};

inline void arr(std::string& s, const char* key, const int* v, int n) {
  s += ",\"";
  s += key;
  s += "\":[";
  for (int i = 0; i < n; ++i) {
    if (i)
      s += ',';
    s += std::to_string(v[i]);
  }
  s += ']';
}

// Adapter: lock(), try_lock(), unlock(), lock_shared(i), try_lock_shared(i), unlock_shared(i),
// lock_upgrade(), lock_downgrade(), upDown() (has upgrade/downgrade), slots(), name(), residue() (0 iff every
// lock word is 0); constructed from a flavour number < kFlavours (the lock types one driver multiplexes).
template <class Adapter>
int run(const drv::Args& a) {
  std::string out = a.str("out", "stress.ndjson");
  FILE* f = fopen(out.c_str(), "w");
  if (!f)
    return 2;
  long long rounds = a.num("stress", 10000);
  const long long budgetMs = a.num("ms", 0);
  uint64_t rng = (uint64_t)a.num("seed", 1) * 0x9e3779b97f4a7c15ULL + 0x51;
  const long long graceNs = 10LL * 1000 * 1000 * 1000;
  static Shared<Adapter> sh;
  std::vector<std::thread> threads;
  for (int t = 0; t < kThreads; ++t)
    threads.emplace_back([t]() {
      Worker<Adapter> w{sh, t};
      w.loop();
    });
  auto rnd = [&](unsigned n) { return (unsigned)(ctl::splitmix(rng) % n); };
  long long doneRounds = 0, stuck = 0, ticket = -1, tStep = 0, tFree = 0;
  const long long tStart = nowNs();
  for (long long bi = 0; doneRounds < rounds && !stuck; ++bi) {
    if (budgetMs > 0 && bi > 0 && nowNs() - tStart > budgetMs * 1000000LL)
      break; // wall-clock budget (a loaded machine): fewer rounds, never a different verdict
    int flavour = (int)rnd((unsigned)Adapter::kFlavours);
    Adapter* lk = new Adapter(flavour);
    const int slots = lk->slots();
    bool upg = lk->upDown() && rnd(3) == 0;
    int active = 2 + (int)rnd(kThreads - 1);
    char role[kThreads];
    for (int t = 0; t < active; ++t)
      role[t] = upg ? (t == 0 ? 'U' : 'R') : (rnd(5) < 2 ? 'W' : 'R');
    if (!upg && rnd(8) == 0) // all writers
      for (int t = 0; t < active; ++t)
        role[t] = 'W';
    // programs of the whole batch
    for (int r = 0; r < kRounds; ++r)
      for (int t = 0; t < active; ++t) {
        Prog& p = sh.prog[r][t];
        p.nseg = (uint8_t)(1 + rnd(kMaxSeg));
        p.start = (uint8_t)rnd(60);
        for (int k = 0; k < p.nseg; ++k) {
          Seg& s = p.seg[k];
          unsigned c = rnd(16);
          if (role[t] == 'R')
            s.type = c < 8 ? R_LOCK : R_TRY;
          else if (role[t] == 'W') {
            if (c < 5)
              s.type = W_LOCK;
            else if (c < 10)
              s.type = W_TRY;
            else if (c < 12)
              s.type = lk->upDown() ? W_LOCK_DOWN : W_LOCK;
            else if (c < 13)
              s.type = lk->upDown() ? W_TRY_DOWN : W_TRY;
            else
              s.type = c < 15 ? R_LOCK : R_TRY;
          } else {
            static const uint8_t tab[16] = {W_LOCK, W_TRY, W_LOCK_DOWN, W_TRY_DOWN, R_LOCK, R_TRY, U_UP, U_UP,
                                            U_UP, U_UP_DOWN, U_UP_DOWN, U_TRY_UP, U_TRY_UP, U_UP, W_LOCK, W_TRY};
            s.type = tab[c];
          }
          s.pre = (uint8_t)(rnd(4) == 0 ? rnd(40) : 0);
          s.cs = (uint8_t)rnd(12);
          s.slot = (uint8_t)rnd(64);
        }
      }
    sh.a.v = 0;
    sh.b.v = 0;
    sh.ptry.store(0);
    sh.psh.store(0);
    sh.active.store(active);
    sh.lock.store(lk);
    sh.probes.store(0);
    // the kind of batch that has used less wall time so far
    const bool freeMode = tFree < tStep;
    sh.freeMode.store(freeMode ? 1 : 0);
    for (int t = 0; t < kThreads; ++t)
      sh.th[t].nfin.store(0);
    const int nrounds = freeMode ? kRounds * kLaps : kRounds;
    // wait until every worker has acknowledged ticket g; false after the grace period
    auto await = [&](long long g) {
      long long t0 = 0;
      unsigned n = 0;
      for (int t = 0; t < kThreads; ++t)
        while (sh.th[t].done.load(std::memory_order_acquire) != g) {
          if ((++n & 1023) == 0) {
            long long now = nowNs();
            if (!t0)
              t0 = now;
            else if (now - t0 > graceNs)
              return false;
            if ((n & 0xffff) == 0)
              std::this_thread::yield();
          }
        }
      return true;
    };
    const long long tBatch = nowNs();
    const long long firstTicket = ticket + 1;
    for (int r = 0; r < (freeMode ? 1 : kRounds); ++r) {
      sh.left.store(0, std::memory_order_relaxed);
      sh.round.store(r, std::memory_order_relaxed);
      sh.go.store(++ticket, std::memory_order_release);
      if (!await(ticket)) {
        stuck = 1;
        break;
      }
      doneRounds += freeMode ? nrounds : 1;
    }
    (freeMode ? tFree : tStep) += nowNs() - tBatch;
    // ------------------------------------------------------------------------------- the record
    Stats st[kThreads];
    int fin[kThreads];
    for (int t = 0; t < active; ++t) {
      // the statistics of a thread were published before its acknowledgement (for a stuck thread
      // they are those of its last acknowledged ticket of this batch, if any)
      fin[t] = sh.th[t].nfin.load(std::memory_order_relaxed);
      if (sh.th[t].done.load(std::memory_order_acquire) >= firstTicket)
        st[t] = sh.th[t].pub;
    }
    std::string s = "{\"e\":\"Batch\",\"lock\":\"";
    s += lk->name();
    s += "\",\"slots\":" + std::to_string(slots);
    s += std::string(",\"kind\":\"") + (upg ? "upg" : "rw") + "\"";
    s += std::string(",\"mode\":\"") + (freeMode ? "free" : "step") + "\"";
    s += ",\"batch\":" + std::to_string(bi) + ",\"rounds\":" + std::to_string(nrounds);
    s += ",\"stuck\":" + std::to_string(stuck);
    s += ",\"role\":[";
    for (int t = 0; t < active; ++t) {
      if (t)
        s += ',';
      s += '"';
      s += role[t];
      s += '"';
    }
    s += ']';
    int v[kThreads];
    arr(s, "fin", fin, active);
#define STRESS_FIELD(F)            \
  for (int t = 0; t < active; ++t) \
    v[t] = st[t].F;                \
  arr(s, #F, v, active);
    STRESS_FIELD(inc)
    STRESS_FIELD(wtorn)
    STRESS_FIELD(snaps)
    STRESS_FIELD(torn)
    STRESS_FIELD(back)
    STRESS_FIELD(tl)
    STRESS_FIELD(tlok)
    STRESS_FIELD(ts)
    STRESS_FIELD(tsok)
#undef STRESS_FIELD
    // (a stuck thread may still be writing: the counters are only meaningful in complete batches)
    s += ",\"a\":" + std::to_string((long long)(sh.a.v & 0x3fffffff));
    s += ",\"b\":" + std::to_string((long long)(sh.b.v & 0x3fffffff));
    s += ",\"probes\":" + std::to_string(sh.probes.load());
    s += ",\"ptry\":" + std::to_string(sh.ptry.load());
    s += ",\"psh\":" + std::to_string(sh.psh.load());
    s += ",\"word\":" + std::to_string(lk->residue() == 0 ? 0 : 1);
    s += "}\n";
    fputs(s.c_str(), f);
    if (!stuck)
      delete lk;
  }
  fflush(f);
  fclose(f);
  printf("DRIVER executions=%lld steps=%lld completed=%lld deadlocks=%lld diverged=0 stuck=0\n", doneRounds,
         doneRounds, doneRounds, stuck);
  fflush(stdout);
  if (stuck)
    _exit(0); // the stuck workers cannot be joined; the record says what happened
  sh.go.store(-2, std::memory_order_release);
  for (auto& t : threads)
    t.join();
  return 0;
}

} // namespace stress
