// Driver for dispenso::Future (spec/future/Future.tla, WhenAll.tla): runs REAL futures on the REAL
// schedulables (ThreadPool, TaskSet, ConcurrentTaskSet, ImmediateInvoker, NewThreadInvoker, and a manual
// FIFO schedulable owned by the driver) under the controlled scheduler and records every step.
//
//   --out FILE --progs FILE          one program per line: <text program> TAB <json members of the Reset line>
//   --schedules FILE                 replay the schedules (walker output) against the FIRST program
//   --random N --seed S [--pct D] [--notimeout] [--spurious] [--maxsteps M]
//   --free N --seed S                E5: free-running timed waits, one observation record per call
//   --linkpool R [--links N]         E5: R rounds of N then() links; one record per round (small-buffer pool size)
//   --race N [--batch B] --seed S    E5: N free-running rounds of get() / wait() racing the pool task; one record per batch
//        [--timed M [--tbatch B]]    ... then M rounds of wait_for / wait_until pollers racing the pool task's claim of a kNotDeferred future
//
// Program text: see spec/future/gen.py.  C++ only drives, records and projects; TLC judges.
#include <dispenso/future.h>
#include <dispenso/thread_pool.h>

#include <sys/prctl.h>
#include <unistd.h>

#include <algorithm>
#include <atomic>
#include <deque>
#include <map>
#include <memory>
#include <mutex>
#include <thread>

#include "../ctl/ctl.h"
#include "../ctl/drv_common.h"
#include "pool_proj.h"

#if defined(__SANITIZE_ADDRESS__)
#include <sanitizer/lsan_interface.h>
#endif

using ctl::Json;
using dispenso::Future;

// ------------------------------------------------------------------------------------- programs
struct Op {
  std::string op;
  std::map<char, long long> n;
  std::map<char, std::vector<int>> l;
  long long get(char k, long long d = 0) const {
    auto it = n.find(k);
    return it == n.end() ? d : it->second;
  }
  const std::vector<int>& lst(char k) const {
    static const std::vector<int> empty;
    auto it = l.find(k);
    return it == l.end() ? empty : it->second;
  }
};
using Program = std::vector<std::pair<std::string, std::vector<Op>>>;

static Program parseProg(const std::string& s) {
  Program p;
  for (auto& th : drv::split(s, ';')) {
    if (th.empty())
      continue;
    auto nm = drv::split(th, ':');
    std::vector<Op> ops;
    for (auto& o : drv::split(nm.size() > 1 ? nm[1] : "", ',')) {
      if (o.empty())
        continue;
      auto parts = drv::split(o, '.');
      Op d;
      d.op = parts[0];
      for (size_t i = 1; i < parts.size(); ++i) {
        if (parts[i].empty())
          continue;
        char k = parts[i][0];
        std::string val = parts[i].substr(1);
        if (k == 'I' || k == 'i' || k == 'y') {
          std::vector<int> v;
          for (auto& x : drv::split(val, '_'))
            if (!x.empty())
              v.push_back(atoi(x.c_str()));
          d.l[k] = v;
        } else {
          d.n[k] = atoll(val.c_str());
        }
      }
      ops.push_back(d);
    }
    p.emplace_back(nm[0], ops);
  }
  return p;
}

// ------------------------------------------------------------------------ registry of shared states
// Filled through the dispenso_verif_future seam (future_impl.h).  The words of every FutureImplBase<R>
// start at allowInline_ and have the same layout for every R.
struct Words {
  const char* base; // &allowInline_
  int status() const {
    return __atomic_load_n(reinterpret_cast<const int*>(base + 4), __ATOMIC_SEQ_CST);
  }
  const void* statusAddr() const {
    return base + 4;
  }
  unsigned refCount() const {
    return __atomic_load_n(reinterpret_cast<const unsigned*>(base + 8), __ATOMIC_SEQ_CST);
  }
  void* chainHead() const {
    return __atomic_load_n(reinterpret_cast<void* const*>(base + 24), __ATOMIC_SEQ_CST);
  }
};
struct RegEntry {
  int id;
  Words w;
};
struct CombEntry {
  int id;
  std::weak_ptr<const void> owner;
  const std::atomic<size_t>* word;
};
struct Registry {
  std::mutex mu;
  std::map<const void*, RegEntry> live;
  std::vector<CombEntry> combs;
  long long created = 0, freed = 0, unplanned = 0;
  void clear() {
    live.clear();
    combs.clear();
    created = freed = unplanned = 0;
  }
};
static Registry g_reg;
static thread_local std::deque<int> tlsPlan; // ids of the shared states the current API call will create
static thread_local int tlsPlanComb = 0;

extern "C" long long dispenso_verif_future(int what, const void* p, const void* q) {
  std::lock_guard<std::mutex> lk(g_reg.mu);
  switch (what) {
    case 0: {
      auto it = g_reg.live.find(p);
      return it == g_reg.live.end() ? 0 : it->second.id;
    }
    case 1: {
      int id = 0;
      if (!tlsPlan.empty()) {
        id = tlsPlan.front();
        tlsPlan.pop_front();
      } else {
        ++g_reg.unplanned;
        id = 90 + (int)g_reg.unplanned;
      }
      g_reg.live[p] = RegEntry{id, Words{static_cast<const char*>(q)}};
      ++g_reg.created;
      return id;
    }
    case 2:
      g_reg.live.erase(p);
      ++g_reg.freed;
      return 0;
    case 3:
    case 4: {
      const auto* sp = static_cast<const std::shared_ptr<const void>*>(p);
      g_reg.combs.push_back(CombEntry{tlsPlanComb, *sp, static_cast<const std::atomic<size_t>*>(q)});
      return 0;
    }
  }
  return 0;
}

static int idOfImpl(const void* impl) {
  return (int)dispenso_verif_future(0, impl, nullptr);
}

// ---------------------------------------------------------------------------------- schedulables
struct ManualQueue {
  std::deque<dispenso::OnceFunction> q;
  void schedule(dispenso::OnceFunction f) {
    q.push_back(std::move(f));
  }
  void schedule(dispenso::OnceFunction f, dispenso::ForceQueuingTag) {
    q.push_back(std::move(f));
  }
};

struct DrvExc {
  int code;
};

// a clock whose reading is an input of the program (wait_until samples it)
static thread_local long long tlsClockUs = 1000000;
struct TestClock {
  typedef std::chrono::microseconds duration;
  typedef duration::rep rep;
  typedef duration::period period;
  typedef std::chrono::time_point<TestClock> time_point;
  static constexpr bool is_steady = true;
  static time_point now() {
    return time_point(duration(tlsClockUs));
  }
};

// iterator over selected handles (when_all / when_any iterator overloads copy from it)
struct HIt {
  typedef std::forward_iterator_tag iterator_category;
  typedef Future<int> value_type;
  typedef std::ptrdiff_t difference_type;
  typedef Future<int>* pointer;
  typedef Future<int>& reference;
  Future<int>** p;
  reference operator*() const {
    return **p;
  }
  pointer operator->() const {
    return *p;
  }
  HIt& operator++() {
    ++p;
    return *this;
  }
  HIt operator++(int) {
    HIt t = *this;
    ++p;
    return t;
  }
  bool operator==(const HIt& o) const {
    return p == o.p;
  }
  bool operator!=(const HIt& o) const {
    return p != o.p;
  }
};

static const int kMaxH = 9;
struct World {
  dispenso::ThreadPool* pool = nullptr;
  dispenso::TaskSet* ts5 = nullptr;
  dispenso::ConcurrentTaskSet* ts6 = nullptr;
  ManualQueue mq;
  dispenso::NewThreadInvoker nti;
  Future<int> hi[kMaxH];
  Future<std::vector<Future<int>>> hv[kMaxH];
  Future<size_t> hs[kMaxH];
  Future<std::tuple<Future<int>>> ht1[kMaxH];
  Future<std::tuple<Future<int>, Future<int>>> ht2[kMaxH];
  int hkind[kMaxH] = {0}; // 0 empty, 1 int, 2 vector, 3 size_t, 4 / 5 tuple of 1 / 2 futures
  std::atomic<int> go{0};
  std::atomic<int> done{0};
  int nDrivers = 0;
};

static std::launch asyncP(long long a) {
  return a ? std::launch::async : dispenso::kNotAsync;
}
static std::launch deferP(long long d) {
  return d ? std::launch::deferred : dispenso::kNotDeferred;
}

template <class Sched>
static Future<int> mkOn(Sched& s, int id, int v, long long a, long long d) {
  return Future<int>(
      [id, v]() -> int {
        ctl::note("begin", id);
        ctl::note("end", id);
        if (v <= -100)
          throw DrvExc{v};
        return v;
      },
      s,
      asyncP(a),
      deferP(d));
}

// the same through dispenso::async(schedulable, policy, f): `policy` is the bitmask the caller hands to async()
template <class Sched>
static Future<int> mkAsync(Sched&& s, int id, int v, long long a, long long d) {
  std::launch policy = static_cast<std::launch>(static_cast<int>(asyncP(a)) | static_cast<int>(deferP(d)));
  return dispenso::async(std::forward<Sched>(s), policy, [id, v]() -> int {
    ctl::note("begin", id);
    ctl::note("end", id);
    if (v <= -100)
      throw DrvExc{v};
    return v;
  });
}

template <class Sched>
static Future<int> thenOn(Future<int>& ante, Sched& s, int id, long long a, long long d) {
  return ante.then(
      [id](Future<int>&& x) -> int {
        int r = x.is_ready() ? 1 : 0;
        ctl::note("tbegin", id, r);
        int v;
        try {
          v = x.get();
        } catch (const DrvExc& e) {
          ctl::note("tend", id, e.code);
          throw;
        }
        ctl::note("tend", id, v);
        return v + 1;
      },
      s,
      asyncP(a),
      deferP(d));
}

template <class F>
static long long doWaitFor(F& h, long long us) {
  return h.wait_for(std::chrono::microseconds(us)) == std::future_status::ready ? 1 : 0;
}
template <class F>
static long long doWaitUntil(F& h, long long us) {
  return h.wait_until(TestClock::time_point(std::chrono::microseconds(tlsClockUs + us))) == std::future_status::ready ? 1 : 0;
}

// calls fn(handle) with the typed handle in slot h
template <class Fn>
static void withHandle(World* w, int h, Fn fn) {
  switch (w->hkind[h]) {
    case 1:
      fn(w->hi[h]);
      break;
    case 2:
      fn(w->hv[h]);
      break;
    case 3:
      fn(w->hs[h]);
      break;
    case 4:
      fn(w->ht1[h]);
      break;
    case 5:
      fn(w->ht2[h]);
      break;
    default:
      fprintf(stderr, "ERROR drv_future: handle %d is empty\n", h);
      _exit(3);
  }
}

static void doOp(World* w, const Op& o, int ip) {
  const std::string& op = o.op;
  int h = (int)o.get('h'), h2 = (int)o.get('H');
  long long ret = 0;
  ctl::note("call", ip, 0);
  if (op == "mk") {
    int f = (int)o.get('f'), s = (int)o.get('s'), v = (int)o.get('v');
    long long a = o.get('a'), d = o.get('d', 1);
    tlsPlan.assign(1, f);
    Future<int> r;
    if (o.get('x') != 0) { // created through dispenso::async()
      switch (s) {
        case 3:
          r = mkAsync(w->nti, f, v, a, d);
          break;
        case 4:
          r = mkAsync(*w->pool, f, v, a, d);
          break;
        case 5:
          r = mkAsync(*w->ts5, f, v, a, d);
          break;
        default:
          r = mkAsync(*w->ts6, f, v, a, d);
          break;
      }
      s = 0;
    }
    switch (s) {
      case 1:
        r = mkOn(w->mq, f, v, a, d);
        break;
      case 2:
        r = mkOn(dispenso::kImmediateInvoker, f, v, a, d);
        break;
      case 3:
        r = mkOn(w->nti, f, v, a, d);
        break;
      case 4:
        r = mkOn(*w->pool, f, v, a, d);
        break;
      case 5:
        r = mkOn(*w->ts5, f, v, a, d);
        break;
      case 6:
        r = mkOn(*w->ts6, f, v, a, d);
        break;
    }
    w->hi[h] = std::move(r);
    w->hkind[h] = 1;
  } else if (op == "get") {
    int k = w->hkind[h];
    if (k == 1) {
      try {
        const int& r = w->hi[h].get();
        ret = r;
        ctl::note("slot", ip, reinterpret_cast<const void*>(&r) == reinterpret_cast<const void*>(w->hi[h].impl_->resultBuf_) ? 1 : 0);
      } catch (const DrvExc& e) {
        ret = e.code;
      }
    } else if (k == 2) {
      const std::vector<Future<int>>& r = w->hv[h].get();
      ret = (long long)r.size();
      ctl::note("slot", ip, reinterpret_cast<const void*>(&r) == reinterpret_cast<const void*>(w->hv[h].impl_->resultBuf_) ? 1 : 0);
      for (size_t i = 0; i < r.size(); ++i)
        ctl::note("res", (long long)i + 1, idOfImpl(r[i].impl_));
    } else if (k == 4) {
      const std::tuple<Future<int>>& r = w->ht1[h].get();
      ret = 1;
      ctl::note("slot", ip, reinterpret_cast<const void*>(&r) == reinterpret_cast<const void*>(w->ht1[h].impl_->resultBuf_) ? 1 : 0);
      ctl::note("res", 1, idOfImpl(std::get<0>(r).impl_));
    } else if (k == 5) {
      const std::tuple<Future<int>, Future<int>>& r = w->ht2[h].get();
      ret = 2;
      ctl::note("slot", ip, reinterpret_cast<const void*>(&r) == reinterpret_cast<const void*>(w->ht2[h].impl_->resultBuf_) ? 1 : 0);
      ctl::note("res", 1, idOfImpl(std::get<0>(r).impl_));
      ctl::note("res", 2, idOfImpl(std::get<1>(r).impl_));
    } else {
      const size_t& r = w->hs[h].get();
      ret = r == SIZE_MAX ? -1 : (long long)r;
      ctl::note("slot", ip, reinterpret_cast<const void*>(&r) == reinterpret_cast<const void*>(w->hs[h].impl_->resultBuf_) ? 1 : 0);
    }
  } else if (op == "wait") {
    withHandle(w, h, [](auto& x) { x.wait(); });
  } else if (op == "wf") {
    long long us = o.get('v');
    withHandle(w, h, [&](auto& x) { ret = doWaitFor(x, us); });
  } else if (op == "wu") {
    long long us = o.get('v');
    withHandle(w, h, [&](auto& x) { ret = doWaitUntil(x, us); });
  } else if (op == "rdy") {
    withHandle(w, h, [&](auto& x) { ret = x.is_ready() ? 1 : 0; });
  } else if (op == "cp") {
    int k = w->hkind[h];
    if (k == 1)
      w->hi[h2] = w->hi[h];
    else if (k == 2)
      w->hv[h2] = w->hv[h];
    else if (k == 3)
      w->hs[h2] = w->hs[h];
    else if (k == 4)
      w->ht1[h2] = w->ht1[h];
    else
      w->ht2[h2] = w->ht2[h];
    w->hkind[h2] = k;
  } else if (op == "del") {
    int k = w->hkind[h];
    w->hkind[h] = 0;
    if (k == 1)
      w->hi[h] = Future<int>();
    else if (k == 2)
      w->hv[h] = Future<std::vector<Future<int>>>();
    else if (k == 3)
      w->hs[h] = Future<size_t>();
    else if (k == 4)
      w->ht1[h] = Future<std::tuple<Future<int>>>();
    else
      w->ht2[h] = Future<std::tuple<Future<int>, Future<int>>>();
  } else if (op == "then") {
    int g = (int)o.get('g'), s = (int)o.get('s');
    long long a = o.get('a'), d = o.get('d', 1);
    tlsPlan.assign(1, g);
    Future<int> r;
    switch (s) {
      case 1:
        r = thenOn(w->hi[h], w->mq, g, a, d);
        break;
      case 2:
        r = thenOn(w->hi[h], dispenso::kImmediateInvoker, g, a, d);
        break;
      case 3:
        r = thenOn(w->hi[h], w->nti, g, a, d);
        break;
      case 4:
        r = thenOn(w->hi[h], *w->pool, g, a, d);
        break;
      case 5:
        r = thenOn(w->hi[h], *w->ts5, g, a, d);
        break;
      case 6:
        r = thenOn(w->hi[h], *w->ts6, g, a, d);
        break;
    }
    w->hi[h2] = std::move(r);
    w->hkind[h2] = 1;
  } else if (op == "wall" || op == "wany") {
    bool all = op == "wall";
    int R = (int)o.get('f');
    int t = (int)o.get('t');
    bool tuple = o.get('r') != 0;
    const std::vector<int>& I = o.lst('I');
    const std::vector<int>& y = o.lst('y');
    std::vector<Future<int>*> in;
    for (int x : I)
      in.push_back(&w->hi[x]);
    // shared states are created in this order: the result, then one callback future per input in registration order
    tlsPlan.assign(1, R);
    if (tuple)
      for (size_t i = y.size(); i-- > 0;)
        tlsPlan.push_back(y[i]);
    else
      for (int x : y)
        tlsPlan.push_back(x);
    tlsPlanComb = R;
    HIt b{in.data()}, e{in.data() + in.size()};
    size_t n = in.size();
    // all four task-set overloads of when_all are driven (TaskSet / ConcurrentTaskSet x iterator / variadic): C19's
    // "taskSet.wait() returned => the result is ready" is a statement about each of them
    if (all && tuple && n == 1) {
      w->ht1[h] = t == 0 ? dispenso::when_all(*in[0])
                         : t == 1 ? dispenso::when_all(*w->ts5, *in[0]) : dispenso::when_all(*w->ts6, *in[0]);
      w->hkind[h] = 4;
    } else if (all && tuple && n == 2) {
      w->ht2[h] = t == 0 ? dispenso::when_all(*in[0], *in[1])
                         : t == 1 ? dispenso::when_all(*w->ts5, *in[0], *in[1]) : dispenso::when_all(*w->ts6, *in[0], *in[1]);
      w->hkind[h] = 5;
    } else if (all) {
      Future<std::vector<Future<int>>> r;
      if (t == 0)
        r = dispenso::when_all(b, e);
      else if (t == 1)
        r = dispenso::when_all(*w->ts5, b, e);
      else
        r = dispenso::when_all(*w->ts6, b, e);
      w->hv[h] = std::move(r);
      w->hkind[h] = 2;
    } else {
      Future<size_t> r;
      if (tuple && n == 2)
        r = t == 0 ? dispenso::when_any(*in[0], *in[1])
                   : t == 1 ? dispenso::when_any(*w->ts5, *in[0], *in[1]) : dispenso::when_any(*w->ts6, *in[0], *in[1]);
      else if (tuple && n == 1)
        r = t == 0 ? dispenso::when_any(*in[0])
                   : t == 1 ? dispenso::when_any(*w->ts5, *in[0]) : dispenso::when_any(*w->ts6, *in[0]);
      else if (t == 0)
        r = dispenso::when_any(b, e);
      else if (t == 1)
        r = dispenso::when_any(*w->ts5, b, e);
      else
        r = dispenso::when_any(*w->ts6, b, e);
      w->hs[h] = std::move(r);
      w->hkind[h] = 3;
    }
    tlsPlan.clear();
  } else if (op == "new") {
    w->pool = new dispenso::ThreadPool((size_t)o.get('w'), 32);
  } else if (op == "delp") {
    auto* p = w->pool;
    delete p;
    w->pool = nullptr;
  } else if (op == "tsnew") {
    if (o.get('k') == 5)
      w->ts5 = new dispenso::TaskSet(*w->pool);
    else
      w->ts6 = new dispenso::ConcurrentTaskSet(*w->pool);
  } else if (op == "tsdel") {
    if (o.get('t') == 1) {
      delete w->ts5;
      w->ts5 = nullptr;
    } else {
      delete w->ts6;
      w->ts6 = nullptr;
    }
  } else if (op == "tswait") {
    if (o.get('t') == 1)
      w->ts5->wait();
    else
      w->ts6->wait();
  } else if (op == "go") {
    w->go.store(1);
  } else if (op == "up") {
    ctl::gate("GateUp", [w]() { return w->go.load() != 0; });
  } else if (op == "sync") {
    ctl::gate("GateSync", [w]() { return w->done.load() == w->nDrivers - 1; });
  } else if (op == "runq") {
    ctl::gate("DrRunQ", [w]() { return !w->mq.q.empty(); });
    dispenso::OnceFunction f = std::move(w->mq.q.front());
    w->mq.q.pop_front();
    f();
  } else {
    fprintf(stderr, "ERROR drv_future: unknown op %s\n", op.c_str());
    _exit(3);
  }
  ctl::note("ret", ip, ret);
}

// ------------------------------------------------------------------------------------ projection
static void project(World* w, Json& j) {
  std::lock_guard<std::mutex> lk(g_reg.mu);
  auto waiters = ctl::futexWaiters();
  std::map<int, const RegEntry*> byId;
  for (auto& kv : g_reg.live)
    byId[kv.second.id] = &kv.second;
  j.key("f").beginArr();
  for (auto& kv : byId) {
    const RegEntry& e = *kv.second;
    j.beginObj();
    j.kv("id", e.id);
    j.kv("st", e.w.status());
    j.kv("rc", (long long)e.w.refCount());
    j.key("chain").beginArr();
    int guard = 0;
    for (void* l = e.w.chainHead(); l && guard < 32; ++guard) {
      void** link = static_cast<void**>(l); // ThenChain {next, impl, schedulable, invoke}
      auto it = g_reg.live.find(link[1]);
      j.num(it == g_reg.live.end() ? -1 : it->second.id);
      l = link[0];
    }
    j.endArr();
    j.key("fw").beginArr();
    std::vector<std::string> names;
    for (auto& wi : waiters)
      if (wi.addr == e.w.statusAddr())
        names.push_back(wi.name);
    std::sort(names.begin(), names.end());
    for (auto& n : names)
      j.str(n);
    j.endArr();
    j.endObj();
  }
  j.endArr();
  j.key("c").beginArr();
  for (auto& c : g_reg.combs) {
    std::shared_ptr<const void> sp = c.owner.lock();
    if (!sp)
      continue;
    j.beginObj();
    j.kv("id", c.id);
    size_t v = c.word->load();
    j.kv("cnt", v == SIZE_MAX ? -1 : (long long)v);
    j.kv("own", (long long)sp.use_count() - 1);
    j.endObj();
  }
  j.endArr();
  j.key("ts").beginArr();
  j.num(w->ts5 ? (long long)w->ts5->outstandingTaskCount_.load() : 0);
  j.num(w->ts6 ? (long long)w->ts6->outstandingTaskCount_.load() : 0);
  j.endArr();
  j.kv("mq", (long long)w->mq.q.size());
}

static ctl::RunResult execute(const Program& prog, const std::string& hdr, ctl::RunOptions opts, ctl::Trace& tr,
                              const std::string& tag) {
  World* w = new World();
  w->nDrivers = (int)prog.size();
  {
    std::lock_guard<std::mutex> lk(g_reg.mu);
    g_reg.clear();
  }
  dispenso::detail::verifNewThreadCounter().store(0);
  tr.line("{\"e\":\"Reset\",\"tag\":\"" + tag + "\"," + hdr + "}");
  ctl::Controller c(tr);
  ctl::setSiteFilter(poolproj::siteFilter);
  c.setProjection([w](Json& j) { project(w, j); });
  for (auto& th : prog) {
    const std::vector<Op>* ops = &th.second;
    c.addThread(th.first, [w, ops]() {
      int ip = 0;
      for (auto& o : *ops) {
        ctl::point("DrOp");
        doOp(w, o, ++ip);
      }
      ctl::point("DrEnd");
      w->done.fetch_add(1);
    });
  }
  ctl::RunResult res = c.run(opts);
  if (res.completed) {
    Json j;
    j.beginObj();
    j.kv("e", std::string("End"));
    {
      std::lock_guard<std::mutex> lk(g_reg.mu);
      j.kv("live", (long long)g_reg.live.size());
      j.kv("created", g_reg.created);
      j.kv("freed", g_reg.freed);
      j.kv("unplanned", g_reg.unplanned);
    }
    j.endObj();
    tr.line(j.s);
    delete w;
  }
  return res;
}

// ------------------------------------------------------------------- E5: free-running timed waits
static long long nowNs() {
  return std::chrono::duration_cast<std::chrono::nanoseconds>(std::chrono::steady_clock::now().time_since_epoch()).count();
}
static void sleepUs(long long us) {
  if (us <= 0)
    return;
  long long end = nowNs() + us * 1000;
  if (us > 200) {
    struct timespec ts {
      0, (long)((us - 100) * 1000)
    };
    nanosleep(&ts, nullptr);
  }
  while (nowNs() < end) {
  }
}

static thread_local int tlsWaiter = 0; // id of the waiter thread (0 = not a waiter)

static int runFree(const drv::Args& a) {
  ctl::Trace tr(a.str("out", "obs.ndjson"));
  long long rounds = a.num("free", 100);
  uint64_t rng = (uint64_t)a.num("seed", 1) * 0x9e3779b97f4a7c15ULL + 77;
  static const long long reqs[] = {-1000, 0, 1, 40, 150, 400, 900, 1500, 2500};
  static const long long bodyUs[] = {0, 0, 50, 300, 800, 2000};
  long long nobs = 0;
  dispenso::ThreadPool pool(2);
  for (long long r = 0; r < rounds; ++r) {
    int sched = (int)(ctl::splitmix(rng) % 4); // 0 manual queue (started by a helper thread), 1 pool, 2 task set, 3 new thread
    int defer = (int)(ctl::splitmix(rng) % 2);
    long long body = bodyUs[ctl::splitmix(rng) % 6];
    long long startDelay = (long long)(ctl::splitmix(rng) % 5) * 150; // when the manual queue runner starts the functor
    int nw = 1 + (int)(ctl::splitmix(rng) % 3);
    std::atomic<int> ranBy{-1};    // waiter id that ran the functor inline (0 = a pool / helper thread)
    std::atomic<int> started{0};
    ManualQueue mq;
    dispenso::NewThreadInvoker nti;
    dispenso::TaskSet tset(pool);
    auto fn = [&ranBy, &started, body]() -> int {
      started.store(1, std::memory_order_seq_cst);
      ranBy.store(tlsWaiter, std::memory_order_seq_cst);
      sleepUs(body);
      return 7;
    };
    Future<int> f;
    tlsPlan.assign(1, 1);
    int viaAsync = sched != 0 && ctl::splitmix(rng) % 2 == 0; // dispenso::async(schedulable, policy, f) instead of the constructor
    std::launch policy = static_cast<std::launch>(static_cast<int>(std::launch::async) | static_cast<int>(deferP(defer)));
    if (viaAsync) {
      if (sched == 1)
        f = dispenso::async(pool, policy, decltype(fn)(fn));
      else if (sched == 2)
        f = dispenso::async(tset, policy, decltype(fn)(fn));
      else
        f = dispenso::async(nti, policy, decltype(fn)(fn));
    } else
    switch (sched) {
      case 0:
        f = Future<int>(decltype(fn)(fn), mq, dispenso::kNotAsync, deferP(defer));
        break;
      case 1:
        f = Future<int>(decltype(fn)(fn), pool, std::launch::async, deferP(defer));
        break;
      case 2:
        f = Future<int>(decltype(fn)(fn), tset, std::launch::async, deferP(defer));
        break;
      default:
        f = Future<int>(decltype(fn)(fn), nti, dispenso::kNotAsync, deferP(defer));
        break;
    }
    ctl::Controller c(tr);
    if (sched == 0)
      c.addThread("r", [&]() {
        sleepUs(startDelay);
        dispenso::OnceFunction of = std::move(mq.q.front());
        mq.q.pop_front();
        of();
      });
    for (int wi = 0; wi < nw; ++wi) {
      long long req = reqs[ctl::splitmix(rng) % 9];
      bool until = ctl::splitmix(rng) % 3 == 0;
      long long delay = (long long)(ctl::splitmix(rng) % 4) * 100;
      Future<int> copy = f;
      c.addThread("w" + std::to_string(wi + 1), [&, req, until, delay, r, wi, copy, defer, sched, viaAsync]() {
        tlsWaiter = wi + 1;
        sleepUs(delay);
        int startedBefore = started.load(std::memory_order_seq_cst);
        std::future_status st;
        long long t0 = nowNs();
        if (until)
          st = copy.wait_until(std::chrono::steady_clock::time_point(std::chrono::nanoseconds(t0)) + std::chrono::microseconds(req));
        else
          st = copy.wait_for(std::chrono::microseconds(req));
        long long t1 = nowNs();
        int done = copy.is_ready() ? 1 : 0;
        int inl = ranBy.load(std::memory_order_seq_cst) == wi + 1 ? 1 : 0;
        long long el = (t1 - t0) / 1000; // rounded down: conservative for "too early" (R5)
        if (el > 2000000000LL)
          el = 2000000000LL;
        Json j;
        j.s = "\"kind\":\"";
        j.s += until ? "wait_until" : "wait_for";
        j.s += "\"";
        j.first = false;
        j.kv("req", req);
        j.kv("el", el);
        j.kv("res", st == std::future_status::ready ? 1 : 0);
        j.kv("done", done);
        j.kv("defer", defer);
        j.kv("inl", inl);
        j.kv("pre", startedBefore);
        j.kv("sched", sched);
        j.kv("async", viaAsync);
        j.kv("round", r);
        ctl::freeEvent(tr, "Obs", j.s);
        tlsWaiter = 0;
      });
      ++nobs;
    }
    ctl::RunOptions o;
    o.mode = ctl::RunOptions::Free;
    o.seed = rng;
    c.run(o);
    f.wait(); // the functor has run before the locals it references go away
    tset.wait();
  }
  tr.flush();
  printf("DRIVER executions=%lld steps=%lld completed=%lld deadlocks=0 diverged=0 stuck=0\n", rounds, nobs, rounds);
  fflush(stdout);
  return 0;
}

// ------------------------------------------------- E5: then-chain links and the small-buffer pools
// Rounds of N x then() on a future that is not ready yet (every call allocates one chain link), then the future runs
// (drains the chain, frees every link).  One record per round: bytes the 32-byte small-buffer pool has claimed.
static int runLinkPool(const drv::Args& a) {
  ctl::Trace tr(a.str("out", "pool.ndjson"));
  long long rounds = a.num("linkpool", 5);
  long long n = a.num("links", 20000);
  for (long long r = 0; r < rounds; ++r) {
    ManualQueue mq;
    {
      Future<int> f([]() { return 1; }, mq);
      for (long long i = 0; i < n; ++i) {
        auto g = f.then([](Future<int>&& x) { return x.get(); }, dispenso::kImmediateInvoker);
      }
      dispenso::OnceFunction of = std::move(mq.q.front());
      mq.q.pop_front();
      of();
    }
    Json j;
    j.beginObj();
    j.kv("e", std::string("Pool"));
    j.kv("round", r);
    j.kv("links", n);
    j.kv("kb32", (long long)(dispenso::approxBytesAllocatedSmallBuffer<32>() / 1024));
    j.kv("live", (long long)g_reg.live.size());
    j.endObj();
    tr.line(j.s);
  }
  tr.flush();
  printf("DRIVER executions=%lld steps=%lld completed=%lld deadlocks=0 diverged=0 stuck=0\n", rounds, rounds * n, rounds);
  fflush(stdout);
  return 0;
}

// ------------------------------------- E5: a waiter races the scheduled task for the claim (C18)
// The controlled engines interleave the code at its schedule points only: the claim kNotStarted -> kRunning is ONE
// step there (FuRunCas), so a claim that is not atomic (check-then-act, a re-read, an exchange split in two) behaves
// exactly like the CAS.  Here the real code runs free: for every round a future is queued on a one-thread pool behind a
// "gate" task the worker is spinning in; the owner opens the gate, spins for `d` loop turns and calls get() / wait():
// Future::wait() / get() always try to run a not-started future on the waiter (also for kNotDeferred futures), so the
// waiter's claim and the pool task's claim land within a few ns of each other.  `d` follows a feedback rule (+2 when the
// waiter won, -2 when the pool won) plus random dither, which keeps the two claims overlapping whatever the machine
// load is.  In a quarter of the rounds a second thread calls get() on a copy at the same moment (waiter vs waiter vs
// pool).  Futures: kNotDeferred and deferred (default) policy, constructor and dispenso::async, on the ThreadPool, a
// TaskSet and a ConcurrentTaskSet.  No wall-clock judgement; one record per batch of rounds (what the callers saw).
struct RaceProbe { // a member of the functor: counts the live copies of the functor
  std::atomic<long long>* live;
  explicit RaceProbe(std::atomic<long long>* l) : live(l) {
    live->fetch_add(1, std::memory_order_relaxed);
  }
  RaceProbe(const RaceProbe& o) : live(o.live) {
    live->fetch_add(1, std::memory_order_relaxed);
  }
  ~RaceProbe() {
    live->fetch_sub(1, std::memory_order_relaxed);
  }
};

struct RaceHelper {
  std::atomic<long long> round{-1}, done{-1};
  std::atomic<long long>* gateOpen{nullptr};
  std::atomic<int> stop{0};
  Future<int> copy;
  long long id = 0;
  int spin = 0;
  int value = 0;
};

static std::atomic<long long> g_raceBeat{0}; // progress counter watched by the watchdog
static std::mutex g_raceOut;

// ------------------------------------- E5, second class of rounds: timed waits racing the pool thread's claim (C18)
// "Every getter sees its result": wait_for() / wait_until() == future_status::ready tells the caller that the result
// EXISTS (the functor has returned), whoever ran it.  A future with deferredPolicy = kNotDeferred is never run by a
// timed waiter: the waiters sleep on the status word while the pool drives it kNotStarted -> kRunning -> kReady, so
// the word changes TWICE under a sleeping / about-to-sleep waiter and only the second change means "done".  The window
// "waiter has sampled the word, the kernel has not yet compared it" lies inside one step of the controlled scheduler
// (CeWfLd .. futex), so only free-running threads can put the pool's claim into it.  The --race rounds above use get() /
// wait() only (those claim the functor themselves); this class was missing.
// Round: the one worker of the pool sits in a gate task; the owner makes Future(f, sched, async, kNotDeferred) (or
// dispenso::async with that policy) on the ThreadPool / a TaskSet / a ConcurrentTaskSet, hands copies to 3 poller
// threads which start spinning on wait_for(tiny) / wait_until(now + tiny); once all of them are spinning the owner
// (polling too) opens the gate after a random short spin, the worker claims and runs f, f blocks until the owner -
// some polls later - releases it, f sets `finished` as its last statement and returns; everybody polls on until ready,
// the owner then calls get().  Timer slack is set to 1 ns for the polling threads (an environment setting, nothing the
// library sees) so that a poll takes a few us instead of 50+ us: more polls cross the claim.
// Judgements (one record per batch, what the callers saw; no wall-clock judgement):
//   early    timed waits that reported ready although `finished` of that round was not visible afterwards
//   unstable futures that reported ready (correctly) and then NOT ready on a following wait_for(0) of the same thread
//   + the judgements of the --race records (executed once, get() == the functor's value, nothing leaked, not stuck)
struct TimedPoller {
  std::atomic<long long> round{0}, polling{0}, done{0};
  Future<int> copy;
  uint64_t rng = 0;
  long long early = 0, polls = 0, pre = 0, unstable = 0; // written by the poller before done, read by the owner after
};
static TimedPoller g_tp[3];
static std::atomic<int> g_tpStop{0};
static std::atomic<long long> g_tpStarted{0}, g_tpRelease{0}, g_tpFinished{0};

// one timed wait on `f` (round `id`); true = it reported ready and the result visibly exists
static bool timedPoll(const Future<int>& f, uint64_t& rng, long long id, long long& early, long long& polls,
                      long long& pre, long long& unstable) {
  static const int kNs[8] = {1, 50, 100, 200, 200, 500, 1000, 3000};
  uint64_t x = ctl::splitmix(rng);
  auto dur = std::chrono::nanoseconds(kNs[x & 7]);
  std::future_status st =
      ((x >> 3) & 1) ? f.wait_until(std::chrono::steady_clock::now() + dur) : f.wait_for(dur);
  ++polls;
  if (st != std::future_status::ready) {
    if (g_tpStarted.load(std::memory_order_acquire) < id)
      ++pre; // a timed wait that ended before the functor was claimed: the polling did start before the claim
    return false;
  }
  // ready => the functor returned => its last statement (finished := id, release) happens-before the waiter's acquire
  // load of kReady => visible here
  if (g_tpFinished.load(std::memory_order_acquire) < id) {
    ++early;
    return false;
  }
  if (f.wait_for(std::chrono::nanoseconds(0)) != std::future_status::ready || !f.is_ready())
    ++unstable;
  return true;
}

static void runTimedRace(FILE* f, long long rounds, long long batch, uint64_t rng, std::atomic<long long>& curBatch,
                         std::atomic<long long>& batchesDone, long long& nrounds, long long firstBatch) {
  const int kPollers = 3;
  std::thread pollers[kPollers];
  for (int p = 0; p < kPollers; ++p) {
    g_tp[p].rng = ctl::splitmix(rng);
    pollers[p] = std::thread([p]() {
      prctl(PR_SET_TIMERSLACK, 1UL, 0, 0, 0);
      tlsWaiter = 2 + p;
      TimedPoller& me = g_tp[p];
      long long seen = 0;
      while (!g_tpStop.load(std::memory_order_acquire)) {
        long long r = me.round.load(std::memory_order_acquire);
        if (r == seen)
          continue;
        seen = r;
        me.polling.store(r, std::memory_order_release);
        while (!timedPoll(me.copy, me.rng, r, me.early, me.polls, me.pre, me.unstable)) {
        }
        me.copy = Future<int>();
        me.done.store(r, std::memory_order_release);
      }
    });
  }
  prctl(PR_SET_TIMERSLACK, 1UL, 0, 0, 0);
  long long gid = g_tpFinished.load();
  for (long long b = 0; b * batch < rounds; ++b) {
    curBatch.store(firstBatch + b);
    long long n = std::min(batch, rounds - b * batch);
    std::unique_ptr<std::atomic<int>[]> execs(new std::atomic<int>[n]);
    std::unique_ptr<std::atomic<int>[]> inl(new std::atomic<int>[n]);
    for (long long i = 0; i < n; ++i) {
      execs[i].store(0);
      inl[i].store(0);
    }
    std::atomic<long long> flive{0};
    std::atomic<long long> gateStarted{0}, gateOpen{0};
    long long diff = 0, ninl = 0, early = 0, polls = 0, pre = 0, mid = 0, unstable = 0;
    {
      std::lock_guard<std::mutex> lk(g_reg.mu);
      g_reg.clear();
    }
    auto* pool = new dispenso::ThreadPool(1);
    auto* ts5 = new dispenso::TaskSet(*pool);
    auto* ts6 = new dispenso::ConcurrentTaskSet(*pool);
    auto scheduleGate = [&](long long g) {
      pool->schedule(
          [&gateStarted, &gateOpen, g]() {
            gateStarted.store(g, std::memory_order_release);
            while (gateOpen.load(std::memory_order_acquire) < g) {
            }
          },
          dispenso::ForceQueuingTag());
    };
    scheduleGate(1);
    for (long long i = 0; i < n; ++i) {
      const long long g = i + 1;
      const long long id = ++gid;
      while (gateStarted.load(std::memory_order_acquire) < g) {
      }
      uint64_t x = ctl::splitmix(rng);
      int kind = (x & 3) == 3 ? 2 : (x & 3) == 2 ? 1 : 0; // 0 ThreadPool, 1 TaskSet, 2 ConcurrentTaskSet
      bool viaAsync = ((x >> 3) & 3) == 0;
      int prePolls = (int)((x >> 5) & 3); // the owner's own polls before it opens the gate
      int spin = (int)((x >> 8) % 400); // ... and a short spin, so that the claim lands anywhere in the pollers' cycles
      int midPolls = (int)((x >> 20) & 3); // the owner's polls between "functor started" and the release
      std::atomic<int>* cnt = &execs[i];
      std::atomic<int>* in = &inl[i];
      const int val = (int)((id & 0xfffff) * 16);
      RaceProbe probe(&flive);
      auto fn = [cnt, in, val, id, probe]() -> int {
        if (tlsWaiter)
          in->store(tlsWaiter, std::memory_order_relaxed);
        g_tpStarted.store(id, std::memory_order_release);
        int e = cnt->fetch_add(1, std::memory_order_acq_rel);
        while (g_tpRelease.load(std::memory_order_acquire) < id) {
        }
        g_tpFinished.store(id, std::memory_order_release);
        return val + e;
      };
      std::launch policy =
          static_cast<std::launch>(static_cast<int>(std::launch::async) | static_cast<int>(dispenso::kNotDeferred));
      Future<int> fut;
      if (viaAsync) {
        if (kind == 0)
          fut = dispenso::async(*pool, policy, std::move(fn));
        else if (kind == 1)
          fut = dispenso::async(*ts5, policy, std::move(fn));
        else
          fut = dispenso::async(*ts6, policy, std::move(fn));
      } else {
        if (kind == 0)
          fut = Future<int>(std::move(fn), *pool, std::launch::async, dispenso::kNotDeferred);
        else if (kind == 1)
          fut = Future<int>(std::move(fn), *ts5, std::launch::async, dispenso::kNotDeferred);
        else
          fut = Future<int>(std::move(fn), *ts6, std::launch::async, dispenso::kNotDeferred);
      }
      scheduleGate(g + 1); // the worker never goes idle
      for (int p = 0; p < kPollers; ++p) {
        g_tp[p].copy = fut;
        g_tp[p].round.store(id, std::memory_order_release);
      }
      for (int p = 0; p < kPollers; ++p)
        while (g_tp[p].polling.load(std::memory_order_acquire) != id) {
        }
      bool ready = false;
      for (int k = 0; k < prePolls; ++k)
        timedPoll(fut, rng, id, early, polls, pre, unstable);
      for (volatile int k = 0; k < spin; ++k) {
      }
      gateOpen.store(g, std::memory_order_release); // the worker leaves the gate, pops the future's task and claims it
      while (g_tpStarted.load(std::memory_order_acquire) < id)
        timedPoll(fut, rng, id, early, polls, pre, unstable);
      for (int k = 0; k < midPolls; ++k) {
        long long p0 = polls, e0 = early;
        timedPoll(fut, rng, id, early, polls, pre, unstable);
        if (polls > p0 && early == e0)
          ++mid; // a timed wait that began and ended while the functor was running
      }
      g_tpRelease.store(id, std::memory_order_release);
      while (!ready)
        ready = timedPoll(fut, rng, id, early, polls, pre, unstable);
      int v = fut.get();
      if (v != val)
        ++diff;
      for (int p = 0; p < kPollers; ++p)
        while (g_tp[p].done.load(std::memory_order_acquire) != id) {
        }
      if (in->load(std::memory_order_relaxed))
        ++ninl;
      g_raceBeat.fetch_add(1, std::memory_order_relaxed);
    }
    gateOpen.store(n + 2, std::memory_order_release);
    for (int p = 0; p < kPollers; ++p) {
      early += g_tp[p].early;
      polls += g_tp[p].polls;
      pre += g_tp[p].pre;
      unstable += g_tp[p].unstable;
      g_tp[p].early = g_tp[p].polls = g_tp[p].pre = g_tp[p].unstable = 0;
    }
    // every handle is gone; a broken task-set counter makes wait() hang: the watchdog writes the stuck record
    ts5->wait();
    ts6->wait();
    long long tsc = (long long)ts5->outstandingTaskCount_.load() + (long long)ts6->outstandingTaskCount_.load();
    delete ts5;
    delete ts6;
    delete pool; // every queued task has been invoked
    long long multi = 0, never = 0, live = 0;
    {
      std::lock_guard<std::mutex> lk(g_reg.mu);
      live = (long long)g_reg.live.size();
    }
    for (long long i = 0; i < n; ++i) {
      int e = execs[i].load();
      if (e > 1)
        ++multi;
      else if (e < 1)
        ++never;
    }
    nrounds += n;
    {
      std::lock_guard<std::mutex> lk(g_raceOut);
      fprintf(f, "{\"e\":\"TimedRace\",\"batch\":%lld,\"rounds\":%lld,\"nd\":%lld,\"multi\":%lld,\"never\":%lld,\"diff\":%lld,"
                 "\"flive\":%lld,\"live\":%lld,\"tsc\":%lld,\"inl\":%lld,\"inlnd\":%lld,\"stuck\":0,"
                 "\"early\":%lld,\"unstable\":%lld,\"polls\":%lld,\"pre\":%lld,\"mid\":%lld}\n",
              firstBatch + b, n, n, multi, never, diff, flive.load(), live, tsc, ninl, ninl, early, unstable,
              std::min<long long>(polls, 2000000000LL), std::min<long long>(pre, 2000000000LL), mid);
      fflush(f);
    }
    batchesDone.fetch_add(1);
  }
  g_tpStop.store(1, std::memory_order_release);
  for (auto& t : pollers)
    t.join();
}

static int runRace(const drv::Args& a) {
  std::string out = a.str("out", "race.ndjson");
  FILE* f = fopen(out.c_str(), "w");
  if (!f)
    return 2;
  long long rounds = a.num("race", 20000);
  long long batch = a.num("batch", 2000);
  uint64_t rng = (uint64_t)a.num("seed", 1) * 0x9e3779b97f4a7c15ULL + 1801;
  static std::atomic<long long> curBatch{0}, batchesDone{0};
  static std::atomic<int> finished{0};
  // a hang of the real code (a waiter that is never woken, a task set whose counter never returns to zero) is a
  // record: no progress for 20 s => {"stuck":1}, then the process ends
  std::thread([f]() {
    long long last = -1;
    int quiet = 0;
    while (!finished.load()) {
      struct timespec ts {
        0, 100 * 1000 * 1000
      };
      nanosleep(&ts, nullptr);
      long long b = g_raceBeat.load();
      quiet = b == last ? quiet + 1 : 0;
      last = b;
      if (quiet >= 200) {
        std::lock_guard<std::mutex> lk(g_raceOut);
        fprintf(f, "{\"e\":\"Race\",\"batch\":%lld,\"rounds\":0,\"nd\":0,\"multi\":0,\"never\":0,\"diff\":0,\"flive\":0,\"live\":0,"
                   "\"tsc\":0,\"inl\":0,\"inlnd\":0,\"stuck\":1}\n", curBatch.load());
        fflush(f);
        printf("DRIVER executions=%lld steps=0 completed=%lld deadlocks=1 diverged=0 stuck=0\n", batchesDone.load() + 1,
               batchesDone.load());
        fflush(stdout);
        _exit(0);
      }
    }
  }).detach();

  static RaceHelper hs; // static: a stuck helper may outlive this function
  std::thread helper([]() {
    tlsWaiter = 2;
    long long seen = -1;
    while (!hs.stop.load(std::memory_order_acquire)) {
      long long r = hs.round.load(std::memory_order_acquire);
      if (r == seen)
        continue;
      seen = r;
      while (hs.gateOpen->load(std::memory_order_acquire) < hs.id) {
      }
      for (volatile int k = 0; k < hs.spin; ++k) {
      }
      hs.value = hs.copy.get();
      hs.copy = Future<int>();
      hs.done.store(r, std::memory_order_release);
    }
  });
  tlsWaiter = 1;

  const int kRing = 8;
  int d[3] = {0, 0, 0}; // the owner's spin before get(), per schedulable kind
  long long nrounds = 0, gid = 0;
  bool bail = false;
  for (long long b = 0; b * batch < rounds && !bail; ++b) {
    curBatch.store(b);
    long long n = std::min(batch, rounds - b * batch);
    std::unique_ptr<std::atomic<int>[]> execs(new std::atomic<int>[n]);
    std::unique_ptr<std::atomic<int>[]> inl(new std::atomic<int>[n]);
    for (long long i = 0; i < n; ++i) {
      execs[i].store(0);
      inl[i].store(0);
    }
    std::atomic<long long> flive{0};
    std::atomic<long long> gateStarted{0}, gateOpen{0};
    hs.gateOpen = &gateOpen;
    long long diff = 0, nd = 0, inlnd = 0, ninl = 0, tsc = 0;
    {
      std::lock_guard<std::mutex> lk(g_reg.mu);
      g_reg.clear();
    }
    auto* pool = new dispenso::ThreadPool(1);
    auto* ts5 = new dispenso::TaskSet(*pool);
    auto* ts6 = new dispenso::ConcurrentTaskSet(*pool);
    auto scheduleGate = [&](long long id) {
      pool->schedule(
          [&gateStarted, &gateOpen, id]() {
            gateStarted.store(id, std::memory_order_release);
            while (gateOpen.load(std::memory_order_acquire) < id) {
            }
          },
          dispenso::ForceQueuingTag());
    };
    {
      Future<int> ring[kRing];
      int expect[kRing] = {0};
      scheduleGate(1);
      for (long long i = 0; i < n; ++i) {
        const long long id = i + 1;
        while (gateStarted.load(std::memory_order_acquire) < id) {
        }
        // a getter that comes long after the future was resolved (and its queued task consumed) sees the same value
        const int slot = (int)(i % kRing);
        if (ring[slot].valid() && ring[slot].get() != expect[slot])
          ++diff;
        uint64_t x = ctl::splitmix(rng);
        int kind = (x & 3) == 3 ? 2 : (x & 3) == 2 ? 1 : 0; // 0 ThreadPool, 1 TaskSet, 2 ConcurrentTaskSet
        int defer = (int)((x >> 2) & 1);
        bool viaAsync = ((x >> 3) & 3) == 0;
        bool useWait = ((x >> 5) & 3) == 0; // wait() then get(), instead of get()
        bool two = ((x >> 7) & 3) == 0; // a second getter on another thread
        int dither = (int)((x >> 9) % 33) - 16;
        int dither2 = (int)((x >> 16) % 65) - 32;
        std::atomic<int>* cnt = &execs[i];
        std::atomic<int>* in = &inl[i];
        const int val = (int)((++gid & 0xfffff) * 16); // the functor's value: val + number of earlier executions
        RaceProbe probe(&flive);
        auto fn = [cnt, in, val, probe]() -> int {
          if (tlsWaiter)
            in->store(tlsWaiter, std::memory_order_relaxed);
          return val + cnt->fetch_add(1, std::memory_order_acq_rel);
        };
        std::launch policy =
            static_cast<std::launch>(static_cast<int>(std::launch::async) | static_cast<int>(deferP(defer)));
        Future<int> fut;
        if (viaAsync) {
          if (kind == 0)
            fut = dispenso::async(*pool, policy, std::move(fn));
          else if (kind == 1)
            fut = dispenso::async(*ts5, policy, std::move(fn));
          else
            fut = dispenso::async(*ts6, policy, std::move(fn));
        } else {
          if (kind == 0)
            fut = Future<int>(std::move(fn), *pool, std::launch::async, deferP(defer));
          else if (kind == 1)
            fut = Future<int>(std::move(fn), *ts5, std::launch::async, deferP(defer));
          else
            fut = Future<int>(std::move(fn), *ts6, std::launch::async, deferP(defer));
        }
        scheduleGate(id + 1); // the worker never goes idle
        int spin = std::max(0, d[kind] + dither);
        if (two) {
          hs.copy = fut;
          hs.id = id;
          hs.spin = std::max(0, d[kind] + dither2);
          hs.round.store(gid, std::memory_order_release);
        }
        gateOpen.store(id, std::memory_order_release); // the worker leaves the gate and pops the future's task
        for (volatile int k = 0; k < spin; ++k) {
        }
        if (useWait)
          fut.wait();
        int v = fut.get();
        if (v != val)
          ++diff;
        if (two) {
          while (hs.done.load(std::memory_order_acquire) != gid) {
          }
          if (hs.value != val)
            ++diff;
        }
        expect[slot] = val;
        ring[slot] = std::move(fut);
        int who = in->load(std::memory_order_relaxed);
        if (who == 1) {
          d[kind] += 2;
        } else {
          d[kind] = d[kind] >= 2 ? d[kind] - 2 : 0;
        }
        if (who)
          ++ninl;
        if (!defer) {
          ++nd;
          if (who)
            ++inlnd;
        }
        g_raceBeat.fetch_add(1, std::memory_order_relaxed);
      }
      for (int s = 0; s < kRing; ++s)
        if (ring[s].valid() && ring[s].get() != expect[s])
          ++diff;
      gateOpen.store(n + 2, std::memory_order_release);
    } // every handle is gone
    // every future bound to a task set has run: the set's outstanding-task counter returns to zero (wait() returns)
    long long t0 = nowNs();
    while (true) {
      tsc = (long long)ts5->outstandingTaskCount_.load() + (long long)ts6->outstandingTaskCount_.load();
      long long each = std::min<long long>(ts5->outstandingTaskCount_.load(), ts6->outstandingTaskCount_.load());
      if ((tsc <= 0 && each <= 0) || nowNs() - t0 > 10LL * 1000 * 1000 * 1000)
        break;
    }
    long long c5 = ts5->outstandingTaskCount_.load(), c6 = ts6->outstandingTaskCount_.load();
    tsc = c5 != 0 ? c5 : c6;
    long long multi = 0, never = 0, live = 0;
    if (c5 == 0 && c6 == 0) {
      ts5->wait();
      ts6->wait();
      delete ts5;
      delete ts6;
      delete pool; // every queued task has been invoked
      std::lock_guard<std::mutex> lk(g_reg.mu);
      live = (long long)g_reg.live.size();
    } else {
      bail = true; // TaskSet::wait() / ~TaskSet would never return: the record says so, the process ends
    }
    for (long long i = 0; i < n; ++i) {
      int e = execs[i].load();
      if (e > 1)
        ++multi;
      else if (e < 1)
        ++never;
    }
    nrounds += n;
    {
      std::lock_guard<std::mutex> lk(g_raceOut);
      fprintf(f, "{\"e\":\"Race\",\"batch\":%lld,\"rounds\":%lld,\"nd\":%lld,\"multi\":%lld,\"never\":%lld,\"diff\":%lld,"
                 "\"flive\":%lld,\"live\":%lld,\"tsc\":%lld,\"inl\":%lld,\"inlnd\":%lld,\"stuck\":0}\n",
              b, n, nd, multi, never, diff, bail ? 0 : flive.load(), live, tsc, ninl, inlnd);
      fflush(f);
    }
    batchesDone.fetch_add(1);
    if (bail) {
      printf("DRIVER executions=%lld steps=%lld completed=%lld deadlocks=0 diverged=0 stuck=0\n", batchesDone.load(), nrounds,
             batchesDone.load());
      fflush(stdout);
      _exit(0);
    }
  }
  hs.stop.store(1, std::memory_order_release);
  helper.join();
  tlsWaiter = 1;
  if (!bail && a.num("timed", 0) > 0) // second class of rounds: timed waits racing the pool thread's claim
    runTimedRace(f, a.num("timed", 0), a.num("tbatch", 500), rng, curBatch, batchesDone, nrounds, batchesDone.load());
  finished.store(1);
  {
    std::lock_guard<std::mutex> lk(g_raceOut);
    fclose(f);
  }
  printf("DRIVER executions=%lld steps=%lld completed=%lld deadlocks=0 diverged=0 stuck=0\n", batchesDone.load(), nrounds,
         batchesDone.load());
  fflush(stdout);
  return 0;
}

int main(int argc, char** argv) {
  drv::Args a(argc, argv);
  if (a.has("race")) {
    int rc = runRace(a);
    fflush(stdout);
    _exit(rc);
  }
  if (a.has("linkpool")) {
    int rc = runLinkPool(a);
    fflush(stdout);
    _exit(rc);
  }
  if (a.has("free")) {
    int rc = runFree(a);
    fflush(stdout);
    _exit(rc);
  }
  ctl::Trace tr(a.str("out", "trace.ndjson"));
  drv::Totals tot;
  std::vector<std::pair<Program, std::string>> progs;
  std::vector<bool> hasPool; // spurious futex returns are only injected into programs without the real pool
  std::vector<bool> spins; // programs with TaskSet::wait spin loops: no PCT priorities (a spinning waiter would starve the pool)
  {
    FILE* f = fopen(a.str("progs").c_str(), "r");
    if (!f) {
      fprintf(stderr, "ERROR drv_future: cannot open --progs %s\n", a.str("progs").c_str());
      _exit(3);
    }
    char* line = nullptr;
    size_t cap = 0;
    while (getline(&line, &cap, f) > 0) {
      std::string l(line);
      while (!l.empty() && (l.back() == '\n' || l.back() == '\r'))
        l.pop_back();
      if (l.empty())
        continue;
      size_t tab = l.find('\t');
      progs.emplace_back(parseProg(l.substr(0, tab)), tab == std::string::npos ? std::string("\"prog\":0") : l.substr(tab + 1));
      spins.push_back(l.substr(0, tab).find("tsnew") != std::string::npos);
      hasPool.push_back(l.substr(0, tab).find("new.") != std::string::npos);
    }
    free(line);
    fclose(f);
  }
  bool stop = false;
  if (a.has("schedules")) {
    auto scheds = ctl::readSchedules(a.str("schedules"));
    for (size_t i = 0; i < scheds.size() && !stop; ++i) {
      ctl::RunOptions o;
      o.mode = ctl::RunOptions::Replay;
      o.schedule = &scheds[i];
      o.maxSteps = (size_t)a.num("maxsteps", 20000);
      auto r = execute(progs[0].first, progs[0].second, o, tr, "sched" + std::to_string(i));
      tot.add(r);
      if (!r.completed)
        stop = true;
    }
  } else {
    long long n = a.num("random", 10);
    uint64_t seed = (uint64_t)a.num("seed", 1);
    for (size_t pi = 0; pi < progs.size() && !stop; ++pi) {
      for (long long i = 0; i < n && !stop; ++i) {
        ctl::RunOptions o;
        o.mode = ctl::RunOptions::Random;
        o.seed = seed * 1000003ULL + (uint64_t)pi * 7919ULL + (uint64_t)i;
        o.pctDepth = (i % 3 == 2 && !spins[pi]) ? (int)a.num("pct", 0) : 0;
        o.allowTimeout = !a.has("notimeout");
        o.allowSpurious = a.has("spurious") && !hasPool[pi];
        o.maxSteps = (size_t)a.num("maxsteps", 30000);
        auto r = execute(progs[pi].first, progs[pi].second, o, tr, "p" + std::to_string(pi) + "s" + std::to_string(o.seed));
        tot.add(r);
        if (!r.completed)
          stop = true; // parked threads cannot be unwound: nothing more can run in this process
      }
    }
  }
  tr.flush();
  tot.print();
  fflush(stdout);
#if defined(__SANITIZE_ADDRESS__)
  if (!stop)
    __lsan_do_leak_check();
#endif
  _exit(0);
}
