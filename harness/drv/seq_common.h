// Shared by the drivers of the SEQUENTIAL components (drv_smallvec.cpp: C38, drv_opresult.cpp: C40):
// lifetime-tracked element types over an allocation-free address registry, and the call format
// produced by bin/walker.py from the TLC state graph ({"a":Action,"t":"<<\"a\", 3>>"}).
#pragma once
#include <cstddef>
#include <cstdint>
#include <cstdio>
#include <cstdlib>
#include <cstring>
#include <initializer_list>
#include <string>
#include <vector>

#include <unistd.h>

// ------------------------------------------------------------------- lifetime-tracked elements
// Allocation-free registry of live element objects, keyed by address.
namespace {
struct Reg {
  struct E {
    const void* p;
    int id;
  };
  enum { kMax = 4096 };
  E e[kMax];
  int n = 0;
  long long errs = 0, ctors = 0, dtors = 0;
  int find(const void* p) const {
    for (int i = 0; i < n; ++i)
      if (e[i].p == p)
        return i;
    return -1;
  }
  void add(const void* p, int id) {
    ++ctors;
    if (find(p) >= 0) {
      ++errs; // constructed over a live object
      return;
    }
    if (n == kMax) {
      ++errs;
      return;
    }
    e[n].p = p;
    e[n].id = id;
    ++n;
  }
  void del(const void* p) {
    ++dtors;
    int i = find(p);
    if (i < 0)
      ++errs; // destroyed twice / never constructed
    else
      e[i] = e[--n];
  }
  void set(const void* p, int id) {
    int i = find(p);
    if (i < 0)
      ++errs; // assignment to / move from a dead object
    else
      e[i].id = id;
  }
  void use(const void* p) {
    if (find(p) < 0)
      ++errs; // read of a dead object
  }
  long long liveIn(const void* lo, const void* hi) const {
    long long k = 0;
    for (int i = 0; i < n; ++i)
      if (e[i].p >= lo && e[i].p < hi)
        ++k;
    return k;
  }
  void reset() {
    n = 0;
    errs = ctors = dtors = 0;
  }
} g_reg;

const int kDefaultId = 0; // DefaultVal of the specification
const int kMovedId = -1;

template <int A>
struct Elem {
  alignas(A) int id;
  Elem() noexcept : id(kDefaultId) {
    g_reg.add(this, id);
  }
  explicit Elem(int v) noexcept : id(v) {
    g_reg.add(this, id);
  }
  Elem(const Elem& o) noexcept : id(o.id) {
    g_reg.use(&o);
    g_reg.add(this, id);
  }
  Elem(Elem&& o) noexcept : id(o.id) {
    g_reg.use(&o);
    g_reg.add(this, id);
    o.id = kMovedId;
    g_reg.set(&o, kMovedId);
  }
  Elem& operator=(const Elem& o) noexcept {
    g_reg.use(&o);
    id = o.id;
    g_reg.set(this, id);
    return *this;
  }
  Elem& operator=(Elem&& o) noexcept {
    g_reg.use(&o);
    if (this != &o) {
      id = o.id;
      g_reg.set(this, id);
      o.id = kMovedId;
      g_reg.set(&o, kMovedId);
    }
    return *this;
  }
  ~Elem() {
    g_reg.del(this);
  }
};
using TInt = Elem<4>;
using TBig = Elem<64>;
static_assert(alignof(TInt) == 4 && sizeof(TInt) == 4, "tracked int");
static_assert(alignof(TBig) == 64 && sizeof(TBig) == 64, "over-aligned tracked struct");
} // namespace

// ------------------------------------------------------------------------------------- calls
struct Arg {
  bool isStr = false;
  std::string s;
  long long n = 0;
};
struct Call {
  std::string act;
  std::vector<Arg> c;
  long long num(size_t i) const {
    return i < c.size() ? c[i].n : 0;
  }
};
inline Arg S(const std::string& s) {
  Arg a;
  a.isStr = true;
  a.s = s;
  return a;
}
inline Arg I(long long n) {
  Arg a;
  a.n = n;
  return a;
}
inline Call mk(const std::string& act, std::initializer_list<Arg> args) {
  Call c;
  c.act = act;
  c.c.assign(args.begin(), args.end());
  return c;
}

// "<<\"a\", 3>>" -> [a, 3]
inline std::vector<Arg> parseTuple(const std::string& t) {
  std::vector<Arg> out;
  size_t i = 0;
  while (i < t.size()) {
    char ch = t[i];
    if (ch == '"') {
      size_t j = t.find('"', i + 1);
      out.push_back(S(t.substr(i + 1, j - i - 1)));
      i = j + 1;
    } else if (ch == '-' || isdigit((unsigned char)ch)) {
      size_t j = i + 1;
      while (j < t.size() && isdigit((unsigned char)t[j]))
        ++j;
      out.push_back(I(atoll(t.substr(i, j - i).c_str())));
      i = j;
    } else
      ++i;
  }
  return out;
}

// one schedule per line: [{"a":"Act","t":"<<...>>"},...]
inline std::vector<std::vector<Call>> readSchedules(const std::string& path) {
  std::vector<std::vector<Call>> out;
  FILE* f = fopen(path.c_str(), "r");
  if (!f) {
    fprintf(stderr, "ERROR seq driver: cannot open %s\n", path.c_str());
    _exit(3);
  }
  std::string line;
  int ch;
  auto flushLine = [&]() {
    if (line.empty())
      return;
    std::vector<Call> sch;
    size_t i = 0;
    auto str = [&](std::string& r) { // at opening quote
      r.clear();
      ++i;
      while (i < line.size() && line[i] != '"') {
        if (line[i] == '\\' && i + 1 < line.size())
          ++i;
        r += line[i++];
      }
      ++i;
    };
    while (i < line.size()) {
      if (line[i] == '{') {
        Call c;
        ++i;
        while (i < line.size() && line[i] != '}') {
          if (line[i] == '"') {
            std::string k, v;
            str(k);
            while (i < line.size() && line[i] != '"')
              ++i;
            str(v);
            if (k == "a")
              c.act = v;
            else if (k == "t")
              c.c = parseTuple(v);
          } else
            ++i;
        }
        sch.push_back(c);
      } else
        ++i;
    }
    out.push_back(sch);
    line.clear();
  };
  while ((ch = fgetc(f)) != EOF) {
    if (ch == '\n')
      flushLine();
    else
      line += (char)ch;
  }
  flushLine();
  fclose(f);
  return out;
}

