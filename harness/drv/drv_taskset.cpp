// Driver for dispenso::TaskSet / ConcurrentTaskSet (spec/taskset/TaskSet.tla) running on the REAL
// ThreadPool under the controlled scheduler.
//   --out FILE --scen "S" | --scenfile FILE [--first I]   scenarios (one per line in the file)
//   --random N --seed S [--pct D] [--maxsteps M] [--notimeout] [--unfixed]
// scenario:  mult=1;sets=ts.1.0,ctsL.4.0,ctsH.1.1;throws=2,5;d1=newpool2,new1,sched1.3,...;d2=...;b3=new2,...
//   n=K              (K executions of this scenario instead of --random)
//   hold=TpPushRing  (directed: d1 parks at its first point of that site until d2's first resize() has returned)
//   sets: kind.stealingLoadMultiplier.parentCascade   (ts | ctsL = kLightweight | ctsH = kHeavy)
//   dN = program of driver thread dN, bK = program run inside the body of task K
//   ops: newpoolN delpool resizeN newS schedS.K schedskipS.K schedfqS.K bulkS.K.N bulkfqS.K.N waitS trywaitS.N
//        cancelS delS sync awaitS
#include <dispenso/task_set.h>
#include <dispenso/thread_pool.h>

#include <unistd.h>

#include <atomic>
#include <fstream>
#include <map>
#include <set>

#include "../ctl/ctl.h"
#include "../ctl/drv_common.h"
#include "pool_proj.h"

using ctl::Json;

struct Op {
  std::string op;
  int s = 0, k = 0, n = 0;
};
struct SetCfg {
  std::string kind; // ts | cts
  int heavy = 0, mult = 4, casc = 0;
};
struct Scenario {
  int mult = 32;
  std::vector<SetCfg> sets;
  std::vector<std::pair<std::string, std::vector<Op>>> drivers;
  std::map<int, std::vector<Op>> bodies;
  std::set<int> throws;
  int nk = 0, maxw = 0;
  int runs = 0; // n=K: number of executions of this scenario (0 = --random)
  std::string hold; // directed scenarios: d1 is held at its first point of this site until d2's first resize returned
  std::string text;
};

static Op parseOp(const std::string& o) {
  Op d;
  size_t i = 0;
  while (i < o.size() && !isdigit((unsigned char)o[i]))
    ++i;
  d.op = o.substr(0, i);
  auto nums = drv::split(o.substr(i), '.');
  std::vector<int> v;
  for (auto& x : nums)
    if (!x.empty())
      v.push_back(atoi(x.c_str()));
  auto at = [&](size_t j) { return j < v.size() ? v[j] : 0; };
  if (d.op == "newpool" || d.op == "resize") {
    d.n = at(0);
  } else if (d.op == "sched" || d.op == "schedskip" || d.op == "schedfq") {
    d.s = at(0);
    d.k = at(1);
  } else if (d.op == "bulk" || d.op == "bulkfq") {
    d.s = at(0);
    d.k = at(1);
    d.n = at(2);
  } else if (d.op == "trywait") {
    d.s = at(0);
    d.n = at(1);
  } else {
    d.s = at(0);
  }
  return d;
}

static std::vector<Op> parseOps(const std::string& s, Scenario& sc) {
  std::vector<Op> ops;
  for (auto& o : drv::split(s, ',')) {
    if (o.empty())
      continue;
    Op d = parseOp(o);
    if (d.op == "sched" || d.op == "schedskip" || d.op == "schedfq")
      sc.nk = std::max(sc.nk, d.k);
    if (d.op == "bulk" || d.op == "bulkfq")
      sc.nk = std::max(sc.nk, d.k + d.n - 1);
    if (d.op == "newpool" || d.op == "resize")
      sc.maxw = std::max(sc.maxw, d.n);
    ops.push_back(d);
  }
  return ops;
}

static Scenario parseScenario(const std::string& text) {
  Scenario sc;
  sc.text = text;
  for (auto& part : drv::split(text, ';')) {
    auto eq = part.find('=');
    if (eq == std::string::npos)
      continue;
    std::string key = part.substr(0, eq), val = part.substr(eq + 1);
    if (key == "hold") {
      sc.hold = val;
    } else if (key == "n") {
      sc.runs = atoi(val.c_str());
    } else if (key == "mult") {
      sc.mult = atoi(val.c_str());
    } else if (key == "sets") {
      for (auto& s : drv::split(val, ',')) {
        auto f = drv::split(s, '.');
        SetCfg c;
        c.kind = f[0] == "ts" ? "ts" : "cts";
        c.heavy = f[0] == "ctsH" ? 1 : 0;
        c.mult = f.size() > 1 ? atoi(f[1].c_str()) : 4;
        c.casc = f.size() > 2 ? atoi(f[2].c_str()) : 0;
        sc.sets.push_back(c);
      }
    } else if (key == "throws") {
      for (auto& s : drv::split(val, ','))
        if (!s.empty())
          sc.throws.insert(atoi(s.c_str()));
    } else if (key[0] == 'd') {
      sc.drivers.emplace_back(key, parseOps(val, sc));
    } else if (key[0] == 'b') {
      sc.bodies[atoi(key.c_str() + 1)] = parseOps(val, sc);
    }
  }
  for (auto& b : sc.bodies)
    sc.nk = std::max(sc.nk, b.first);
  return sc;
}

static void opsJson(Json& j, const std::vector<Op>& ops) {
  j.beginArr();
  for (auto& o : ops) {
    j.beginObj();
    j.kv("op", o.op);
    j.kv("s", o.s);
    j.kv("k", o.k);
    j.kv("n", o.n);
    j.endObj();
  }
  j.endArr();
}

static std::string resetLine(const Scenario& sc, const std::string& tag, bool fixed) {
  Json j;
  j.beginObj();
  j.kv("e", std::string("Reset"));
  j.kv("tag", tag);
  j.kv("scen", sc.text);
  j.key("cfg").beginObj();
  j.kv("nt", 0);
  j.kv("mult", sc.mult);
  j.key("sets").beginArr();
  for (auto& s : sc.sets) {
    j.beginObj();
    j.kv("kind", s.kind);
    j.kv("heavy", s.heavy);
    j.kv("mult", s.mult);
    j.kv("casc", s.casc);
    j.endObj();
  }
  j.endArr();
  j.key("prog").beginObj();
  for (auto& d : sc.drivers) {
    j.key(d.first.c_str());
    opsJson(j, d.second);
  }
  j.endObj();
  j.key("body").beginArr();
  for (int k = 1; k <= sc.nk; ++k) {
    auto it = sc.bodies.find(k);
    opsJson(j, it == sc.bodies.end() ? std::vector<Op>() : it->second);
  }
  j.endArr();
  j.key("throws").beginArr();
  for (int k = 1; k <= sc.nk; ++k)
    j.num(sc.throws.count(k) ? 1 : 0);
  j.endArr();
  j.kv("fixed", fixed ? 1 : 0);
  j.kv("trace", 1);
  j.key("workers").beginArr();
  for (int i = 0; i < sc.maxw; ++i)
    j.str("w" + std::to_string(i));
  j.endArr();
  j.endObj();
  j.endObj();
  return j.s;
}

// ------------------------------------------------------------------------------------ the world
struct TaskExc {
  int id;
};

struct SetBox {
  dispenso::TaskSet* ts = nullptr;
  dispenso::ConcurrentTaskSet* cts = nullptr;
  std::atomic<int> built{0};
  dispenso::TaskSetBase* base() {
    return ts ? static_cast<dispenso::TaskSetBase*>(ts) : static_cast<dispenso::TaskSetBase*>(cts);
  }
};

struct World {
  const Scenario* sc = nullptr;
  dispenso::ThreadPool* pool = nullptr;
  std::vector<SetBox> sets;
  std::atomic<int> done{0};
  std::atomic<int> resizes{0}; // resize() calls that have returned
  std::atomic<int> held{0};
};

// Site filter of the run.  Directed scenarios (hold=<site>): the first time driver thread d1 reaches that site it
// first parks at the gate "GateHold" until another thread's resize() has returned - a deterministic way to put a whole
// resize between two steps of a producer (the gate is a driver-level event: a stuttering step for the specification).
static World* g_world = nullptr;
static bool siteFilter(const char* s) {
  World* w = g_world;
  if (w && !w->sc->hold.empty() && !w->held.load() && w->sc->hold == s && ctl::selfName() == "d1") {
    w->held.store(1);
    ctl::gate("GateHold", [w]() { return w->resizes.load() >= 1; });
  }
  return poolproj::siteFilter(s);
}

static void doOp(World* w, const Op& o);

static void runBody(World* w, int k) {
  ctl::note("begin", k);
  auto it = w->sc->bodies.find(k);
  if (it != w->sc->bodies.end() && !it->second.empty()) {
    for (auto& o : it->second) {
      ctl::point("DrOp");
      doOp(w, o);
    }
    ctl::point("DrBodyEnd");
  }
  if (w->sc->throws.count(k)) {
    ctl::note("throw", k);
    throw TaskExc{k};
  }
  ctl::note("end", k);
}

// The functor handed to the task sets.  The live instance notes ("drop", k) when it is destroyed: that
// identifies a package that was invoked but skipped its body because the set was cancelled.
struct Fn {
  World* w;
  int k;
  bool live;
  Fn(World* w_, int k_) : w(w_), k(k_), live(true) {}
  Fn(Fn&& o) noexcept : w(o.w), k(o.k), live(o.live) {
    o.live = false;
  }
  Fn(const Fn&) = delete;
  Fn& operator=(const Fn&) = delete;
  ~Fn() {
    if (live)
      ctl::note("drop", k);
  }
  void operator()() {
    runBody(w, k);
  }
};

static void doOp(World* w, const Op& o) {
  auto& sc = *w->sc;
  try {
    long long r = 0;
    if (o.op == "newpool") {
      w->pool = new dispenso::ThreadPool((size_t)o.n, (size_t)sc.mult);
    } else if (o.op == "delpool") {
      auto* p = w->pool;
      delete p;
      w->pool = nullptr;
    } else if (o.op == "resize") {
      w->pool->resize(o.n);
      w->resizes.fetch_add(1);
    } else if (o.op == "new") {
      auto& b = w->sets[(size_t)o.s];
      auto& c = sc.sets[(size_t)o.s - 1];
      auto casc = c.casc ? dispenso::ParentCascadeCancel::kOn : dispenso::ParentCascadeCancel::kOff;
      if (c.kind == "ts")
        b.ts = new dispenso::TaskSet(*w->pool, casc, c.mult);
      else
        b.cts = new dispenso::ConcurrentTaskSet(
            *w->pool, casc, c.mult, c.heavy ? dispenso::TaskCost::kHeavy : dispenso::TaskCost::kLightweight);
      b.built.store(1);
    } else if (o.op == "del") {
      auto& b = w->sets[(size_t)o.s];
      if (b.ts)
        delete b.ts;
      else
        delete b.cts;
      b.built.store(0);
      b.ts = nullptr;
      b.cts = nullptr;
    } else if (o.op == "sched" || o.op == "schedskip") {
      auto& b = w->sets[(size_t)o.s];
      if (b.ts)
        b.ts->schedule(Fn(w, o.k));
      else
        b.cts->schedule(Fn(w, o.k), o.op == "schedskip");
    } else if (o.op == "schedfq") {
      auto& b = w->sets[(size_t)o.s];
      if (b.ts)
        b.ts->schedule(Fn(w, o.k), dispenso::ForceQueuingTag());
      else
        b.cts->schedule(Fn(w, o.k), dispenso::ForceQueuingTag());
    } else if (o.op == "bulk" || o.op == "bulkfq") {
      auto& b = w->sets[(size_t)o.s];
      int k0 = o.k;
      auto gen = [w, k0](size_t i) { return Fn(w, k0 + (int)i); };
      if (o.op == "bulk") {
        if (b.ts)
          b.ts->scheduleBulk((size_t)o.n, gen);
        else
          b.cts->scheduleBulk((size_t)o.n, gen);
      } else {
        if (b.ts)
          b.ts->scheduleBulk((size_t)o.n, gen, dispenso::ForceQueuingTag());
        else
          b.cts->scheduleBulk((size_t)o.n, gen, dispenso::ForceQueuingTag());
      }
    } else if (o.op == "wait") {
      auto& b = w->sets[(size_t)o.s];
      r = (b.ts ? b.ts->wait() : b.cts->wait()) ? 1 : 0;
    } else if (o.op == "trywait") {
      auto& b = w->sets[(size_t)o.s];
      r = (b.ts ? b.ts->tryWait((size_t)o.n) : b.cts->tryWait((size_t)o.n)) ? 1 : 0;
    } else if (o.op == "cancel") {
      auto& b = w->sets[(size_t)o.s];
      if (b.ts)
        b.ts->cancel();
      else
        b.cts->cancel();
    } else if (o.op == "sync") {
      int others = (int)sc.drivers.size() - 1;
      ctl::gate("GateSync", [w, others]() { return w->done.load() == others; });
    } else if (o.op == "await") {
      int s = o.s;
      ctl::gate("GateAwait", [w, s]() { return w->sets[(size_t)s].built.load() == 1; });
    } else {
      fprintf(stderr, "ERROR drv_taskset: unknown op %s\n", o.op.c_str());
      _exit(3);
    }
    ctl::note("ret", r);
  } catch (TaskExc& e) {
    ctl::note("exc", e.id);
  }
}

static ctl::RunResult execute(const Scenario& sc, ctl::RunOptions opts, ctl::Trace& tr, const std::string& tag,
                              bool fixed) {
  World* w = new World();
  w->sc = &sc;
  w->sets = std::vector<SetBox>(sc.sets.size() + 1);
  tr.line(resetLine(sc, tag, fixed));
  ctl::Controller c(tr);
  g_world = w;
  ctl::setSiteFilter(siteFilter);
  c.setProjection([w](Json& j) {
    if (w->pool) {
      auto& p = *w->pool;
      j.kv("alive", 1);
      j.kv("nt", (long long)p.numThreads_.load());
      j.kv("nr", (long long)p.numRings_.load());
      j.kv("wr", (long long)p.workRemaining_.load());
      j.kv("lf", (long long)p.poolLoadFactor_.load());
      long long q = (long long)p.work_.size_approx();
      for (size_t i = 0; i < p.rings_.size(); ++i)
        q += (long long)p.rings_[i].size();
      for (size_t i = 0; i < p.stealRings_.size(); ++i)
        q += (long long)p.stealRings_[i].size();
      j.kv("q", q);
    } else {
      j.kv("alive", 0);
    }
    j.key("sets").beginArr();
    for (size_t s = 1; s < w->sets.size(); ++s) {
      auto& b = w->sets[s];
      j.beginArr();
      if (b.built.load()) {
        auto* base = b.base();
        j.num(1);
        j.num((long long)base->outstandingTaskCount_.load());
        j.num(base->canceled_.load() ? 1 : 0);
        j.num((long long)base->guardException_.load());
      } else {
        j.num(0).num(0).num(0).num(0);
      }
      j.endArr();
    }
    j.endArr();
  });
  for (auto& th : sc.drivers) {
    const std::vector<Op>* ops = &th.second;
    c.addThread(th.first, [w, ops]() {
      for (auto& o : *ops) {
        ctl::point("DrOp"); // every driver op starts with its own step
        doOp(w, o);
      }
      ctl::point("DrEnd");
      w->done.fetch_add(1);
    });
  }
  ctl::RunResult res = c.run(opts);
  if (res.completed) {
    Json j;
    j.beginObj();
    j.kv("e", std::string("End"));
    j.endObj();
    tr.line(j.s);
    g_world = nullptr;
    delete w->pool;
    delete w;
  }
  return res;
}

int main(int argc, char** argv) {
  drv::Args a(argc, argv);
  ctl::Trace tr(a.str("out", "trace.ndjson"));
  drv::Totals tot;
  std::vector<Scenario> scens;
  if (a.has("scenfile")) {
    std::ifstream in(a.str("scenfile"));
    std::string line;
    while (std::getline(in, line))
      if (!line.empty())
        scens.push_back(parseScenario(line));
  } else {
    scens.push_back(parseScenario(a.str("scen", "mult=1;sets=ts.1.0;d1=newpool1,new1,sched1.1,wait1,del1,delpool")));
  }
  long long n = a.num("random", 5);
  uint64_t seed = (uint64_t)a.num("seed", 1);
  bool fixed = !a.has("unfixed");
  size_t first = (size_t)a.num("first", 0);
  size_t next = scens.size();
  long long incomplete = 0;
  for (size_t si = first; si < scens.size(); ++si) {
    bool stop = false;
    long long cnt = scens[si].runs > 0 ? scens[si].runs : n;
    for (long long i = 0; i < cnt; ++i) {
      ctl::RunOptions o;
      o.mode = ctl::RunOptions::Random;
      o.seed = seed * 1000003ULL + (uint64_t)si * 7919ULL + (uint64_t)i;
      int pct = (int)a.num("pct", -1);
      o.pctDepth = pct >= 0 ? pct : ((i % 3 == 2) ? 3 : 0);
      o.allowTimeout = !a.has("notimeout");
      o.maxSteps = (size_t)a.num("maxsteps", 30000);
      auto r = execute(scens[si], o, tr, "s" + std::to_string(si) + "x" + std::to_string(o.seed), fixed);
      tot.add(r);
      if (!r.completed) {
        // parked threads cannot be unwound: this process ends here, the caller resumes with --first
        stop = true;
        ++incomplete;
        printf("INCOMPLETE scen=%zu seed=%llu deadlock=%d steps=%zu detail=%s\n", si, (unsigned long long)o.seed,
               r.deadlock ? 1 : 0, r.steps, r.detail.c_str());
        break;
      }
    }
    if (stop) {
      next = si + 1;
      break;
    }
  }
  tr.flush();
  printf("NEXT %zu\n", next);
  tot.print();
  fflush(stdout);
  _exit(0);
}
