// Driver for dispenso::SPSCRingBuffer (spec/spsc/Spsc.tla).
//   --out FILE            trace (ndjson)
//   --ring c1p|c1x|c2x|c2p|c3p|c4x|mix   template instantiation: requested Capacity 1..4,
//                         p = RoundUpToPowerOfTwo, x = exact.  kBufferSize: 2,2,3,4,4,5.
//                         mix (random mode only) draws one per execution.
//   --prog "p:push1,batch2.3,pushc4;c:pop,popbatch2,popr,popinto;o:size,empty,full"
//   --schedules FILE      replay each schedule of FILE (one JSON array per line)
//   --random N --seed S [--pct D]   N random controlled executions
//   --randprog            with --random: also draw a random (contract-respecting) program
#include <dispenso/spsc_ring_buffer.h>

#include <unistd.h>

#include "../ctl/ctl.h"
#include "../ctl/drv_common.h"
#include "../ctl/tracked.h"

using ctl::Json;
using ctl::Tracked;

struct OpDesc {
  std::string op;
  int v = 0;
  std::vector<int> vs;
};
using Program = std::vector<std::pair<std::string, std::vector<OpDesc>>>;

static Program parseProg(const std::string& s) {
  Program p;
  for (auto& th : drv::split(s, ';')) {
    if (th.empty())
      continue;
    auto nm = drv::split(th, ':');
    std::vector<OpDesc> ops;
    for (auto& o : drv::split(nm.size() > 1 ? nm[1] : "", ',')) {
      if (o.empty())
        continue;
      OpDesc d;
      size_t i = 0;
      while (i < o.size() && !isdigit((unsigned char)o[i]))
        ++i;
      d.op = o.substr(0, i);
      if (d.op == "batch") {
        if (i < o.size())
          for (auto& x : drv::split(o.substr(i), '.'))
            d.vs.push_back(atoi(x.c_str()));
      } else if (i < o.size())
        d.v = atoi(o.c_str() + i);
      ops.push_back(d);
    }
    p.emplace_back(nm[0], ops);
  }
  return p;
}

static std::string
resetLine(const Program& prog, long long n, long long cap, const std::string& tag) {
  Json j;
  j.beginObj();
  j.kv("e", std::string("Reset"));
  j.kv("n", n);
  j.kv("cap", cap);
  j.kv("tag", tag);
  j.key("prog").beginObj();
  for (auto& th : prog) {
    j.key(th.first.c_str()).beginArr();
    for (auto& o : th.second) {
      j.beginObj();
      j.kv("op", o.op);
      j.kv("v", o.v);
      j.arr("vs", o.vs.begin(), o.vs.end());
      j.endObj();
    }
    j.endArr();
  }
  j.endObj();
  j.endObj();
  return j.s;
}

// Random program inside the documented contract (R1): at most one thread issues producer
// operations, at most one thread issues consumer operations; observers from any thread.
static Program randomProgram(uint64_t& rng, int cap) {
  static const char* pushOps[] = {"push", "emplace", "pushc"};
  static const char* popOps[] = {"pop", "popr", "popinto"};
  static const char* obsOps[] = {"empty", "full", "size"};
  int next = 1;
  auto producerOp = [&]() {
    OpDesc d;
    if (ctl::splitmix(rng) % 10 < 6) {
      d.op = pushOps[ctl::splitmix(rng) % 3];
      d.v = next++;
    } else {
      d.op = "batch";
      int k = (int)(ctl::splitmix(rng) % (cap + 3)); // 0 .. cap+2 items
      for (int i = 0; i < k; ++i)
        d.vs.push_back(next++);
    }
    return d;
  };
  auto consumerOp = [&]() {
    OpDesc d;
    if (ctl::splitmix(rng) % 10 < 6)
      d.op = popOps[ctl::splitmix(rng) % 3];
    else {
      d.op = "popbatch";
      d.v = (int)(ctl::splitmix(rng) % (cap + 2)); // maxCount 0 .. cap+1
    }
    return d;
  };
  auto observerOp = [&]() {
    OpDesc d;
    d.op = obsOps[ctl::splitmix(rng) % 3];
    return d;
  };
  Program p;
  unsigned layout = (unsigned)(ctl::splitmix(rng) % 8);
  if (layout == 0) {
    // one thread is both the producer and the consumer; a second one only observes
    std::vector<OpDesc> ops;
    int nops = 2 + (int)(ctl::splitmix(rng) % 6);
    for (int k = 0; k < nops; ++k) {
      unsigned r = (unsigned)(ctl::splitmix(rng) % 10);
      ops.push_back(r < 5 ? producerOp() : r < 9 ? consumerOp() : observerOp());
    }
    p.emplace_back("pc", ops);
    std::vector<OpDesc> obs;
    int nobs = 1 + (int)(ctl::splitmix(rng) % 3);
    for (int k = 0; k < nobs; ++k)
      obs.push_back(observerOp());
    p.emplace_back("o", obs);
    return p;
  }
  std::vector<OpDesc> po, co, oo;
  int np = 1 + (int)(ctl::splitmix(rng) % 5);
  int nc = 1 + (int)(ctl::splitmix(rng) % 5);
  for (int k = 0; k < np; ++k)
    po.push_back(ctl::splitmix(rng) % 8 == 0 ? observerOp() : producerOp());
  for (int k = 0; k < nc; ++k)
    co.push_back(ctl::splitmix(rng) % 8 == 0 ? observerOp() : consumerOp());
  p.emplace_back("p", po);
  p.emplace_back("c", co);
  if (layout >= 5) {
    int no = 1 + (int)(ctl::splitmix(rng) % 3);
    for (int k = 0; k < no; ++k)
      oo.push_back(observerOp());
    p.emplace_back("o", oo);
  }
  return p;
}

// Executes one operation; every value returned to the caller is noted with ctl::ret in the order
// the specification lists it in hist (see header comment of Spsc.tla).
template <class Ring>
static void doOp(Ring& ring, const OpDesc& o) {
  if (o.op == "push") {
    Tracked x(o.v);
    ctl::ret(ring.try_push(std::move(x)) ? 1 : 0);
  } else if (o.op == "pushc") {
    Tracked x(o.v);
    ctl::ret(ring.try_push(x) ? 1 : 0);
  } else if (o.op == "emplace") {
    ctl::ret(ring.try_emplace(o.v) ? 1 : 0);
  } else if (o.op == "batch") {
    std::vector<Tracked> items;
    items.reserve(o.vs.size());
    for (int v : o.vs)
      items.emplace_back(v);
    ctl::ret((long long)ring.try_push_batch(items.begin(), items.end()));
  } else if (o.op == "pop") {
    Tracked item;
    bool ok = ring.try_pop(item);
    ctl::ret(ok ? item.id : 0);
  } else if (o.op == "popr") {
    auto r = ring.try_pop();
    ctl::ret(r ? r.value().id : 0);
  } else if (o.op == "popinto") {
    alignas(Tracked) char buf[sizeof(Tracked)];
    Tracked* p = reinterpret_cast<Tracked*>(buf);
    if (ring.try_pop_into(p)) {
      int id = p->id;
      p->~Tracked();
      ctl::ret(id);
    } else
      ctl::ret(0);
  } else if (o.op == "popbatch") {
    std::vector<Tracked> dest((size_t)o.v);
    size_t k = ring.try_pop_batch(dest.begin(), (size_t)o.v);
    ctl::ret((long long)k);
    for (size_t i = 0; i < k && i < dest.size(); ++i)
      ctl::ret(dest[i].id);
  } else if (o.op == "empty") {
    ctl::ret(ring.empty() ? 1 : 0);
  } else if (o.op == "full") {
    ctl::ret(ring.full() ? 1 : 0);
  } else if (o.op == "size") {
    ctl::ret((long long)ring.size());
  } else {
    fprintf(stderr, "ERROR drv_spsc: unknown op %s\n", o.op.c_str());
    _exit(3);
  }
}

template <class Ring>
static ctl::RunResult
execute(const Program& prog, const ctl::RunOptions& opts, ctl::Trace& tr, const std::string& tag) {
  ctl::Registry::get().reset();
  Ring* ring = new Ring();
  const long long n = (long long)(sizeof(ring->storage_) / sizeof(Tracked));
  tr.line(resetLine(prog, n, (long long)Ring::capacity(), tag));
  ctl::Controller c(tr);
  c.setProjection([ring, n](Json& j) {
    j.kv("head", (long long)ring->head_.load());
    j.kv("tail", (long long)ring->tail_.load());
    j.key("data").beginArr();
    for (long long i = 0; i < n; ++i) {
      const void* p = ring->elementAt((size_t)i);
      // 0: no live object; -1: a live but moved-from object
      bool live = ctl::Registry::get().isLive(p);
      int id = live ? ctl::Registry::get().at(p) : 0;
      if (live && id == 0)
        id = -1;
      j.num(id);
    }
    j.endArr();
    j.kv("errs", ctl::Registry::get().errorCount());
  });
  for (auto& th : prog) {
    const std::vector<OpDesc>* ops = &th.second;
    c.addThread(th.first, [ring, ops]() {
      for (auto& o : *ops)
        doOp(*ring, o);
    });
  }
  ctl::RunResult res = c.run(opts);
  if (res.completed) {
    delete ring;
    Json j;
    j.beginObj();
    j.kv("e", std::string("Destroy"));
    j.kv("live", ctl::Registry::get().liveCount());
    j.kv("errs", ctl::Registry::get().errorCount());
    j.endObj();
    tr.line(j.s);
  }
  return res;
}

using ExecFn = ctl::RunResult (*)(
    const Program&,
    const ctl::RunOptions&,
    ctl::Trace&,
    const std::string&);
struct RingKind {
  const char* name;
  int cap;
  ExecFn fn;
};
static const RingKind kRings[] = {
    {"c1p", 1, &execute<dispenso::SPSCRingBuffer<Tracked, 1, true>>},
    {"c1x", 1, &execute<dispenso::SPSCRingBuffer<Tracked, 1, false>>},
    {"c2x", 2, &execute<dispenso::SPSCRingBuffer<Tracked, 2, false>>},
    {"c2p", 3, &execute<dispenso::SPSCRingBuffer<Tracked, 2, true>>},
    {"c3p", 3, &execute<dispenso::SPSCRingBuffer<Tracked, 3, true>>},
    {"c4x", 4, &execute<dispenso::SPSCRingBuffer<Tracked, 4, false>>},
};
static const int kNumRings = (int)(sizeof(kRings) / sizeof(kRings[0]));

int main(int argc, char** argv) {
  drv::Args a(argc, argv);
  ctl::Trace tr(a.str("out", "trace.ndjson"));
  drv::Totals tot;
  std::string ringName = a.str("ring", "c2x");
  const RingKind* fixed = nullptr;
  for (int i = 0; i < kNumRings; ++i)
    if (ringName == kRings[i].name)
      fixed = &kRings[i];
  if (!fixed && ringName != "mix") {
    fprintf(stderr, "ERROR drv_spsc: unknown ring %s\n", ringName.c_str());
    return 3;
  }
  Program prog = parseProg(a.str("prog", "p:push1;c:pop"));
  if (a.has("schedules")) {
    if (!fixed) {
      fprintf(stderr, "ERROR drv_spsc: --schedules needs a fixed --ring\n");
      return 3;
    }
    auto scheds = ctl::readSchedules(a.str("schedules"));
    size_t idx = 0;
    for (auto& s : scheds) {
      ctl::RunOptions o;
      o.mode = ctl::RunOptions::Replay;
      o.schedule = &s;
      auto r = fixed->fn(prog, o, tr, "sched" + std::to_string(idx++));
      tot.add(r);
      if (!r.completed)
        break; // threads may still be parked: this process cannot run another execution
    }
  } else {
    long long n = a.num("random", 100);
    uint64_t seed = (uint64_t)a.num("seed", 1);
    uint64_t prng = seed * 7919 + 17;
    for (long long i = 0; i < n; ++i) {
      ctl::RunOptions o;
      o.mode = ctl::RunOptions::Random;
      o.seed = seed * 1000003ULL + (uint64_t)i;
      o.pctDepth = (int)a.num("pct", 0);
      const RingKind* rk = fixed ? fixed : &kRings[ctl::splitmix(prng) % kNumRings];
      Program p = a.has("randprog") ? randomProgram(prng, rk->cap) : prog;
      auto r = rk->fn(p, o, tr, std::string(rk->name) + "-rand" + std::to_string(o.seed));
      tot.add(r);
      if (!r.completed)
        break;
    }
  }
  tr.flush();
  tot.print();
  fflush(stdout);
  _exit(0); // parked threads of an aborted execution must not block exit
}
