// Driver for dispenso::SPSCRingBuffer (spec/spsc/Spsc.tla).
//   --out FILE            trace (ndjson)
//   --ring c1p|c1x|c2x|c2p|c3p|c4x|mix   template instantiation: requested Capacity 1..4,
//                         p = RoundUpToPowerOfTwo, x = exact.  kBufferSize: 2,2,3,4,4,5.
//                         mix (random mode only) draws one per execution.
//   --prog "p:push1,batch2.3,pushc4;c:pop,popbatch2,popr,popinto;o:size,empty,full"
//   --schedules FILE      replay each schedule of FILE (one JSON array per line)
//   --random N --seed S [--pct D]   N random controlled executions
//   --randprog            with --random: also draw a random (contract-respecting) program
//   --stress N --seed S   E5: N free-running rounds (real threads, no controller, hooks inert); one
//                         observation record per round (spec/spsc/SpscObs.tla validates them)
#include <dispenso/spsc_ring_buffer.h>

#include <time.h>
#include <unistd.h>

#include <atomic>
#include <thread>

#include "../ctl/ctl.h"
#include "../ctl/drv_common.h"
#include "../ctl/tracked.h"

using ctl::Json;
using ctl::Tracked;

struct OpDesc {
  std::string op;
  int v = 0;
  std::vector<int> vs;
};
using Program = std::vector<std::pair<std::string, std::vector<OpDesc>>>;

static Program parseProg(const std::string& s) {
  Program p;
  for (auto& th : drv::split(s, ';')) {
    if (th.empty())
      continue;
    auto nm = drv::split(th, ':');
    std::vector<OpDesc> ops;
    for (auto& o : drv::split(nm.size() > 1 ? nm[1] : "", ',')) {
      if (o.empty())
        continue;
      OpDesc d;
      size_t i = 0;
      while (i < o.size() && !isdigit((unsigned char)o[i]))
        ++i;
      d.op = o.substr(0, i);
      if (d.op == "batch") {
        if (i < o.size())
          for (auto& x : drv::split(o.substr(i), '.'))
            d.vs.push_back(atoi(x.c_str()));
      } else if (i < o.size())
        d.v = atoi(o.c_str() + i);
      ops.push_back(d);
    }
    p.emplace_back(nm[0], ops);
  }
  return p;
}

static std::string
resetLine(const Program& prog, long long n, long long cap, const std::string& tag) {
  Json j;
  j.beginObj();
  j.kv("e", std::string("Reset"));
  j.kv("n", n);
  j.kv("cap", cap);
  j.kv("tag", tag);
  j.key("prog").beginObj();
  for (auto& th : prog) {
    j.key(th.first.c_str()).beginArr();
    for (auto& o : th.second) {
      j.beginObj();
      j.kv("op", o.op);
      j.kv("v", o.v);
      j.arr("vs", o.vs.begin(), o.vs.end());
      j.endObj();
    }
    j.endArr();
  }
  j.endObj();
  j.endObj();
  return j.s;
}

// Random program inside the documented contract (R1): at most one thread issues producer
// operations, at most one thread issues consumer operations; observers from any thread.
static Program randomProgram(uint64_t& rng, int cap) {
  static const char* pushOps[] = {"push", "emplace", "pushc"};
  static const char* popOps[] = {"pop", "popr", "popinto"};
  static const char* obsOps[] = {"empty", "full", "size"};
  int next = 1;
  auto producerOp = [&]() {
    OpDesc d;
    if (ctl::splitmix(rng) % 10 < 6) {
      d.op = pushOps[ctl::splitmix(rng) % 3];
      d.v = next++;
    } else {
      d.op = "batch";
      int k = (int)(ctl::splitmix(rng) % (cap + 3)); // 0 .. cap+2 items
      for (int i = 0; i < k; ++i)
        d.vs.push_back(next++);
    }
    return d;
  };
  auto consumerOp = [&]() {
    OpDesc d;
    if (ctl::splitmix(rng) % 10 < 6)
      d.op = popOps[ctl::splitmix(rng) % 3];
    else {
      d.op = "popbatch";
      d.v = (int)(ctl::splitmix(rng) % (cap + 2)); // maxCount 0 .. cap+1
    }
    return d;
  };
  auto observerOp = [&]() {
    OpDesc d;
    d.op = obsOps[ctl::splitmix(rng) % 3];
    return d;
  };
  Program p;
  unsigned layout = (unsigned)(ctl::splitmix(rng) % 8);
  if (layout == 0) {
    // one thread is both the producer and the consumer; a second one only observes
    std::vector<OpDesc> ops;
    int nops = 2 + (int)(ctl::splitmix(rng) % 6);
    for (int k = 0; k < nops; ++k) {
      unsigned r = (unsigned)(ctl::splitmix(rng) % 10);
      ops.push_back(r < 5 ? producerOp() : r < 9 ? consumerOp() : observerOp());
    }
    p.emplace_back("pc", ops);
    std::vector<OpDesc> obs;
    int nobs = 1 + (int)(ctl::splitmix(rng) % 3);
    for (int k = 0; k < nobs; ++k)
      obs.push_back(observerOp());
    p.emplace_back("o", obs);
    return p;
  }
  std::vector<OpDesc> po, co, oo;
  int np = 1 + (int)(ctl::splitmix(rng) % 5);
  int nc = 1 + (int)(ctl::splitmix(rng) % 5);
  for (int k = 0; k < np; ++k)
    po.push_back(ctl::splitmix(rng) % 8 == 0 ? observerOp() : producerOp());
  for (int k = 0; k < nc; ++k)
    co.push_back(ctl::splitmix(rng) % 8 == 0 ? observerOp() : consumerOp());
  p.emplace_back("p", po);
  p.emplace_back("c", co);
  if (layout >= 5) {
    int no = 1 + (int)(ctl::splitmix(rng) % 3);
    for (int k = 0; k < no; ++k)
      oo.push_back(observerOp());
    p.emplace_back("o", oo);
  }
  return p;
}

// Executes one operation; every value returned to the caller is noted with ctl::ret in the order
// the specification lists it in hist (see header comment of Spsc.tla).
template <class Ring>
static void doOp(Ring& ring, const OpDesc& o) {
  if (o.op == "push") {
    Tracked x(o.v);
    ctl::ret(ring.try_push(std::move(x)) ? 1 : 0);
  } else if (o.op == "pushc") {
    Tracked x(o.v);
    ctl::ret(ring.try_push(x) ? 1 : 0);
  } else if (o.op == "emplace") {
    ctl::ret(ring.try_emplace(o.v) ? 1 : 0);
  } else if (o.op == "batch") {
    std::vector<Tracked> items;
    items.reserve(o.vs.size());
    for (int v : o.vs)
      items.emplace_back(v);
    ctl::ret((long long)ring.try_push_batch(items.begin(), items.end()));
  } else if (o.op == "pop") {
    Tracked item;
    bool ok = ring.try_pop(item);
    ctl::ret(ok ? item.id : 0);
  } else if (o.op == "popr") {
    auto r = ring.try_pop();
    ctl::ret(r ? r.value().id : 0);
  } else if (o.op == "popinto") {
    alignas(Tracked) char buf[sizeof(Tracked)];
    Tracked* p = reinterpret_cast<Tracked*>(buf);
    if (ring.try_pop_into(p)) {
      int id = p->id;
      p->~Tracked();
      ctl::ret(id);
    } else
      ctl::ret(0);
  } else if (o.op == "popbatch") {
    std::vector<Tracked> dest((size_t)o.v);
    size_t k = ring.try_pop_batch(dest.begin(), (size_t)o.v);
    ctl::ret((long long)k);
    for (size_t i = 0; i < k && i < dest.size(); ++i)
      ctl::ret(dest[i].id);
  } else if (o.op == "empty") {
    ctl::ret(ring.empty() ? 1 : 0);
  } else if (o.op == "full") {
    ctl::ret(ring.full() ? 1 : 0);
  } else if (o.op == "size") {
    ctl::ret((long long)ring.size());
  } else {
    fprintf(stderr, "ERROR drv_spsc: unknown op %s\n", o.op.c_str());
    _exit(3);
  }
}

template <class Ring>
static ctl::RunResult
execute(const Program& prog, const ctl::RunOptions& opts, ctl::Trace& tr, const std::string& tag) {
  ctl::Registry::get().reset();
  Ring* ring = new Ring();
  const long long n = (long long)(sizeof(ring->storage_) / sizeof(Tracked));
  tr.line(resetLine(prog, n, (long long)Ring::capacity(), tag));
  ctl::Controller c(tr);
  c.setProjection([ring, n](Json& j) {
    j.kv("head", (long long)ring->head_.load());
    j.kv("tail", (long long)ring->tail_.load());
    j.key("data").beginArr();
    for (long long i = 0; i < n; ++i) {
      const void* p = ring->elementAt((size_t)i);
      // 0: no live object; -1: a live but moved-from object
      bool live = ctl::Registry::get().isLive(p);
      int id = live ? ctl::Registry::get().at(p) : 0;
      if (live && id == 0)
        id = -1;
      j.num(id);
    }
    j.endArr();
    j.kv("errs", ctl::Registry::get().errorCount());
  });
  for (auto& th : prog) {
    const std::vector<OpDesc>* ops = &th.second;
    c.addThread(th.first, [ring, ops]() {
      for (auto& o : *ops)
        doOp(*ring, o);
    });
  }
  ctl::RunResult res = c.run(opts);
  if (res.completed) {
    delete ring;
    Json j;
    j.beginObj();
    j.kv("e", std::string("Destroy"));
    j.kv("live", ctl::Registry::get().liveCount());
    j.kv("errs", ctl::Registry::get().errorCount());
    j.endObj();
    tr.line(j.s);
  }
  return res;
}

using ExecFn = ctl::RunResult (*)(
    const Program&,
    const ctl::RunOptions&,
    ctl::Trace&,
    const std::string&);
struct RingKind {
  const char* name;
  int cap;
  ExecFn fn;
};
static const RingKind kRings[] = {
    {"c1p", 1, &execute<dispenso::SPSCRingBuffer<Tracked, 1, true>>},
    {"c1x", 1, &execute<dispenso::SPSCRingBuffer<Tracked, 1, false>>},
    {"c2x", 2, &execute<dispenso::SPSCRingBuffer<Tracked, 2, false>>},
    {"c2p", 3, &execute<dispenso::SPSCRingBuffer<Tracked, 2, true>>},
    {"c3p", 3, &execute<dispenso::SPSCRingBuffer<Tracked, 3, true>>},
    {"c4x", 4, &execute<dispenso::SPSCRingBuffer<Tracked, 4, false>>},
};
static const int kNumRings = (int)(sizeof(kRings) / sizeof(kRings[0]));

// ------------------------------------------------------------------------- E5: free-running rounds
// One producer thread, one consumer thread and (in some rounds) one observer thread operate on the real
// SPSCRingBuffer truly concurrently; there is no ctl::Controller, so the DISPENSO_VERIF_POINT hooks are
// inert and the windows INSIDE a specification step (between two hook points) are exercised as well.
// The threads are persistent (the producer is the main thread, a watchdog thread detects a hang); every
// round has a start barrier (who leaves it first alternates), a random start offset per thread, random
// short programs with random tiny delays between the operations and inside the payload's special member
// functions.  The rings persist across rounds (a round starts on an empty ring at whatever index the
// previous round stopped, so wrap-around happens at every program position); a round ends either with the
// consumer draining the ring or with the ring being destroyed non-empty and replaced by a fresh one.
// One record per round (everything a user of the public API can observe, per thread, in program order):
//   {"e":"Round","round":r,"kind":"c2x","cap":2,"stuck":0,
//    "p":[[op,arg,res],..]      producer: 1 try_push(T&&) 2 try_push(const T&) 3 try_emplace (res 0/1; 2 = a
//                                refused push changed its argument) 4 try_push_batch (arg = range length,
//                                res = count; -1 = an element that was not pushed changed)
//                                5 size() 6 empty() 7 full()            (res = returned value)
//    "c":[[op,arg,res,v..],..]  consumer: 1 try_pop(T&) 2 try_pop() 3 try_pop_into (res = value, 0 = refused,
//                                -1 = a refused try_pop(T&) changed its argument) 4 try_pop_batch (arg =
//                                maxCount, res = count, then the values) 5 size() 6 empty() 7 full()
//    "o":[[op,0,res],..]        observer thread: 5 size() 6 empty() 7 full()
//    "fin":[size,empty,full]    the three observers called by the consumer thread after both programs ended
//    "destroy":0|1              0: the consumer then drained the ring with try_pop ("drain" = the values);
//                                1: the ring was destroyed as it was (and a new one constructed)
//    "live":ctor-dtor           payload objects constructed minus destroyed by all threads in the round, counted
//                                when the ring is empty again / destroyed and every local object is gone
//    "errs":n}                  payload lifetime errors: constructed over a live object inside the ring's
//                                storage, destroyed / moved from / copied from / assigned to a dead object
// Every few rounds a STREAM round: the same random operations, but the producer goes on until K values were
// accepted (or 4K+64 operations were made) and the consumer until it sees that the producer has finished; the
// results are tallied instead of listed (a stream is some thousand operations):
//   {"e":"Stream","round":r,"kind":..,"cap":..,"stuck":0,"acc":A (sum of the producer's results),
//    "pt":[refused,changed,maxcount,over,smin,smax]  producer: refused = pushes that returned false / batches
//                                that returned less than the range, changed = refused operations that changed
//                                their argument, maxcount = largest count returned by try_push_batch, over =
//                                largest (count - length of the range), smin/smax = extremes of size()
//    "ct":[..]                   the same for the consumer (over: count - maxCount)
//    "pops":[v,..]               every value the consumer's pops delivered, in program order
//    "o","fin","destroy","drain","live","errs" as above}
// The k-th value the producer offers is k (a refused value is offered again), so the accepted sequence is
// 1..A by construction.  Payload values a reader could not have read from a live, untorn object are logged
// as -2 (torn / out of range) or -3 (object not alive).
namespace race {

constexpr int kXor = 0x5a5a5a5a;
constexpr int kLive = 0x600d11fe;
constexpr int kDead = 0x0dead0ad;

struct Tls {
  long long ctor = 0, dtor = 0, errs = 0;
  uint64_t rng = 88172645463325252ULL;
  unsigned spinMask = 0;
};
static thread_local Tls tls;
// storage of the ring the current round runs on (published by the start barrier)
static const char* g_lo = nullptr;
static const char* g_hi = nullptr;

static inline uint64_t rnd() {
  uint64_t x = tls.rng;
  x ^= x << 13;
  x ^= x >> 7;
  x ^= x << 17;
  return tls.rng = x;
}
static inline void spin(unsigned k) {
  for (volatile unsigned i = 0; i < k; ++i) {
  }
}
// a payload operation takes a little (random) time: widens the windows in which a half-done element is
// exposed if the ring publishes / releases a slot at the wrong moment
static inline void payloadDelay() {
  if (tls.spinMask)
    spin((unsigned)(rnd() & tls.spinMask));
}

struct Cell {
  int id;
  int chk;
  volatile int state; // volatile: the stores of the destructor must not be optimised away
  void born() {
    ++tls.ctor;
    const char* me = reinterpret_cast<const char*>(this);
    if (me >= g_lo && me < g_hi && state == kLive)
      ++tls.errs; // constructed over a live object (slot storage is zeroed when a ring is created)
  }
  static void needLive(const Cell& c) {
    if (c.state != kLive)
      ++tls.errs;
  }
  Cell() noexcept {
    born();
    id = 0;
    chk = kXor;
    state = kLive;
  }
  explicit Cell(int v) noexcept {
    born();
    id = v;
    payloadDelay();
    chk = v ^ kXor;
    state = kLive;
  }
  Cell(const Cell& o) noexcept {
    born();
    needLive(o);
    id = o.id;
    payloadDelay();
    chk = o.chk;
    state = kLive;
  }
  Cell(Cell&& o) noexcept {
    born();
    needLive(o);
    id = o.id;
    payloadDelay();
    chk = o.chk;
    o.id = 0;
    o.chk = kXor;
    state = kLive;
  }
  Cell& operator=(const Cell& o) noexcept {
    needLive(*this);
    needLive(o);
    id = o.id;
    payloadDelay();
    chk = o.chk;
    return *this;
  }
  Cell& operator=(Cell&& o) noexcept {
    needLive(*this);
    needLive(o);
    if (this != &o) {
      id = o.id;
      payloadDelay();
      chk = o.chk;
      o.id = 0;
      o.chk = kXor;
    }
    return *this;
  }
  ~Cell() {
    ++tls.dtor;
    if (state != kLive)
      ++tls.errs; // destroyed twice / never constructed
    payloadDelay();
    state = kDead;
  }
  // what a reader of this object sees (32-bit safe, small)
  int value() const {
    if (state != kLive)
      return -3;
    int v = id;
    if ((v ^ kXor) != chk || v < 0 || v > 1000000)
      return -2;
    return v;
  }
};

struct Rows {
  std::vector<int> flat; // len, items...
  // stream rounds: the results are tallied instead of listed (see the record formats above)
  bool stream = false, producer = false;
  std::vector<int> vals; // values received by the pops, in order
  int refused = 0, changed = 0, maxCount = 0, over = 0, smin = 0, smax = 0;
  void clear(bool streamRound) {
    flat.clear();
    vals.clear();
    stream = streamRound;
    refused = changed = maxCount = over = smin = smax = 0;
  }
  void tallyBatch(int limit, int res) {
    if (res < 0)
      ++changed;
    else {
      if (res > maxCount)
        maxCount = res;
      if (res - limit > over)
        over = res - limit;
      if (res < limit)
        ++refused;
    }
  }
  void row(int a, int b, int c) {
    if (!stream) {
      flat.push_back(3);
      flat.push_back(a);
      flat.push_back(b);
      flat.push_back(c);
    } else if (a <= 3) {
      if (c == 0)
        ++refused;
      else if (producer)
        changed += c == 2;
      else if (c == -1)
        ++changed;
      else
        vals.push_back(c);
    } else if (a == 4)
      tallyBatch(b, c);
    else if (a == 5) {
      if (c < smin)
        smin = c;
      if (c > smax)
        smax = c;
    }
  }
  template <class It>
  void popBatchRow(int maxCnt, int res, It first, int nvals) {
    if (!stream) {
      flat.push_back(3 + nvals);
      flat.push_back(4);
      flat.push_back(maxCnt);
      flat.push_back(res);
      for (int j = 0; j < nvals; ++j, ++first)
        flat.push_back(first->value());
    } else {
      tallyBatch(maxCnt, res);
      for (int j = 0; j < nvals; ++j, ++first)
        vals.push_back(first->value());
    }
  }
  static void jsonInts(std::string& s, const std::vector<int>& v) {
    s += '[';
    for (size_t i = 0; i < v.size(); ++i) {
      if (i)
        s += ',';
      s += std::to_string(v[i]);
    }
    s += ']';
  }
  void jsonTally(std::string& s) const {
    jsonInts(s, std::vector<int>{refused, changed, maxCount, over, smin, smax});
  }
  void json(std::string& s) const {
    s += '[';
    for (size_t i = 0; i < flat.size();) {
      if (i)
        s += ',';
      s += '[';
      int len = flat[i++];
      for (int k = 0; k < len; ++k) {
        if (k)
          s += ',';
        s += std::to_string(flat[i++]);
      }
      s += ']';
    }
    s += ']';
  }
};

struct Round {
  long long r = 0;
  int kind = 0;
  void* ring = nullptr;
  int cap = 0;
  int nP = 0, nC = 0, nO = 0;
  int stream = 0, K = 0; // stream round: until K values were accepted
  int destroy = 0;
  int lead = 0; // who leaves the start barrier first
  uint64_t seedP = 0, seedC = 0, seedO = 0;
};
struct Shared {
  Round rd; // written by main before go is stored, read by the workers after they saw it
  std::atomic<long long> go{-1}, ogo{-1};
  std::atomic<long long> cready{-1}, pstart{-1}, pdone{-1}, cdone{-1}, odone{-1};
  Rows p, c, o;
  std::vector<int> drain;
  int fin[3] = {0, 0, 0};
  int acc = 0;
  long long live[3] = {0, 0, 0}, errs[3] = {0, 0, 0};
};
static Shared sh; // static: stuck workers may outlive runStress

static inline void relax(unsigned& n) {
  if (++n > 3000) {
    sched_yield();
    n = 0;
  }
}
// waits for the start of round r; false = shut down
static bool awaitRound(long long r) {
  unsigned n = 0;
  for (;;) {
    long long g = sh.go.load(std::memory_order_acquire);
    if (g == r)
      return true;
    if (g < -1)
      return false;
    relax(n);
  }
}
static void beginPart(uint64_t seed) {
  tls.rng = seed | 1;
  tls.ctor = tls.dtor = tls.errs = 0;
  unsigned m = (unsigned)(rnd() % 4);
  tls.spinMask = m < 2 ? 0u : m == 2 ? 7u : 63u;
  spin((unsigned)(rnd() % 160)); // start offset
}
static inline void gap() {
  unsigned k = (unsigned)(rnd() & 15);
  if (k == 0)
    spin((unsigned)(rnd() % 120));
  else if (k < 6)
    spin(k);
}
static void endPart(int who) {
  sh.live[who] = tls.ctor - tls.dtor;
  sh.errs[who] = tls.errs;
}

template <class Ring>
static void observe(const Ring& ring, Rows& out, unsigned which) {
  if (which == 0)
    out.row(5, 0, (int)ring.size());
  else if (which == 1)
    out.row(6, 0, ring.empty() ? 1 : 0);
  else
    out.row(7, 0, ring.full() ? 1 : 0);
}

template <class Ring>
static void producerPart(const Round& rd) {
  Ring& ring = *static_cast<Ring*>(rd.ring);
  Rows& out = sh.p;
  int a = 0; // accepted so far; the next value offered is a + 1
  for (int i = 0; rd.stream ? (a < rd.K && i < 4 * rd.K + 64) : i < rd.nP; ++i) {
    gap();
    unsigned k = (unsigned)(rnd() % 20);
    if (k < 4) {
      Cell x(a + 1);
      bool ok = ring.try_push(std::move(x));
      out.row(1, 0, ok ? 1 : (x.value() == a + 1 ? 0 : 2));
      a += ok;
    } else if (k < 7) {
      Cell x(a + 1);
      bool ok = ring.try_push(x);
      out.row(2, 0, ok ? 1 : (x.value() == a + 1 ? 0 : 2));
      a += ok;
    } else if (k < 10) {
      bool ok = ring.try_emplace(a + 1);
      out.row(3, 0, ok ? 1 : 0);
      a += ok;
    } else if (k < 17) {
      int len = (int)(rnd() % (unsigned)(rd.cap + 3)); // 0 .. cap+2
      std::vector<Cell> items;
      items.reserve((size_t)len);
      for (int j = 0; j < len; ++j)
        items.emplace_back(a + 1 + j);
      long long cnt = (long long)ring.try_push_batch(items.begin(), items.end());
      int res = cnt < 0 || cnt > 1000 ? 1000 : (int)cnt;
      for (int j = res; j < len; ++j)
        if (items[(size_t)j].value() != a + 1 + j)
          res = -1;
      out.row(4, len, res);
      if (res > 0)
        a += res;
    } else
      observe(ring, out, k - 17);
  }
  sh.acc = a;
}

template <class Ring>
static void consumerOps(const Round& rd) {
  Ring& ring = *static_cast<Ring*>(rd.ring);
  Rows& out = sh.c;
  for (int i = 0; rd.stream ? sh.pdone.load(std::memory_order_relaxed) != rd.r : i < rd.nC; ++i) {
    gap();
    unsigned k = (unsigned)(rnd() % 20);
    if (k < 4) {
      Cell item(777777);
      bool ok = ring.try_pop(item);
      int v = item.value();
      out.row(1, 0, ok ? v : (v == 777777 ? 0 : -1));
    } else if (k < 7) {
      auto r = ring.try_pop();
      out.row(2, 0, r ? r.value().value() : 0);
    } else if (k < 10) {
      alignas(Cell) char buf[sizeof(Cell)];
      Cell* p = reinterpret_cast<Cell*>(buf);
      if (ring.try_pop_into(p)) {
        out.row(3, 0, p->value());
        p->~Cell();
      } else
        out.row(3, 0, 0);
    } else if (k < 17) {
      int maxCount = (int)(rnd() % (unsigned)(rd.cap + 2)); // 0 .. cap+1
      std::vector<Cell> dest((size_t)maxCount);
      long long cnt = (long long)ring.try_pop_batch(dest.begin(), (size_t)maxCount);
      int res = cnt < 0 || cnt > maxCount ? maxCount + 1 : (int)cnt; // maxCount + 1: impossible count
      out.popBatchRow(maxCount, res, dest.begin(), res <= maxCount ? res : maxCount);
    } else
      observe(ring, out, k - 17);
  }
}

template <class Ring>
static void consumerPart(const Round& rd) {
  consumerOps<Ring>(rd);
  // quiescence: wait until the producer's program has ended as well
  unsigned n = 0;
  while (sh.pdone.load(std::memory_order_acquire) != rd.r) {
    if (sh.go.load(std::memory_order_acquire) < -1)
      return;
    relax(n);
  }
  Ring& ring = *static_cast<Ring*>(rd.ring);
  sh.fin[0] = (int)ring.size();
  sh.fin[1] = ring.empty() ? 1 : 0;
  sh.fin[2] = ring.full() ? 1 : 0;
  if (!rd.destroy) {
    for (int i = 0; i < rd.cap + 2; ++i) { // a correct ring holds at most cap elements
      Cell item;
      if (!ring.try_pop(item))
        break;
      sh.drain.push_back(item.value());
    }
  }
}

template <class Ring>
static void observerPart(const Round& rd) {
  const Ring& ring = *static_cast<const Ring*>(rd.ring);
  for (int i = 0; i < rd.nO; ++i) {
    gap();
    observe(ring, sh.o, (unsigned)(rnd() % 3));
  }
}

template <class Ring>
static void* createRing() {
  Ring* ring = new Ring();
  // the storage of a new ring holds no object
  for (size_t i = 0; i < sizeof(ring->storage_) / sizeof(Cell); ++i)
    ring->elementAt(i)->state = 0;
  return ring;
}
template <class Ring>
static void destroyRing(void* p) {
  delete static_cast<Ring*>(p);
}
template <class Ring>
static void storageOf(void* p, const char** lo, const char** hi) {
  Ring* ring = static_cast<Ring*>(p);
  *lo = ring->storage_;
  *hi = ring->storage_ + sizeof(ring->storage_);
}

struct Kind {
  const char* name;
  int cap;
  void (*producer)(const Round&);
  void (*consumer)(const Round&);
  void (*observer)(const Round&);
  void* (*create)();
  void (*destroy)(void*);
  void (*storage)(void*, const char**, const char**);
};
#define RACE_KIND(NAME, C, P)                                                                 \
  {NAME,                                                                                      \
   (int)dispenso::SPSCRingBuffer<Cell, C, P>::capacity(),                                     \
   &producerPart<dispenso::SPSCRingBuffer<Cell, C, P>>,                                       \
   &consumerPart<dispenso::SPSCRingBuffer<Cell, C, P>>,                                       \
   &observerPart<dispenso::SPSCRingBuffer<Cell, C, P>>,                                       \
   &createRing<dispenso::SPSCRingBuffer<Cell, C, P>>,                                         \
   &destroyRing<dispenso::SPSCRingBuffer<Cell, C, P>>,                                        \
   &storageOf<dispenso::SPSCRingBuffer<Cell, C, P>>}
static const Kind kKinds[] = {
    RACE_KIND("c1p", 1, true),
    RACE_KIND("c1x", 1, false),
    RACE_KIND("c2x", 2, false),
    RACE_KIND("c2p", 2, true),
    RACE_KIND("c3p", 3, true),
    RACE_KIND("c4x", 4, false),
};
static const int kNumKinds = (int)(sizeof(kKinds) / sizeof(kKinds[0]));

static long long nowNs() {
  timespec ts;
  clock_gettime(CLOCK_MONOTONIC, &ts);
  return (long long)ts.tv_sec * 1000000000LL + ts.tv_nsec;
}

static void consumerThread() {
  for (long long r = 0;; ++r) {
    if (!awaitRound(r))
      return;
    const Round& rd = sh.rd;
    sh.cready.store(r, std::memory_order_release); // start barrier: the producer waits for this
    if (rd.lead) { // ... and in every other round the consumer waits for the producer's answer, so that
      unsigned n = 0; // the latency of the last hand-shake favours each side equally often
      while (sh.pstart.load(std::memory_order_acquire) != r)
        relax(n);
    }
    beginPart(rd.seedC);
    kKinds[rd.kind].consumer(rd);
    endPart(1);
    sh.cdone.store(r, std::memory_order_release);
  }
}
// the observer takes part in some rounds only (ogo = number of the round it is to join)
static void observerThread() {
  long long last = -1;
  for (;;) {
    long long g;
    unsigned n = 0;
    while ((g = sh.ogo.load(std::memory_order_acquire)) == last) {
      if (++n > 300) {
        sched_yield();
        n = 0;
      }
    }
    if (g < -1)
      return;
    last = g;
    const Round& rd = sh.rd;
    beginPart(rd.seedO);
    kKinds[rd.kind].observer(rd);
    endPart(2);
    sh.odone.store(g, std::memory_order_release);
  }
}

// Watchdog: the operations are wait-free and a round takes microseconds.  If no round completes within
// the grace period the real code hangs: say so in a record (the validator rejects it) and leave.
struct Watch {
  FILE* f = nullptr;
  std::atomic<long long> progress{0};
  std::atomic<int> finished{0};
  long long ops = 0;
};
static Watch watch;
static void watchdogThread() {
  const long long graceNs = 10LL * 1000 * 1000 * 1000;
  long long seen = -1, since = nowNs();
  while (!watch.finished.load(std::memory_order_acquire)) {
    timespec ts = {0, 50 * 1000 * 1000};
    nanosleep(&ts, nullptr);
    long long p = watch.progress.load(std::memory_order_acquire);
    long long t = nowNs();
    if (p != seen) {
      seen = p;
      since = t;
    } else if (t - since > graceNs && !watch.finished.load(std::memory_order_acquire)) {
      const Kind& k = kKinds[sh.rd.kind];
      fprintf(watch.f,
              "{\"e\":\"Round\",\"round\":%lld,\"kind\":\"%s\",\"cap\":%d,\"stuck\":1,\"p\":[],\"c\":[],\"o\":[],"
              "\"fin\":[0,0,0],\"destroy\":0,\"drain\":[],\"live\":0,\"errs\":0}\n",
              seen, k.name, k.cap);
      fflush(watch.f);
      printf("DRIVER executions=%lld steps=%lld completed=%lld deadlocks=1 diverged=0 stuck=0\n", seen + 1, seen,
             seen);
      fflush(stdout);
      _exit(0); // stuck threads cannot be joined; the record says what happened
    }
  }
}

static int runStress(const drv::Args& a) {
  std::string out = a.str("out", "stress.ndjson");
  FILE* f = fopen(out.c_str(), "w");
  if (!f)
    return 2;
  static char iobuf[1 << 20];
  setvbuf(f, iobuf, _IOFBF, sizeof(iobuf));
  const long long rounds = a.num("stress", 1000);
  const long long streamEvery = a.num("streamevery", 16); // every n-th round is a stream round (0: none)
  const long long streamLen = a.num("streamlen", 400);    // K is drawn from [len/2, 3*len/2]
  uint64_t rng = (uint64_t)a.num("seed", 1) * 0x9e3779b97f4a7c15ULL + 0x5bd1e995;
  void* rings[kNumKinds];
  for (int i = 0; i < kNumKinds; ++i)
    rings[i] = kKinds[i].create();
  watch.f = f;
  std::thread cons(consumerThread), obs(observerThread), dog(watchdogThread);
  long long ops = 0;
  std::string line;
  for (long long r = 0; r < rounds; ++r) {
    Round& rd = sh.rd;
    rd.r = r;
    rd.kind = (int)(ctl::splitmix(rng) % (uint64_t)kNumKinds);
    const Kind& k = kKinds[rd.kind];
    rd.ring = rings[rd.kind];
    rd.cap = k.cap;
    rd.nP = 2 + (int)(ctl::splitmix(rng) % 11);
    rd.nC = 2 + (int)(ctl::splitmix(rng) % 11);
    rd.nO = ctl::splitmix(rng) % 4 == 0 ? 1 + (int)(ctl::splitmix(rng) % 6) : 0;
    rd.destroy = ctl::splitmix(rng) % 5 == 0 ? 1 : 0;
    rd.stream = streamEvery > 0 && r % streamEvery == streamEvery - 1;
    rd.K = (int)(streamLen / 2 + (long long)(ctl::splitmix(rng) % (uint64_t)(streamLen + 1)));
    rd.lead = (int)(ctl::splitmix(rng) % 2);
    rd.seedP = ctl::splitmix(rng);
    rd.seedC = ctl::splitmix(rng);
    rd.seedO = ctl::splitmix(rng);
    sh.p.clear(rd.stream != 0);
    sh.p.producer = true;
    sh.c.clear(rd.stream != 0);
    sh.o.clear(false);
    sh.drain.clear();
    k.storage(rd.ring, &g_lo, &g_hi);
    if (rd.nO)
      sh.ogo.store(r, std::memory_order_release);
    sh.go.store(r, std::memory_order_release);
    // this thread is the producer; start barrier, then both sides add a random offset
    unsigned n = 0;
    while (sh.cready.load(std::memory_order_acquire) != r)
      relax(n);
    if (rd.lead)
      sh.pstart.store(r, std::memory_order_release);
    beginPart(rd.seedP);
    k.producer(rd);
    sh.pdone.store(r, std::memory_order_release);
    while (sh.cdone.load(std::memory_order_acquire) != r)
      relax(n);
    while (rd.nO && sh.odone.load(std::memory_order_acquire) != r)
      relax(n);
    if (rd.destroy) {
      k.destroy(rd.ring);
      rings[rd.kind] = k.create();
    }
    long long live = tls.ctor - tls.dtor + sh.live[1] + (rd.nO ? sh.live[2] : 0);
    long long errs = tls.errs + sh.errs[1] + (rd.nO ? sh.errs[2] : 0);
    auto clamp = [](long long v) { return v > 1000000 ? 1000000 : v < -1000000 ? -1000000 : v; };
    line.clear();
    line += std::string("{\"e\":\"") + (rd.stream ? "Stream" : "Round") + "\",\"round\":" + std::to_string(r) +
        ",\"kind\":\"" + k.name + "\",\"cap\":" + std::to_string(k.cap) + ",\"stuck\":0,";
    if (rd.stream) {
      line += "\"acc\":" + std::to_string(sh.acc) + ",\"pt\":";
      sh.p.jsonTally(line);
      line += ",\"ct\":";
      sh.c.jsonTally(line);
      line += ",\"pops\":";
      Rows::jsonInts(line, sh.c.vals);
    } else {
      line += "\"p\":";
      sh.p.json(line);
      line += ",\"c\":";
      sh.c.json(line);
    }
    line += ",\"o\":";
    sh.o.json(line);
    line += ",\"fin\":[" + std::to_string(sh.fin[0]) + "," + std::to_string(sh.fin[1]) + "," +
        std::to_string(sh.fin[2]) + "],\"destroy\":" + std::to_string(rd.destroy) + ",\"drain\":[";
    for (size_t i = 0; i < sh.drain.size(); ++i) {
      if (i)
        line += ',';
      line += std::to_string(sh.drain[i]);
    }
    line += "],\"live\":" + std::to_string(clamp(live)) + ",\"errs\":" + std::to_string(clamp(errs)) + "}\n";
    fputs(line.c_str(), f);
    ops += rd.stream ? 2 * sh.acc : rd.nP + rd.nC + rd.nO;
    watch.progress.store(r + 1, std::memory_order_release);
  }
  watch.finished.store(1, std::memory_order_release);
  fflush(f);
  fclose(f);
  printf("DRIVER executions=%lld steps=%lld completed=%lld deadlocks=0 diverged=0 stuck=0\n", rounds, ops, rounds);
  fflush(stdout);
  sh.go.store(-2, std::memory_order_release);
  sh.ogo.store(-2, std::memory_order_release);
  cons.join();
  obs.join();
  dog.join();
  for (int i = 0; i < kNumKinds; ++i)
    kKinds[i].destroy(rings[i]);
  return 0;
}

} // namespace race

int main(int argc, char** argv) {
  drv::Args a(argc, argv);
  if (a.has("stress")) {
    int rc = race::runStress(a);
    fflush(stdout);
    _exit(rc);
  }
  ctl::Trace tr(a.str("out", "trace.ndjson"));
  drv::Totals tot;
  std::string ringName = a.str("ring", "c2x");
  const RingKind* fixed = nullptr;
  for (int i = 0; i < kNumRings; ++i)
    if (ringName == kRings[i].name)
      fixed = &kRings[i];
  if (!fixed && ringName != "mix") {
    fprintf(stderr, "ERROR drv_spsc: unknown ring %s\n", ringName.c_str());
    return 3;
  }
  Program prog = parseProg(a.str("prog", "p:push1;c:pop"));
  if (a.has("schedules")) {
    if (!fixed) {
      fprintf(stderr, "ERROR drv_spsc: --schedules needs a fixed --ring\n");
      return 3;
    }
    auto scheds = ctl::readSchedules(a.str("schedules"));
    size_t idx = 0;
    for (auto& s : scheds) {
      ctl::RunOptions o;
      o.mode = ctl::RunOptions::Replay;
      o.schedule = &s;
      auto r = fixed->fn(prog, o, tr, "sched" + std::to_string(idx++));
      tot.add(r);
      if (!r.completed)
        break; // threads may still be parked: this process cannot run another execution
    }
  } else {
    long long n = a.num("random", 100);
    uint64_t seed = (uint64_t)a.num("seed", 1);
    uint64_t prng = seed * 7919 + 17;
    for (long long i = 0; i < n; ++i) {
      ctl::RunOptions o;
      o.mode = ctl::RunOptions::Random;
      o.seed = seed * 1000003ULL + (uint64_t)i;
      o.pctDepth = (int)a.num("pct", 0);
      const RingKind* rk = fixed ? fixed : &kRings[ctl::splitmix(prng) % kNumRings];
      Program p = a.has("randprog") ? randomProgram(prng, rk->cap) : prog;
      auto r = rk->fn(p, o, tr, std::string(rk->name) + "-rand" + std::to_string(o.seed));
      tot.add(r);
      if (!r.completed)
        break;
    }
  }
  tr.flush();
  tot.print();
  fflush(stdout);
  _exit(0); // parked threads of an aborted execution must not block exit
}
