// Second translation unit of the threadId() driver (property C45).
//
// "Stable per thread" is a statement about the THREAD, not about the .cpp file the call happens to
// be compiled in: an application calls dispenso::threadId() - directly, or through header-only users
// such as DistributedRWLock's slot choice - from many translation units, and every one of them must
// see the same identifier for the same thread.  Whatever thread_id.h makes visible to its includers
// (inline functions, per-unit statics, ...) is instantiated once more in this unit, so a per-thread
// state that is accidentally private to a translation unit shows up as a difference between the
// value seen from drv_threadid.cpp and the value seen from here.
//
// Nothing in this file may be inlined into the other unit: the functions are noinline and the
// harness is built without LTO.
#include <dispenso/distributed_rw_lock.h>
#include <dispenso/thread_id.h>

#include "drv_threadid_tu2.h"

namespace tidtu2 {

__attribute__((noinline)) uint64_t threadId() {
  return dispenso::threadId();
}

__attribute__((noinline)) void lockShared(Lock& l) {
  l.lock_shared();
}

__attribute__((noinline)) void unlockShared(Lock& l) {
  l.unlock_shared();
}

} // namespace tidtu2
