// drv_seqvec part 2: element size 256 bytes (first bucket 1), kIteratorPreferSpeed = false;
// buffer placement x reallocation strategy = 6 instantiations of Runner (see drv_seqvec_ops.h).
#include "drv_seqvec_ops.h"
namespace sv {
IRunner* makeF1Compact(ctl::Trace& tr, int inl, int strat) {
  return makePart<256, false>(tr, 1, inl, strat);
}
} // namespace sv
