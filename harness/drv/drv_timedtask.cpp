// Driver for dispenso::TimedTask / TimedTaskScheduler (spec/timedtask/TimedTask.tla), property C26.
//
// Controlled mode (real TimedTaskScheduler thread + real ThreadPool under harness/ctl, logical clock):
//   --out FILE --scen "w=1;t1=1.1.2.s.p.0;main:new,sched1,tick,del1,stop,delpool;clk:tick,tick"
//   [--scenfile FILE (one scenario per line)] --random N --seed S [--pct D] [--maxsteps M]
//   [--schedules FILE]   replay every schedule of FILE (walker output) on the scenario
//   scenario:  w=<pool threads, -1 = no pool>   tK=<at>.<period>.<times>.<s|n>.<i|p>.<falseAt>
//              (ticks, ticks, -1 = forever, steady / normal, ImmediateInvoker / pool, index of the
//              invocation that returns false, 0 = never)       thread:op,op,...
//   ops: new | schedK | cancelK | detachK | callsK | delK | tick | sync | up | stop | delpool
// Free-running mode (real clock, E5 records; R5: elapsed measured outside with steady_clock):
//   --free N --seed S --out FILE
#include <dispenso/schedulable.h>
#include <dispenso/thread_pool.h>
#include <dispenso/timed_task.h>

#include <sched.h>
#include <signal.h>
#include <unistd.h>

#include <atomic>
#include <chrono>
#include <cmath>
#include <cstring>
#include <exception>
#include <thread>

#include "../ctl/ctl.h"
#include "../ctl/drv_common.h"
#include "pool_proj.h"

using ctl::Json;

static const int kMaxTasks = 8;

struct TaskCfg {
  int at = 0, per = 0, times = 1;
  bool steady = false;
  bool imm = true; // ImmediateInvoker (else the pool)
  int falseAt = 0;
};
struct Op {
  std::string op;
  int k = 0;
};
struct Scenario {
  int w = -1; // pool threads, -1: no pool
  std::vector<TaskCfg> cfg; // index 1..n
  std::vector<std::pair<std::string, std::vector<Op>>> prog;
  std::string text;
};

struct World {
  Scenario sc;
  dispenso::ThreadPool* pool = nullptr;
  dispenso::TimedTaskScheduler* tts = nullptr;
  dispenso::ImmediateInvoker imm;
  dispenso::TimedTask* handle[kMaxTasks + 1] = {};
  const dispenso::detail::TimedTaskImpl* impl[kMaxTasks + 1] = {};
  std::weak_ptr<dispenso::detail::TimedTaskImpl> weak[kMaxTasks + 1];
  bool hasWeak[kMaxTasks + 1] = {};
  std::atomic<int> started[kMaxTasks + 1];
  std::atomic<int> fLive[kMaxTasks + 1];
  std::atomic<int> done{0};
  int nDrivers = 0;
  World() {
    for (auto& a : started)
      a.store(0);
    for (auto& a : fLive)
      a.store(0);
  }
};

static World* g_w = nullptr;
static std::atomic<int> g_clockOn{0}; // constant-initialised: getTime() runs during static initialisation
static std::atomic<long long> g_now{0}; // logical clock, ticks of 1 ms
static bool g_controlled = false;
static ctl::Trace* g_trace = nullptr;
static drv::Totals g_tot;
static thread_local int tlsSchedK = 0;

// ------------------------------------------------------------------------------ hooks of this driver
// Logical clock: only the driver's `tick` operation advances it.
extern "C" int dispenso_verif_clock(double* nowSeconds) {
  if (!g_clockOn.load(std::memory_order_acquire))
    return 0;
  *nowSeconds = (double)g_now.load(std::memory_order_acquire) * 1e-3;
  return 1;
}

static int idOf(const char* site, const void* obj) {
  World* w = g_w;
  if (!w || !obj)
    return 0;
  int n = (int)w->sc.cfg.size() - 1;
  if (!strcmp(site, "TtAddReadClock") && tlsSchedK > 0) {
    for (int k = 1; k <= n; ++k)
      if (w->impl[k] == obj)
        w->impl[k] = nullptr; // a dead impl whose storage was reused
    w->impl[tlsSchedK] = (const dispenso::detail::TimedTaskImpl*)obj;
    return tlsSchedK;
  }
  for (int k = 1; k <= n; ++k)
    if (w->impl[k] == obj)
      return k;
  return 0;
}

// Linked with -Wl,--wrap=dispenso_verif_point: every hook of the library comes through here.  The
// controller's point is taken first; what follows runs inside the step that was just granted, so
// the notes are attached to the event of the action that begins at this site:
//   ["k", task id]  for the component's own sites (object = the TimedTaskImpl)
//   ["ew", 1]       for EpochWaiter sites operating on the scheduler's own epoch_ (not the pool's)
extern "C" void __real_dispenso_verif_point(const char* site, const void* obj);
extern "C" void __wrap_dispenso_verif_point(const char* site, const void* obj) {
  // the impl of a task being scheduled becomes known when its thread ARRIVES at addTimedTask's
  // first point (end of the DrOp step), so that the projection of that step already shows it
  int k = (g_controlled && site[0] == 'T' && site[1] == 't') ? idOf(site, obj) : 0;
  __real_dispenso_verif_point(site, obj);
  if (!g_controlled || !ctl::active())
    return;
  if (site[0] == 'T' && site[1] == 't') {
    ctl::note("k", k);
  } else if (site[0] == 'E' && site[1] == 'w') {
    World* w = g_w;
    if (w && w->tts && obj == (const void*)&w->tts->epoch_)
      ctl::note("ew", 1);
  }
}

// ~TimedTaskScheduler() joins the scheduler thread for real (a BLOCKING region of the hooks).  While
// the joiner is on its way back the controller does not wait for it if anything else (e.g. the
// time-out of an idle pool worker) can be scheduled, so on a loaded machine the joiner could starve
// until the step bound.  The three shims below (also --wrap) let the projection, which runs in the
// controller between two steps, wait until the joiner has arrived at its TtJoined point once the
// scheduler thread has ended.  This only removes a real-time race of the harness; which logical
// thread runs next is still the schedule's choice.
static std::atomic<int> g_ttsEnded{0}, g_inJoin{0}, g_joinArrived{0};
extern "C" void __real_dispenso_verif_thread_end(const char* kind, const void* owner);
extern "C" void __wrap_dispenso_verif_thread_end(const char* kind, const void* owner) {
  if (kind[0] == 't' && kind[1] == 't')
    g_ttsEnded.store(1, std::memory_order_release);
  __real_dispenso_verif_thread_end(kind, owner);
}
extern "C" void __real_dispenso_verif_blocking_begin(const char* site, const void* obj);
extern "C" void __wrap_dispenso_verif_blocking_begin(const char* site, const void* obj) {
  if (!strcmp(site, "TtJoin"))
    g_inJoin.store(1, std::memory_order_release);
  __real_dispenso_verif_blocking_begin(site, obj);
}
extern "C" void __real_dispenso_verif_blocking_end(const char* site, const void* obj);
extern "C" void __wrap_dispenso_verif_blocking_end(const char* site, const void* obj) {
  if (!strcmp(site, "TtJoined"))
    g_joinArrived.store(1, std::memory_order_release);
  __real_dispenso_verif_blocking_end(site, obj);
}
static void awaitJoiner() {
  if (g_ttsEnded.load(std::memory_order_acquire) && g_inJoin.load(std::memory_order_acquire) &&
      !g_joinArrived.load(std::memory_order_acquire)) {
    auto t0 = std::chrono::steady_clock::now();
    while (!g_joinArrived.load(std::memory_order_acquire) &&
           std::chrono::steady_clock::now() - t0 < std::chrono::seconds(10))
      sched_yield();
    // give the joiner the few instructions between the shim and its ST_POINT store
    for (int i = 0; i < 50; ++i)
      sched_yield();
  }
}

static bool siteFilter(const char* s) {
  return poolproj::siteFilter(s) || (s[0] == 'T' && s[1] == 't');
}

// ------------------------------------------------------------------------- the user's function
// Lifetime-tracked functor: exactly one instance "owns" the identity; its destruction is logged
// (and projected as fa = 0), a call through a destroyed instance is logged as use-after-destruction.
struct Fn {
  int k;
  bool owner;
  explicit Fn(int kk) : k(kk), owner(true) {
    g_w->fLive[k].fetch_add(1);
  }
  Fn(const Fn& o) : k(o.k), owner(o.owner) {
    if (owner)
      g_w->fLive[k].fetch_add(1);
  }
  Fn(Fn&& o) noexcept : k(o.k), owner(o.owner) {
    o.owner = false;
  }
  Fn& operator=(const Fn&) = delete;
  ~Fn() {
    if (owner && k >= 1 && k <= kMaxTasks) {
      g_w->fLive[k].fetch_sub(1);
      ctl::note("fdtor", k);
    }
    owner = false;
    k = -1;
  }
  bool operator()() const {
    if (!owner || k < 1 || k > kMaxTasks) {
      ctl::note("uaf", 0);
      return true;
    }
    int kk = k;
    int idx = g_w->started[kk].fetch_add(1) + 1;
    int falseAt = g_w->sc.cfg[(size_t)kk].falseAt;
    ctl::note("begin", kk, idx);
    ctl::point("DrBody");
    ctl::note("end", kk, idx);
    return idx != falseAt;
  }
};

// ------------------------------------------------------------------------------------ scenarios
static Scenario parseScen(const std::string& s) {
  Scenario sc;
  sc.text = s;
  sc.cfg.resize(1);
  for (auto& part : drv::split(s, ';')) {
    if (part.empty())
      continue;
    if (part.rfind("w=", 0) == 0) {
      sc.w = atoi(part.c_str() + 2);
    } else if (part[0] == 't' && isdigit((unsigned char)part[1]) && part.find('=') != std::string::npos) {
      size_t eq = part.find('=');
      size_t k = (size_t)atoi(part.substr(1, eq - 1).c_str());
      auto f = drv::split(part.substr(eq + 1), '.');
      if (k < 1 || k > (size_t)kMaxTasks || f.size() != 6) {
        fprintf(stderr, "ERROR drv_timedtask: bad task spec %s\n", part.c_str());
        _exit(3);
      }
      if (sc.cfg.size() <= k)
        sc.cfg.resize(k + 1);
      TaskCfg c;
      c.at = atoi(f[0].c_str());
      c.per = atoi(f[1].c_str());
      c.times = atoi(f[2].c_str());
      c.steady = f[3] == "s";
      c.imm = f[4] == "i";
      c.falseAt = atoi(f[5].c_str());
      sc.cfg[k] = c;
    } else {
      auto nm = drv::split(part, ':');
      std::vector<Op> ops;
      for (auto& o : drv::split(nm.size() > 1 ? nm[1] : "", ',')) {
        if (o.empty())
          continue;
        Op d;
        size_t i = 0;
        while (i < o.size() && !isdigit((unsigned char)o[i]))
          ++i;
        d.op = o.substr(0, i);
        d.k = i < o.size() ? atoi(o.c_str() + i) : 0;
        ops.push_back(d);
      }
      sc.prog.emplace_back(nm[0], ops);
    }
  }
  return sc;
}

static bool inlineTask(const Scenario& sc, size_t k) {
  return sc.cfg[k].imm || sc.w <= 0; // a pool without threads runs what it is handed inline
}

static std::string resetLine(const Scenario& sc, const std::string& tag) {
  Json j;
  j.beginObj();
  j.kv("e", std::string("Reset"));
  j.kv("tag", tag);
  j.kv("scen", sc.text);
  j.key("workers").beginArr();
  for (int i = 0; i < sc.w; ++i)
    j.str("w" + std::to_string(i));
  j.endArr();
  j.key("cfg").beginArr();
  for (size_t k = 1; k < sc.cfg.size(); ++k) {
    j.beginObj();
    j.kv("at", sc.cfg[k].at);
    j.kv("per", sc.cfg[k].per);
    j.kv("times", sc.cfg[k].times);
    j.kvb("steady", sc.cfg[k].steady);
    j.kvb("inl", inlineTask(sc, k));
    j.kv("falseAt", sc.cfg[k].falseAt);
    j.endObj();
  }
  j.endArr();
  j.key("prog").beginObj();
  for (auto& th : sc.prog) {
    j.key(th.first.c_str()).beginArr();
    for (auto& o : th.second) {
      j.beginObj();
      j.kv("op", o.op);
      j.kv("k", o.k);
      j.endObj();
    }
    j.endArr();
  }
  j.endObj();
  j.endObj();
  return j.s;
}

// ------------------------------------------------------------------------------------ projection
static long long small(unsigned long long v) {
  // size_t values that wrapped below zero are logged as small negative numbers
  long long s = (long long)v;
  if (s > 1000000000LL)
    return 1000000000LL;
  if (s < -1000000000LL)
    return -1000000000LL;
  return s;
}

static void project(World* w, Json& j) {
  awaitJoiner();
  j.kv("now", g_now.load());
  size_t n = w->sc.cfg.size() - 1;
  j.key("tk").beginArr();
  for (size_t k = 1; k <= n; ++k) {
    j.beginObj();
    j.kv("fa", w->fLive[k].load());
    bool alive = false;
    long long rc = -1;
    if (w->hasWeak[k]) {
      rc = (long long)w->weak[k].use_count();
      alive = rc > 0;
    } else if (w->impl[k]) {
      alive = true; // schedule() is still running on the thread that holds the handle
    }
    j.kv("al", alive ? 1 : 0);
    j.kv("rc", alive ? rc : (w->hasWeak[k] ? 0 : -1));
    if (alive) {
      const auto* p = w->impl[k];
      j.kv("tr", small((unsigned long long)p->timesToRun.load()));
      j.kv("fl", (long long)p->flags.load());
      j.kv("ip", small((unsigned long long)p->inProgress.load()));
      j.kv("cnt", small((unsigned long long)p->count.load()));
      j.kv("nx", (long long)llround(p->nextAbsTime * 1000.0));
    } else {
      j.kv("tr", 0LL).kv("fl", 0LL).kv("ip", 0LL).kv("cnt", 0LL).kv("nx", 0LL);
    }
    j.endObj();
  }
  j.endArr();
  if (w->tts) {
    j.kv("up", 1);
    j.key("q").beginArr();
    for (auto& sp : w->tts->tasks_.c) {
      int id = 0;
      for (size_t k = 1; k <= n; ++k)
        if (w->impl[k] == sp.get())
          id = (int)k;
      j.num(id);
    }
    j.endArr();
    j.kv("run", w->tts->running_ ? 1 : 0);
    j.kv("ep", (long long)(w->tts->epoch_.epoch_.load() & 0xffff));
  } else {
    j.kv("up", 0);
    j.key("q").beginArr().endArr();
    j.kv("run", 0);
    j.kv("ep", 0);
  }
}

// ---------------------------------------------------------------------------------- operations
enum { OP_NEW, OP_SCHED, OP_CANCEL, OP_DETACH, OP_CALLS, OP_DEL, OP_TICK, OP_SYNC, OP_UP, OP_STOP, OP_DELPOOL };

static void doOp(World* w, const Op& o) {
  size_t k = (size_t)o.k;
  if (o.op == "new") {
    if (w->sc.w >= 0)
      w->pool = new dispenso::ThreadPool((size_t)w->sc.w, 32);
    w->tts = new dispenso::TimedTaskScheduler();
    ctl::note("ret", OP_NEW);
  } else if (o.op == "sched") {
    const TaskCfg& c = w->sc.cfg[k];
    tlsSchedK = (int)k;
    size_t times = c.times < 0 ? std::numeric_limits<size_t>::max() : (size_t)c.times;
    auto type = c.steady ? dispenso::TimedTaskType::kSteady : dispenso::TimedTaskType::kNormal;
    double at = c.at * 1e-3, per = c.per * 1e-3;
    if (c.imm)
      w->handle[k] = new dispenso::TimedTask(w->tts->schedule(w->imm, Fn((int)k), at, per, times, type));
    else
      w->handle[k] = new dispenso::TimedTask(w->tts->schedule(*w->pool, Fn((int)k), at, per, times, type));
    w->weak[k] = w->handle[k]->impl_;
    w->hasWeak[k] = true;
    tlsSchedK = 0;
    ctl::note("ret", OP_SCHED, (long long)k);
  } else if (o.op == "cancel") {
    w->handle[k]->cancel();
    ctl::note("ret", OP_CANCEL, (long long)k);
  } else if (o.op == "detach") {
    w->handle[k]->detach();
    ctl::note("ret", OP_DETACH, (long long)k);
  } else if (o.op == "calls") {
    size_t c = w->handle[k]->calls();
    ctl::note("ret", OP_CALLS, (long long)c);
  } else if (o.op == "del") {
    delete w->handle[k];
    w->handle[k] = nullptr;
    ctl::note("ret", OP_DEL, (long long)k);
  } else if (o.op == "tick") {
    g_now.fetch_add(1);
    ctl::note("ret", OP_TICK);
  } else if (o.op == "sync") {
    ctl::gate("DrSync", [w]() { return w->done.load() == w->nDrivers - 1; });
    ctl::note("ret", OP_SYNC);
  } else if (o.op == "up") {
    ctl::gate("DrUp", [w]() { return w->tts != nullptr; });
    ctl::note("ret", OP_UP);
  } else if (o.op == "stop") {
    auto* t = w->tts;
    delete t;
    w->tts = nullptr;
    ctl::note("ret", OP_STOP);
  } else if (o.op == "delpool") {
    auto* p = w->pool;
    delete p;
    w->pool = nullptr;
    ctl::note("ret", OP_DELPOOL);
  } else {
    fprintf(stderr, "ERROR drv_timedtask: unknown op %s\n", o.op.c_str());
    _exit(3);
  }
}

// A crash of the code under test (std::bad_function_call from calling the cleared std::function,
// a fault after a use-after-free) must not lose the trace: TLC judges what happened before it.
static void crashExit(const char* why) {
  static std::atomic<int> once{0};
  if (once.fetch_add(1) == 0 && g_trace) {
    std::string l = std::string("{\"e\":\"Crash\",\"why\":\"") + why + "\"}";
    g_trace->line(l);
    g_trace->flush();
    ++g_tot.executions;
    g_tot.print();
    fflush(stdout);
  }
  _exit(0);
}
static void onSignal(int sig) {
  crashExit(sig == SIGSEGV ? "SIGSEGV" : sig == SIGABRT ? "SIGABRT" : sig == SIGBUS ? "SIGBUS" : "signal");
}
static void onTerminate() {
  const char* why = "terminate";
  try {
    auto e = std::current_exception();
    if (e)
      std::rethrow_exception(e);
  } catch (const std::bad_function_call&) {
    why = "bad_function_call";
  } catch (...) {
    why = "exception";
  }
  crashExit(why);
}

static ctl::RunResult execute(const Scenario& sc, ctl::RunOptions opts, ctl::Trace& tr, const std::string& tag) {
  World* w = new World();
  w->sc = sc;
  w->nDrivers = (int)sc.prog.size();
  g_w = w;
  g_now.store(0);
  g_ttsEnded.store(0);
  g_inJoin.store(0);
  g_joinArrived.store(0);
  g_clockOn.store(1);
  tr.line(resetLine(sc, tag));
  ctl::Controller c(tr);
  ctl::setSiteFilter(siteFilter);
  c.setProjection([w](Json& j) { project(w, j); });
  for (auto& th : w->sc.prog) {
    const std::vector<Op>* ops = &th.second;
    c.addThread(th.first, [w, ops]() {
      for (auto& o : *ops) {
        ctl::point("DrOp"); // every driver op starts with its own step
        doOp(w, o);
      }
      w->done.fetch_add(1);
    });
  }
  ctl::RunResult res = c.run(opts);
  g_clockOn.store(0);
  if (res.completed) {
    tr.line("{\"e\":\"End\"}");
    // a scenario that forgot its teardown: not part of the trace
    for (int k = 1; k <= kMaxTasks; ++k)
      delete w->handle[k];
    delete w->tts;
    delete w->pool;
    g_w = nullptr;
    delete w;
  }
  return res;
}

// =================================================================================== free-running
// E5: the real scheduler thread, the real pool, the real clock.  One record per scenario; all
// times are measured outside the library with steady_clock (R5).
namespace fr {
using Clock = std::chrono::steady_clock;
struct Rec {
  std::atomic<int> entered{0}, exited{0}, lateStarts{0};
  std::atomic<long long> firstUs{-1}, firstLibUs{-1};
  double t0Lib = 0;
  std::atomic<int> destroyed{0};
  std::atomic<int> fdead{0}, uaf{0};
  Clock::time_point t0;
  int falseAt = 0;
  int bodyUs = 0;
};
struct FFn {
  Rec* r;
  bool owner;
  explicit FFn(Rec* rr) : r(rr), owner(true) {}
  FFn(const FFn& o) : r(o.r), owner(o.owner) {}
  FFn(FFn&& o) noexcept : r(o.r), owner(o.owner) {
    o.owner = false;
  }
  ~FFn() {
    if (owner)
      r->fdead.fetch_add(1);
    owner = false;
  }
  bool operator()() const {
    if (!owner || r->fdead.load())
      r->uaf.fetch_add(1);
    double lib = dispenso::getTime();
    long long us = std::chrono::duration_cast<std::chrono::microseconds>(Clock::now() - r->t0).count();
    int idx = r->entered.fetch_add(1) + 1;
    if (idx == 1) {
      r->firstUs.store(us);
      r->firstLibUs.store((long long)std::floor((lib - r->t0Lib) * 1e6));
    }
    if (r->destroyed.load(std::memory_order_acquire))
      r->lateStarts.fetch_add(1);
    if (r->bodyUs)
      std::this_thread::sleep_for(std::chrono::microseconds(r->bodyUs));
    r->exited.fetch_add(1);
    return idx != r->falseAt;
  }
};
} // namespace fr

static int runFree(const drv::Args& a) {
  using namespace fr;
  ctl::Trace tr(a.str("out", "timed_records.ndjson"));
  uint64_t rng = (uint64_t)a.num("seed", 1) * 0x9e3779b97f4a7c15ULL + 77;
  long long n = a.num("free", 20);
  dispenso::ThreadPool pool(2);
  dispenso::TimedTaskScheduler tts;
  dispenso::ImmediateInvoker imm;
  for (long long i = 0; i < n; ++i) {
    Rec* r = new Rec(); // leaked on purpose: a late (buggy) invocation must not fault the recorder
    int delayMs = (int)(ctl::splitmix(rng) % 6);
    int perMs = 1 + (int)(ctl::splitmix(rng) % 3);
    int times = 1 + (int)(ctl::splitmix(rng) % 3);
    bool steady = ctl::splitmix(rng) % 2;
    // 0 ImmediateInvoker, 1 pool.  (NewThreadInvoker cannot be used: TimedTaskImpl hands it a `mutable`
    // wrapper, NewThreadInvoker::schedule calls it through a const capture -> does not compile.)
    int kind = (int)(ctl::splitmix(rng) % 2);
    int action = (int)(ctl::splitmix(rng) % 4); // 0 let it finish, 1 cancel at x, 2 destroy at x, 3 detach
    r->falseAt = (ctl::splitmix(rng) % 3 == 0) ? 1 + (int)(ctl::splitmix(rng) % (unsigned)times) : 0;
    r->bodyUs = (int)(ctl::splitmix(rng) % 3) * 300;
    int actAtUs = (int)(ctl::splitmix(rng) % (unsigned)((delayMs + perMs * times + 1) * 1000));
    auto type = steady ? dispenso::TimedTaskType::kSteady : dispenso::TimedTaskType::kNormal;
    // both clocks are read before the library computes the absolute time: elapsed over-estimates (R5)
    r->t0Lib = dispenso::getTime();
    r->t0 = Clock::now();
    auto dly = std::chrono::microseconds(delayMs * 1000);
    auto per = std::chrono::microseconds(perMs * 1000);
    dispenso::TimedTask* h = nullptr;
    if (kind == 0)
      h = new dispenso::TimedTask(tts.schedule(imm, FFn(r), dly, per, (size_t)times, type));
    else
      h = new dispenso::TimedTask(tts.schedule(pool, FFn(r), dly, per, (size_t)times, type));
    int atCancel = -1, inProgAtDtor = 0, callsBefore = -1;
    long long settleUs = (long long)(delayMs + perMs * times) * 1000 + 30000;
    if (action == 1) {
      std::this_thread::sleep_for(std::chrono::microseconds(actAtUs));
      h->cancel();
      atCancel = r->entered.load();
    } else if (action == 2) {
      std::this_thread::sleep_for(std::chrono::microseconds(actAtUs));
    } else if (action == 3) {
      h->detach();
    }
    if (action != 2)
      std::this_thread::sleep_for(std::chrono::microseconds(settleUs));
    callsBefore = (int)h->calls();
    int enteredBeforeDtor = r->entered.load();
    delete h;
    // ~TimedTask returned: (not detached) nothing in progress, nothing can start, functor destroyed
    int en = r->entered.load(), ex = r->exited.load();
    inProgAtDtor = en - ex;
    int fdeadAtDtor = r->fdead.load();
    r->destroyed.store(1, std::memory_order_release);
    std::this_thread::sleep_for(std::chrono::microseconds(action == 2 ? settleUs : 3000));
    Json j;
    j.beginObj();
    j.kv("e", std::string("Rec"));
    j.kv("delay", delayMs * 1000).kv("per", perMs * 1000).kv("times", times).kv("steady", steady ? 1 : 0);
    j.kv("kind", kind).kv("action", action).kv("falseAt", r->falseAt);
    j.kv("n", r->entered.load()).kv("first", r->firstUs.load()).kv("firstLib", r->firstLibUs.load());
    j.kv("calls", callsBefore).kv("enteredAtCalls", enteredBeforeDtor);
    j.kv("atCancel", atCancel);
    j.kv("inprog", inProgAtDtor).kv("late", r->lateStarts.load());
    j.kv("fdead", fdeadAtDtor).kv("uaf", r->uaf.load());
    j.endObj();
    tr.line(j.s);
  }
  tr.flush();
  printf("DRIVER executions=%lld steps=0 completed=%lld deadlocks=0 diverged=0 stuck=0\n", n, n);
  fflush(stdout);
  _exit(0);
}

int main(int argc, char** argv) {
  drv::Args a(argc, argv);
  if (a.has("free"))
    return runFree(a);
  g_controlled = true;
  ctl::Trace tr(a.str("out", "trace.ndjson"));
  g_trace = &tr;
  std::set_terminate(onTerminate);
  signal(SIGSEGV, onSignal);
  signal(SIGBUS, onSignal);
  signal(SIGABRT, onSignal);
  std::vector<Scenario> scens;
  if (a.has("scenfile")) {
    FILE* f = fopen(a.str("scenfile").c_str(), "r");
    if (!f) {
      fprintf(stderr, "ERROR drv_timedtask: cannot open %s\n", a.str("scenfile").c_str());
      return 3;
    }
    char* buf = nullptr;
    size_t cap = 0;
    ssize_t len;
    while ((len = getline(&buf, &cap, f)) > 0) {
      std::string s(buf, (size_t)len);
      while (!s.empty() && (s.back() == '\n' || s.back() == '\r'))
        s.pop_back();
      if (!s.empty() && s[0] != '#')
        scens.push_back(parseScen(s));
    }
    free(buf);
    fclose(f);
  } else {
    scens.push_back(parseScen(a.str("scen", "w=-1;t1=1.0.1.n.i.0;main:new,sched1,tick,del1,stop")));
  }
  uint64_t seed = (uint64_t)a.num("seed", 1);
  bool stop = false;
  if (a.has("schedules")) {
    auto scheds = ctl::readSchedules(a.str("schedules"));
    for (size_t i = 0; i < scheds.size() && !stop; ++i) {
      ctl::RunOptions o;
      o.mode = ctl::RunOptions::Replay;
      o.schedule = &scheds[i];
      o.allowTimeout = true;
      o.maxSteps = (size_t)a.num("maxsteps", 20000);
      auto r = execute(scens[0], o, tr, "replay" + std::to_string(i));
      g_tot.add(r);
      if (!r.completed)
        stop = true;
    }
  } else {
    long long n = a.num("random", 10);
    for (size_t si = 0; si < scens.size() && !stop; ++si) {
      for (long long i = 0; i < n; ++i) {
        ctl::RunOptions o;
        o.mode = ctl::RunOptions::Random;
        o.seed = seed * 1000003ULL + (uint64_t)i * 7919ULL + si;
        o.pctDepth = (int)a.num("pct", 0);
        o.allowTimeout = true;
        o.allowSpurious = false;
        o.maxSteps = (size_t)a.num("maxsteps", 20000);
        auto r = execute(scens[si], o, tr, "s" + std::to_string(si) + "r" + std::to_string(o.seed % 100000));
        g_tot.add(r);
        if (!r.completed) {
          stop = true; // parked threads cannot be unwound: one incomplete execution per process
          break;
        }
      }
    }
  }
  tr.flush();
  g_tot.print();
  fflush(stdout);
  _exit(0);
}
