// Driver for property C33: concurrent growth of dispenso::ConcurrentVector (spec/cvec/CVec.tla).
//   --out FILE            trace (ndjson), validated by spec/cvec/CVecTrace.tla
//   --F 1|2|4             first bucket length (selected through sizeof(T))
//   --strat 0|1|2         kFullBufferAhead | kHalfBufferAhead | kAsNeeded
//   --inl 0|1 --fast 0|1  buffer pointers inline / kIteratorPreferSpeed
//   --n0 N                elements 1 .. N pushed by the constructing thread before the run
//   --prog "g1:push.10,gtal.7;g2:growr.3.20;r:rd.1,size"
//        push.V pushm.V emplace.V | growd.N growv.N.V growr.N.V growi.N.V gen.N.V | gtal.N gtalv.N.V
//        | size  end  rd.I
//   --schedules FILE      replay each schedule of FILE (one JSON array per line)
//   --random N --seed S [--pct D] [--randprog]     N random controlled executions; with --randprog
//        every execution draws its own program AND trait combination (--F/--strat/... ignored)
//   --stress N --seed S   E5: N free-running rounds (real threads, no controller, inert hooks); every
//        round draws a trait combination and a program for 2-4 growers (+ sometimes a reader), runs it
//        truly concurrently on a fresh vector and writes ONE observation record, validated by
//        spec/cvec/CVecObs.tla
#include <dispenso/concurrent_vector.h>

#include <sched.h>
#include <stdlib.h>
#include <time.h>
#include <unistd.h>

#include <mutex>
#include <thread>

#include "../ctl/ctl.h"
#include "../ctl/drv_common.h"
#include "../ctl/tracked.h"

using ctl::Json;

namespace {

constexpr int kDefaultId = 99;
constexpr int kNB = 8; // buffers_ slots projected
constexpr int kLogN = 24; // element slots projected

template <size_t N>
struct Elem : ctl::Tracked {
  char pad[N - sizeof(ctl::Tracked)];
  Elem() noexcept : ctl::Tracked(kDefaultId) {}
  explicit Elem(int i) noexcept : ctl::Tracked(i) {}
  Elem(const Elem& o) noexcept : ctl::Tracked(static_cast<const ctl::Tracked&>(o)) {}
  Elem(Elem&& o) noexcept : ctl::Tracked(static_cast<ctl::Tracked&&>(o)) {}
  Elem& operator=(const Elem& o) noexcept {
    ctl::Tracked::operator=(static_cast<const ctl::Tracked&>(o));
    return *this;
  }
  Elem& operator=(Elem&& o) noexcept {
    ctl::Tracked::operator=(static_cast<ctl::Tracked&&>(o));
    return *this;
  }
};

template <bool Inl, bool Fast, int Strat>
struct Traits {
  static constexpr bool kPreferBuffersInline = Inl;
  static constexpr dispenso::ConcurrentVectorReallocStrategy kReallocStrategy =
      static_cast<dispenso::ConcurrentVectorReallocStrategy>(Strat);
  static constexpr bool kIteratorPreferSpeed = Fast;
};

struct OpDesc {
  std::string op;
  long long n = 0, v = 0;
};
using Program = std::vector<std::pair<std::string, std::vector<OpDesc>>>;

struct Config {
  int f = 2, strat = 2, inl = 1, fast = 1, n0 = 0;
};

bool isSingle(const std::string& o) {
  return o == "push" || o == "pushm" || o == "emplace";
}
bool isRange(const std::string& o) {
  return o == "growd" || o == "growv" || o == "growr" || o == "growi" || o == "gen";
}
bool isGtal(const std::string& o) {
  return o == "gtal" || o == "gtalv";
}

Program parseProg(const std::string& s) {
  Program p;
  for (auto& th : drv::split(s, ';')) {
    if (th.empty())
      continue;
    auto nm = drv::split(th, ':');
    std::vector<OpDesc> ops;
    for (auto& o : drv::split(nm.size() > 1 ? nm[1] : "", ',')) {
      if (o.empty())
        continue;
      auto q = drv::split(o, '.');
      OpDesc d;
      d.op = q[0];
      if (isSingle(d.op)) {
        d.n = 1;
        d.v = q.size() > 1 ? atoll(q[1].c_str()) : 1;
      } else {
        d.n = q.size() > 1 ? atoll(q[1].c_str()) : 0;
        d.v = q.size() > 2 ? atoll(q[2].c_str()) : 0;
      }
      ops.push_back(d);
    }
    p.emplace_back(nm[0], ops);
  }
  return p;
}

std::string resetLine(const Program& prog, const Config& c, const std::string& tag) {
  Json j;
  j.beginObj();
  j.kv("e", std::string("Reset"));
  j.kv("F", c.f).kv("strat", c.strat).kv("n0", c.n0).kv("inl", c.inl).kv("fast", c.fast);
  j.kv("tag", tag);
  j.key("prog").beginObj();
  for (auto& th : prog) {
    j.key(th.first.c_str()).beginArr();
    for (auto& o : th.second) {
      j.beginObj();
      j.kv("op", o.op);
      j.kv("n", o.n);
      j.kv("v", o.v);
      j.endObj();
    }
    j.endArr();
  }
  j.endObj();
  j.endObj();
  return j.s;
}

int ilog2(size_t x) {
  int r = 0;
  while (x > 1) {
    x >>= 1;
    ++r;
  }
  return r;
}

// The driver's own bucket arithmetic (not the library's), used only to find where slot i lives.
void bucketOf(size_t f, size_t i, size_t& b, size_t& sub) {
  if (i < f) {
    b = 0;
    sub = i;
    return;
  }
  int l = ilog2(i);
  b = (size_t)(l + 1 - ilog2(f));
  sub = i - (size_t(1) << l);
}
size_t bucketCap(size_t f, size_t b) {
  return b == 0 ? f : f << (b - 1);
}

template <class V>
struct Exec {
  using E = typename V::value_type;

  static long long doOp(V& v, const OpDesc& o, E* ref, typename V::iterator* it) {
    const std::string& k = o.op;
    // garbage positions must reach TLC as a mismatch, not abort the trace writer (32-bit ints)
    auto pos = [&](typename V::iterator r) {
      long long d = (long long)(r - v.begin());
      return d > 1000000 || d < -1000000 ? -999999LL : d;
    };
    int val = (int)o.v;
    if (k == "push") {
      E x(val);
      return pos(v.push_back(static_cast<const E&>(x)));
    }
    if (k == "pushm") {
      E x(val);
      return pos(v.push_back(std::move(x)));
    }
    if (k == "emplace")
      return pos(v.emplace_back(val));
    if (k == "growd")
      return pos(v.grow_by((size_t)o.n));
    if (k == "growv") {
      E x(val);
      return pos(v.grow_by((size_t)o.n, x));
    }
    if (k == "growr") {
      std::vector<E> src;
      src.reserve((size_t)o.n);
      for (long long i = 0; i < o.n; ++i)
        src.emplace_back(val + (int)i);
      return pos(v.grow_by(src.begin(), src.end()));
    }
    if (k == "growi") {
      switch (o.n) {
        case 0:
          return pos(v.grow_by(std::initializer_list<E>{}));
        case 1:
          return pos(v.grow_by({E(val)}));
        case 2:
          return pos(v.grow_by({E(val), E(val + 1)}));
        case 3:
          return pos(v.grow_by({E(val), E(val + 1), E(val + 2)}));
        default:
          fprintf(stderr, "ERROR drv_cvec: growi supports 0..3 elements\n");
          _exit(3);
      }
    }
    if (k == "gen") {
      int next = val;
      return pos(v.grow_by_generator((size_t)o.n, [&next]() { return E(next++); }));
    }
    if (k == "gtal")
      return pos(v.grow_to_at_least((size_t)o.n));
    if (k == "gtalv") {
      E x(val);
      return pos(v.grow_to_at_least((size_t)o.n, x));
    }
    if (k == "size")
      return (long long)v.size();
    if (k == "end")
      return (long long)(v.end() - v.begin());
    if (k == "rd") {
      // element o.n was published before the threads started: read it through the reference and
      // the iterator taken when this thread started, and through operator[] now
      ctl::point("RdElem", &v);
      ctl::ret(ref->id);
      ctl::ret((*it)->id);
      return v[(size_t)o.n].id;
    }
    fprintf(stderr, "ERROR drv_cvec: unknown op %s\n", k.c_str());
    _exit(3);
  }

  static void project(V* v, const Config& c, Json& j) {
    auto& reg = ctl::Registry::get();
    j.kv("size", (long long)v->size_.load(std::memory_order_relaxed));
    E* ptr[kNB];
    for (int b = 0; b < kNB; ++b)
      ptr[b] = v->buffers_[(size_t)b].load(std::memory_order_relaxed);
    // buffers_[b] as [first bucket of the contiguous run it belongs to, element offset in that run]
    j.key("buf").beginArr();
    int runStart = 0;
    for (int b = 0; b < kNB; ++b) {
      j.beginArr();
      if (ptr[b]) {
        bool contiguous =
            b > 0 && ptr[b - 1] && ptr[b] == ptr[b - 1] + bucketCap((size_t)c.f, (size_t)b - 1);
        if (!contiguous)
          runStart = b;
        long long off = ptr[b] - ptr[runStart];
        j.num(runStart);
        j.num(off >= 0 && off < (1 << 20) ? off : -1);
      }
      j.endArr();
    }
    j.endArr();
    j.key("dl").beginArr();
    for (int b = 0; b < kNB; ++b)
      j.num(v->buffers_.shouldDealloc_[b] ? 1 : 0);
    j.endArr();
    // cachedPtrs_[b]: 0 null, 1 equal to buffers_[b] (or set while buffers_[b] is still null), 2 differs
    j.key("cs").beginArr();
    for (int b = 0; b < kNB; ++b) {
#if DISPENSO_HAS_CACHED_PTRS
      E* cp = v->cachedPtrs_[b];
      j.num(!cp ? 0 : (!ptr[b] || cp == ptr[b]) ? 1 : 2);
#else
      j.num(ptr[b] ? 1 : 0);
#endif
    }
    j.endArr();
    j.key("data").beginArr();
    for (int i = 0; i < kLogN; ++i) {
      size_t b, sub;
      bucketOf((size_t)c.f, (size_t)i, b, sub);
      int id = 0;
      if (b < (size_t)kNB && ptr[b]) {
        const void* p = ptr[b] + sub;
        if (reg.isLive(p)) {
          id = reg.at(p);
          if (id == 0)
            id = -1; // live but moved-from
        }
      }
      j.num(id);
    }
    j.endArr();
    j.kv("errs", reg.errorCount());
  }

  static ctl::RunResult run(
      const Program& prog,
      const Config& c,
      const ctl::RunOptions& opts,
      ctl::Trace& tr,
      const std::string& tag) {
    ctl::Registry::get().reset();
    void* mem = nullptr;
    if (posix_memalign(&mem, alignof(V) < 64 ? 64 : alignof(V), sizeof(V)) != 0)
      _exit(3);
    V* v = new (mem) V();
    if ((int)v->firstBucketLen_ != c.f) {
      fprintf(stderr, "ERROR drv_cvec: first bucket is %zu, expected %d\n", v->firstBucketLen_, c.f);
      _exit(3);
    }
    for (int i = 1; i <= c.n0; ++i)
      v->emplace_back(i);
    tr.line(resetLine(prog, c, tag));
    ctl::RunResult res;
    {
      ctl::Controller ctlr(tr);
      ctlr.setProjection([v, &c](Json& j) { project(v, c, j); });
      for (auto& th : prog) {
        const std::vector<OpDesc>* ops = &th.second;
        ctlr.addThread(th.first, [v, ops]() {
          // references / iterators to already published elements, taken before anything grows
          std::vector<E*> refs(ops->size(), nullptr);
          std::vector<typename V::iterator> its(ops->size());
          for (size_t k = 0; k < ops->size(); ++k)
            if ((*ops)[k].op == "rd") {
              refs[k] = &(*v)[(size_t)(*ops)[k].n];
              its[k] = v->begin() + (ssize_t)(*ops)[k].n;
            }
          for (size_t k = 0; k < ops->size(); ++k) {
            long long r = doOp(*v, (*ops)[k], refs[k], &its[k]);
            ctl::ret(r);
          }
        });
      }
      res = ctlr.run(opts);
    }
    if (res.completed) {
      // the destructor runs as a logical thread of its own so that the CvFree notes are recorded
      ctl::Controller dctl(tr);
      dctl.setProjection([](Json& j) {
        auto& reg = ctl::Registry::get();
        j.kv("live", reg.liveCount());
        j.kv("bal", reg.ctors - reg.dtors);
        j.kv("errs", reg.errorCount());
      });
      dctl.addThread("dtor", [v]() { v->~V(); });
      ctl::RunOptions o;
      o.mode = ctl::RunOptions::Random;
      o.seed = 1;
      ctl::RunResult dr = dctl.run(o);
      if (!dr.completed) {
        res.completed = false;
        res.stuck = true;
      }
      free(mem);
    }
    return res;
  }
};

using RunFn = ctl::RunResult (*)(
    const Program&,
    const Config&,
    const ctl::RunOptions&,
    ctl::Trace&,
    const std::string&);

template <size_t N, bool Inl, bool Fast>
RunFn pickStrat(int strat) {
  switch (strat) {
    case 0:
      return &Exec<dispenso::ConcurrentVector<Elem<N>, Traits<Inl, Fast, 0>>>::run;
    case 1:
      return &Exec<dispenso::ConcurrentVector<Elem<N>, Traits<Inl, Fast, 1>>>::run;
    case 2:
      return &Exec<dispenso::ConcurrentVector<Elem<N>, Traits<Inl, Fast, 2>>>::run;
  }
  return nullptr;
}
template <size_t N>
RunFn pickTraits(const Config& c) {
  if (c.inl)
    return c.fast ? pickStrat<N, true, true>(c.strat) : pickStrat<N, true, false>(c.strat);
  return c.fast ? pickStrat<N, false, true>(c.strat) : pickStrat<N, false, false>(c.strat);
}
RunFn pick(const Config& c) {
  RunFn f = nullptr;
  if (c.f == 1)
    f = pickTraits<256>(c);
  else if (c.f == 2)
    f = pickTraits<128>(c);
  else if (c.f == 4)
    f = pickTraits<64>(c);
  if (!f) {
    fprintf(stderr, "ERROR drv_cvec: unsupported configuration\n");
    _exit(3);
  }
  return f;
}

// Random program: 2-3 growers with 1-3 operations each (amounts mostly 1..3), sometimes a reader;
// the total size stays within the projected slots.
Program randomProgram(uint64_t& rng, Config& c) {
  auto rnd = [&](int n) { return (int)(ctl::splitmix(rng) % (uint64_t)n); };
  static const int fs[] = {1, 2, 2, 4};
  c.f = fs[rnd(4)];
  c.strat = rnd(3);
  c.inl = rnd(2);
  c.fast = rnd(2);
  c.n0 = rnd(c.f == 4 ? 10 : 6);
  Program p;
  int growers = 2 + rnd(2);
  long long worst = c.n0; // upper bound of the final size
  for (int t = 0; t < growers; ++t) {
    std::vector<OpDesc> ops;
    int nops = 1 + rnd(3);
    int base = (t + 1) * 100;
    for (int k = 0; k < nops; ++k) {
      OpDesc d;
      int r = rnd(20);
      d.v = base + k * 10;
      if (r < 6) {
        static const char* nm[] = {"push", "pushm", "emplace"};
        d.op = nm[rnd(3)];
        d.n = 1;
      } else if (r < 16) {
        static const char* nm[] = {"growd", "growv", "growr", "growi", "gen"};
        d.op = nm[rnd(5)];
        int a = rnd(10);
        d.n = a == 0 ? 0 : a < 8 ? 1 + rnd(3) : 4 + rnd(3);
        if (d.op == "growi" && d.n > 3)
          d.n = 3;
      } else {
        d.op = rnd(2) ? "gtal" : "gtalv";
        d.n = 1 + rnd(12);
      }
      long long add = isGtal(d.op) ? d.n : d.n; // gtal can add at most n elements
      if (worst + add > kLogN - 1)
        continue;
      worst += add;
      ops.push_back(d);
    }
    if (ops.empty()) {
      OpDesc d;
      d.op = "size";
      ops.push_back(d);
    }
    p.emplace_back("g" + std::to_string(t + 1), ops);
  }
  if (rnd(3) == 0) {
    std::vector<OpDesc> ops;
    int nops = 1 + rnd(3);
    for (int k = 0; k < nops; ++k) {
      OpDesc d;
      int r = rnd(3);
      if (r == 0 && c.n0 > 0) {
        d.op = "rd";
        d.n = rnd(c.n0);
      } else
        d.op = r == 1 ? "size" : "end";
      ops.push_back(d);
    }
    p.emplace_back("r", ops);
  }
  return p;
}

} // namespace


// ------------------------------------------------------------------------------------------ E5
// Free-running rounds.  No ctl::Controller exists, so every DISPENSO_VERIF_POINT is inert and the
// threads race inside what the controlled engines treat as one atomic step.  The record of a round
// contains only what a user of the public API can observe: what every call returned (in per-thread
// program order), size() after the call, and - after all threads were joined - size(), the
// contents and the element lifetime counters.
namespace stress {

constexpr int kMaxGrowers = 4;
constexpr int kReaderIdx = kMaxGrowers; // worker index of the reader
constexpr int kWorkers = kMaxGrowers + 1;
constexpr int kMaxOps = 6;
constexpr int kMaxN0 = 12;
constexpr long long kMaxData = 2048; // contents logged at most up to this index
constexpr uint32_t kLive = 0x4C495645u, kDead = 0xDEADDEADu;

// per OS thread: the tag default-constructed elements get, and lifetime counters (no sharing)
struct alignas(128) Slot {
  int tag = 0;
  long long ctors = 0, dtors = 0, dbl = 0, baddtor = 0;
};
Slot g_slots[kWorkers + 1]; // [0] main, [1 + w] worker w
thread_local Slot* t_slot = &g_slots[0];

// Element: a value, and a liveness word that tells construction over a live object and destruction
// of a dead one.  A default-constructed element takes the tag of the operation its thread is
// executing, so that the owner of EVERY slot can be read off the final contents.
template <size_t N>
struct SElem {
  int val;
  uint32_t magic;
  char pad[N - 2 * sizeof(int)];
  void init(int v) noexcept {
    Slot* s = t_slot;
    if (*reinterpret_cast<volatile uint32_t*>(&magic) == kLive)
      ++s->dbl; // constructed over a live element
    magic = kLive;
    val = v;
    ++s->ctors;
  }
  SElem() noexcept {
    init(t_slot->tag);
  }
  explicit SElem(int v) noexcept {
    init(v);
  }
  SElem(const SElem& o) noexcept {
    init(o.val);
  }
  SElem(SElem&& o) noexcept {
    init(o.val);
  }
  SElem& operator=(const SElem& o) noexcept {
    val = o.val;
    return *this;
  }
  SElem& operator=(SElem&& o) noexcept {
    val = o.val;
    return *this;
  }
  ~SElem() {
    Slot* s = t_slot;
    if (*reinterpret_cast<volatile uint32_t*>(&magic) != kLive)
      ++s->baddtor; // destroyed twice / never constructed
    magic = kDead;
    ++s->dtors;
  }
};

enum Kind { kPush, kPushm, kEmplace, kGrowd, kGrowv, kGrowr, kGrowi, kGen, kGtal, kGtalv, kNumKinds };
const char* const kKindName[kNumKinds] =
    {"push", "pushm", "emplace", "growd", "growv", "growr", "growi", "gen", "gtal", "gtalv"};
inline bool kindIsGtal(int k) {
  return k == kGtal || k == kGtalv;
}
// element j of the operation holds v + j (distinct values) or v (one value for the whole range)
inline bool kindCounts(int k) {
  return k == kGrowr || k == kGrowi || k == kGen;
}

struct SOp {
  int kind = 0;
  long long n = 0; // growth amount / grow_to_at_least target
  int v = 0; // value tag: worker * 100000 + op index * 100
  long long p = -1; // returned iterator - begin()
  long long s = -1; // size() right after the call returned
};
struct Work {
  int nops = 0;
  SOp ops[kMaxOps];
  int spin = 0;
  long long mis = 0; // a reference / iterator taken earlier did not read its value
  long long reads = 0;
};
struct Final {
  long long size = 0, enddist = 0, itmis = 0;
  std::vector<long long> data;
};

inline long long clip(long long x) {
  return x > 100000000LL || x < -100000000LL ? -99999999LL : x;
}

struct Shared {
  std::atomic<long long> go{-1}; // round the workers may run
  std::atomic<int> arrived{0}; // workers that have seen the round start (rendezvous)
  std::atomic<unsigned long long> startAt{0}; // tick at which the workers start (0: not yet known)
  std::atomic<int> done{0}; // workers that finished the round
  std::atomic<int> growersDone{0};
  std::atomic<int> quit{0};
  std::atomic<long long> beat{0}; // wall clock (ns) of the last sign of life of the main thread
  std::atomic<long long> round{0};
  void* vec = nullptr;
  int growers = 0, n0 = 0;
  bool reader = false;
  Work w[kWorkers];
  void (*growerFn)(void*, Work&) = nullptr;
  void (*readerFn)(void*, int, Work&, std::atomic<int>&, int) = nullptr;
};
Shared g_sh;
std::mutex g_outMu;
FILE* g_out = nullptr;
long long g_roundsDone = 0, g_opsDone = 0;

long long nowNs() {
  timespec ts;
  clock_gettime(CLOCK_MONOTONIC, &ts);
  return (long long)ts.tv_sec * 1000000000LL + ts.tv_nsec;
}
#if defined(__x86_64__) || defined(__i386__)
inline unsigned long long ticks() {
  return __builtin_ia32_rdtsc();
}
constexpr unsigned long long kStartDelayTicks = 6000;
#else
inline unsigned long long ticks() {
  return (unsigned long long)nowNs();
}
constexpr unsigned long long kStartDelayTicks = 2000;
#endif
inline void relax(unsigned& n) {
  if ((++n & 0xffff) == 0)
    sched_yield();
}

template <class V>
struct SX {
  using E = typename V::value_type;
  using It = typename V::iterator;

  static void* create(const Config& c) {
    void* mem = nullptr;
    if (posix_memalign(&mem, alignof(V) < 64 ? 64 : alignof(V), sizeof(V)) != 0)
      _exit(3);
    V* v = new (mem) V();
    if ((int)v->firstBucketLen_ != c.f) {
      fprintf(stderr, "ERROR drv_cvec: first bucket is %zu, expected %d\n", v->firstBucketLen_, c.f);
      _exit(3);
    }
    for (int i = 1; i <= c.n0; ++i)
      v->emplace_back(i);
    return v;
  }

  static It doOp(V& v, const SOp& o) {
    int val = o.v;
    size_t n = (size_t)o.n;
    switch (o.kind) {
      case kPush: {
        E x(val);
        return v.push_back(static_cast<const E&>(x));
      }
      case kPushm: {
        E x(val);
        return v.push_back(std::move(x));
      }
      case kEmplace:
        return v.emplace_back(val);
      case kGrowd:
        return v.grow_by(n); // default construction: the element takes t_slot->tag == val
      case kGrowv: {
        E x(val);
        return v.grow_by(n, x);
      }
      case kGrowr: {
        std::vector<E> src;
        src.reserve(n);
        for (size_t i = 0; i < n; ++i)
          src.emplace_back(val + (int)i);
        return v.grow_by(src.begin(), src.end());
      }
      case kGrowi:
        switch (n) {
          case 0:
            return v.grow_by(std::initializer_list<E>{});
          case 1:
            return v.grow_by({E(val)});
          case 2:
            return v.grow_by({E(val), E(val + 1)});
          default:
            return v.grow_by({E(val), E(val + 1), E(val + 2)});
        }
      case kGen: {
        int next = val;
        return v.grow_by_generator(n, [&next]() { return E(next++); });
      }
      case kGtal:
        return v.grow_to_at_least(n);
      default: {
        E x(val);
        return v.grow_to_at_least(n, x);
      }
    }
  }

  struct Saved {
    It it;
    E* ref;
    long long idx;
    int val;
  };

  static void grower(void* pv, Work& w) {
    V& v = *static_cast<V*>(pv);
    Saved saved[2 * kMaxOps];
    int ns = 0;
    for (volatile int k = 0; k < w.spin; ++k) {
    }
    for (int i = 0; i < w.nops; ++i) {
      SOp& o = w.ops[i];
      t_slot->tag = o.v;
      It ret = doOp(v, o);
      long long p = (long long)(ret - v.begin());
      long long s = (long long)v.size();
      o.p = clip(p);
      o.s = clip(s);
      // the range [p, p + n) of a push / grow_by belongs to this thread and is constructed: keep the
      // returned iterator, an iterator to the last element and references to both.  (The iterator a
      // grow_to_at_least returns may point to an element another thread is still constructing.)
      if (!kindIsGtal(o.kind) && o.n > 0) {
        if (p < 0 || p + o.n > s)
          ++w.mis; // not dereferenced; the validator rejects p / s anyway
        else {
          saved[ns++] = Saved{ret, &*ret, p, o.v};
          if (o.n > 1) {
            It last = ret + (ssize_t)(o.n - 1);
            saved[ns++] = Saved{last, &*last, p + o.n - 1, kindCounts(o.kind) ? o.v + (int)o.n - 1 : o.v};
          }
        }
      }
      // every reference and iterator taken earlier still reads the value its owner wrote
      for (int q = 0; q < ns; ++q) {
        const Saved& z = saved[q];
        if (z.ref->val != z.val)
          ++w.mis;
        if (z.it->val != z.val || &*z.it != z.ref)
          ++w.mis;
        if (&v[(size_t)z.idx] != z.ref || (long long)(z.it - v.begin()) != z.idx)
          ++w.mis;
      }
    }
  }

  // reads the elements published before the round (values 1 .. n0) through references and iterators
  // taken before anything grew, and through operator[], until every grower is done
  static void reader(void* pv, int n0, Work& w, std::atomic<int>& growersDone, int growers) {
    V& v = *static_cast<V*>(pv);
    E* refs[kMaxN0];
    It its[kMaxN0];
    for (int i = 0; i < n0; ++i) {
      refs[i] = &v[(size_t)i];
      its[i] = v.begin() + (ssize_t)i;
    }
    long long last = (long long)v.size();
    if (last < n0)
      ++w.mis;
    for (volatile int k = 0; k < w.spin; ++k) {
    }
    for (;;) {
      bool fin = growersDone.load(std::memory_order_acquire) >= growers;
      for (int i = 0; i < n0; ++i) {
        if (refs[i]->val != i + 1 || its[i]->val != i + 1 || v[(size_t)i].val != i + 1)
          ++w.mis;
        if (&*its[i] != refs[i] || (long long)(its[i] - v.begin()) != i)
          ++w.mis;
      }
      long long s = (long long)v.size();
      if (s < last) // size() never shrinks while the vector only grows
        ++w.mis;
      last = s;
      ++w.reads;
      if (fin)
        break;
    }
  }

  static void finish(void* pv, Final& f) {
    V* v = static_cast<V*>(pv);
    f.size = clip((long long)v->size());
    f.enddist = clip((long long)(v->end() - v->begin()));
    long long n = f.size < 0 ? 0 : (f.size > kMaxData ? kMaxData : f.size);
    f.data.clear();
    for (long long i = 0; i < n; ++i)
      f.data.push_back(clip((*v)[(size_t)i].val));
    // a traversal with iterators yields the same elements as operator[]
    long long i = 0;
    f.itmis = 0;
    if (f.enddist == f.size) {
      for (auto it = v->begin(); it != v->end() && i < n; ++it, ++i)
        if (clip(it->val) != f.data[(size_t)i] || &*it != &(*v)[(size_t)i])
          ++f.itmis;
      if (i != n)
        ++f.itmis;
    }
    v->~V();
    free(pv);
  }
};

struct VTable {
  void* (*create)(const Config&);
  void (*grower)(void*, Work&);
  void (*reader)(void*, int, Work&, std::atomic<int>&, int);
  void (*finish)(void*, Final&);
};
template <class V>
VTable vtableOf() {
  return VTable{&SX<V>::create, &SX<V>::grower, &SX<V>::reader, &SX<V>::finish};
}
template <size_t N, bool Inl, bool Fast>
VTable vtStrat(int strat) {
  switch (strat) {
    case 0:
      return vtableOf<dispenso::ConcurrentVector<SElem<N>, Traits<Inl, Fast, 0>>>();
    case 1:
      return vtableOf<dispenso::ConcurrentVector<SElem<N>, Traits<Inl, Fast, 1>>>();
    default:
      return vtableOf<dispenso::ConcurrentVector<SElem<N>, Traits<Inl, Fast, 2>>>();
  }
}
template <size_t N>
VTable vtTraits(const Config& c) {
  if (c.inl)
    return c.fast ? vtStrat<N, true, true>(c.strat) : vtStrat<N, true, false>(c.strat);
  return c.fast ? vtStrat<N, false, true>(c.strat) : vtStrat<N, false, false>(c.strat);
}
VTable vtPick(const Config& c) {
  if (c.f == 1)
    return vtTraits<256>(c);
  if (c.f == 2)
    return vtTraits<128>(c);
  return vtTraits<64>(c);
}

void workerMain(int w) {
  t_slot = &g_slots[1 + w];
  long long seen = -1;
  unsigned spins = 0;
  for (;;) {
    long long r = g_sh.go.load(std::memory_order_acquire);
    if (r == seen) {
      if (g_sh.quit.load(std::memory_order_acquire))
        return;
      relax(spins);
      continue;
    }
    seen = r;
    // rendezvous: the last worker to arrive picks a start tick a little in the future; every worker
    // spins on the clock until then, so that all programs start within a few nanoseconds of each other
    // (each worker then adds its own random spin offset)
    if (g_sh.arrived.fetch_add(1, std::memory_order_acq_rel) + 1 == kWorkers)
      g_sh.startAt.store(ticks() + kStartDelayTicks, std::memory_order_release);
    unsigned long long at;
    while ((at = g_sh.startAt.load(std::memory_order_acquire)) == 0)
      relax(spins);
    while (ticks() < at) {
    }
    if (w < g_sh.growers) {
      g_sh.growerFn(g_sh.vec, g_sh.w[w]);
      g_sh.growersDone.fetch_add(1, std::memory_order_acq_rel);
    } else if (w == kReaderIdx && g_sh.reader) {
      g_sh.readerFn(g_sh.vec, g_sh.n0, g_sh.w[w], g_sh.growersDone, g_sh.growers);
    }
    g_sh.done.fetch_add(1, std::memory_order_acq_rel);
  }
}

void printTotals(long long stuck) {
  printf(
      "DRIVER executions=%lld steps=%lld completed=%lld deadlocks=%lld diverged=0 stuck=0\n",
      g_roundsDone + stuck,
      g_opsDone,
      g_roundsDone,
      stuck);
  fflush(stdout);
}

// A round that does not finish within the grace period is reported as a record and ends the run (the
// threads that hang cannot be joined).
void watchdogMain() {
  const long long graceNs = 10LL * 1000 * 1000 * 1000;
  while (!g_sh.quit.load(std::memory_order_acquire)) {
    usleep(50 * 1000);
    long long b = g_sh.beat.load(std::memory_order_acquire);
    if (b != 0 && nowNs() - b > graceNs && !g_sh.quit.load(std::memory_order_acquire)) {
      std::lock_guard<std::mutex> lk(g_outMu);
      fprintf(
          g_out,
          "{\"e\":\"CVec\",\"round\":%lld,\"stuck\":1,\"done\":%d}\n",
          g_sh.round.load(std::memory_order_acquire),
          g_sh.done.load(std::memory_order_acquire));
      fflush(g_out);
      printTotals(1);
      _exit(0);
    }
  }
}

void randomRound(uint64_t& rng, Config& c, int& growers, bool& reader, Work* w) {
  auto rnd = [&](int n) { return (int)(ctl::splitmix(rng) % (uint64_t)n); };
  static const int fs[] = {1, 1, 2, 2, 4};
  c.f = fs[rnd(5)];
  c.strat = rnd(3);
  c.inl = rnd(2);
  c.fast = rnd(2);
  c.n0 = rnd(3) == 0 ? 0 : rnd(c.f == 4 ? kMaxN0 + 1 : 7);
  growers = 2 + rnd(3);
  long long worst = c.n0; // upper bound of the final size
  const long long limit = 64;
  // "ladder" rounds: every grower climbs the same targets n0 + 1, n0 + 2, ... with grow_to_at_least
  // (and a few single pushes), so that size_ crosses a target while another thread is inside
  // grow_to_at_least(target) all the time
  const bool ladder = rnd(4) == 0;
  for (int t = 0; t < growers; ++t) {
    Work& wk = w[t];
    wk = Work();
    wk.spin = rnd(4) == 0 ? rnd(2000) : rnd(120);
    int nops = ladder ? kMaxOps : 1 + rnd(kMaxOps);
    if (ladder)
      wk.spin = rnd(40);
    for (int k = 0; k < nops; ++k) {
      SOp o;
      o.v = (t + 1) * 100000 + wk.nops * 100;
      int r = rnd(20);
      if (ladder) {
        if (rnd(4) == 0) {
          o.kind = kPush + rnd(3);
          o.n = 1;
        } else {
          o.kind = rnd(2) ? kGtal : kGtalv;
          o.n = c.n0 + 1 + k + rnd(2);
        }
        wk.ops[wk.nops++] = o; // (final size <= n0 + 4 * kMaxOps * (kMaxOps + 2) in the worst case)
        continue;
      }
      if (r < 8) {
        o.kind = kPush + rnd(3);
        o.n = 1;
      } else if (r < 16) {
        o.kind = kGrowd + rnd(5);
        int a = rnd(12);
        o.n = a == 0 ? 0 : a < 9 ? 1 + rnd(3) : a < 11 ? 4 + rnd(5) : 9 + rnd(10);
        if (o.kind == kGrowi && o.n > 3)
          o.n = 3;
      } else {
        o.kind = rnd(2) ? kGtal : kGtalv;
        o.n = 1 + rnd((int)worst + 4);
      }
      if (worst + o.n > limit) // (a grow_to_at_least(n) adds at most n elements)
        continue;
      worst += o.n;
      wk.ops[wk.nops++] = o;
    }
  }
  reader = c.n0 > 0 && rnd(2) == 0;
  w[kReaderIdx] = Work();
  w[kReaderIdx].spin = rnd(200);
}

void writeRecord(long long round, const Config& c, int growers, bool reader, const Final& f, long long dbl,
                 long long baddtor, long long bal) {
  std::string s;
  char b[256];
  snprintf(
      b,
      sizeof b,
      "{\"e\":\"CVec\",\"round\":%lld,\"stuck\":0,\"F\":%d,\"strat\":%d,\"inl\":%d,\"fast\":%d,\"n0\":%d,\"thr\":[",
      round,
      c.f,
      c.strat,
      c.inl,
      c.fast,
      c.n0);
  s += b;
  for (int t = 0; t < growers; ++t) {
    const Work& w = g_sh.w[t];
    snprintf(b, sizeof b, "%s{\"mis\":%lld,\"ops\":[", t ? "," : "", clip(w.mis));
    s += b;
    for (int k = 0; k < w.nops; ++k) {
      const SOp& o = w.ops[k];
      snprintf(
          b,
          sizeof b,
          "%s[\"%s\",%lld,%d,%lld,%lld]",
          k ? "," : "",
          kKindName[o.kind],
          o.n,
          o.v,
          o.p,
          o.s);
      s += b;
    }
    s += "]}";
  }
  const Work& rw = g_sh.w[kReaderIdx];
  snprintf(
      b,
      sizeof b,
      "],\"rd\":{\"on\":%d,\"mis\":%lld,\"passes\":%lld},\"size\":%lld,\"enddist\":%lld,\"itmis\":%lld,\"dbl\":%lld,"
      "\"baddtor\":%lld,\"bal\":%lld,\"data\":[",
      reader ? 1 : 0,
      clip(rw.mis),
      clip(rw.reads),
      f.size,
      f.enddist,
      clip(f.itmis),
      clip(dbl),
      clip(baddtor),
      clip(bal));
  s += b;
  for (size_t i = 0; i < f.data.size(); ++i) {
    snprintf(b, sizeof b, "%s%lld", i ? "," : "", f.data[i]);
    s += b;
  }
  s += "]}\n";
  std::lock_guard<std::mutex> lk(g_outMu);
  fwrite(s.data(), 1, s.size(), g_out);
}

int run(const drv::Args& a) {
  std::string out = a.str("out", "cvec_obs.ndjson");
  g_out = fopen(out.c_str(), "w");
  if (!g_out)
    return 2;
  long long rounds = a.num("stress", 1000);
  uint64_t rng = (uint64_t)a.num("seed", 1) * 0x9e3779b97f4a7c15ULL + 33;
  std::vector<std::thread> workers;
  for (int w = 0; w < kWorkers; ++w)
    workers.emplace_back(workerMain, w);
  std::thread watchdog(watchdogMain);
  Final fin;
  long long tCreate = 0, tRun = 0, tFinish = 0, tBegin = nowNs();
  for (long long r = 0; r < rounds; ++r) {
    Config c;
    int growers = 0;
    bool reader = false;
    randomRound(rng, c, growers, reader, g_sh.w);
    VTable vt = vtPick(c);
    for (auto& sl : g_slots)
      sl = Slot();
    g_sh.round.store(r, std::memory_order_release);
    long long t0 = nowNs();
    g_sh.beat.store(t0, std::memory_order_release);
    g_sh.vec = vt.create(c);
    g_sh.growers = growers;
    g_sh.reader = reader;
    g_sh.n0 = c.n0;
    g_sh.growerFn = vt.grower;
    g_sh.readerFn = vt.reader;
    g_sh.growersDone.store(0, std::memory_order_relaxed);
    g_sh.arrived.store(0, std::memory_order_relaxed);
    g_sh.startAt.store(0, std::memory_order_relaxed);
    g_sh.done.store(0, std::memory_order_relaxed);
    long long t1 = nowNs();
    g_sh.go.store(r, std::memory_order_release);
    unsigned spins = 0;
    while (g_sh.done.load(std::memory_order_acquire) != kWorkers)
      relax(spins); // (the watchdog ends the process if this never happens)
    long long t2 = nowNs();
    vt.finish(g_sh.vec, fin);
    long long t3 = nowNs();
    tCreate += t1 - t0;
    tRun += t2 - t1;
    tFinish += t3 - t2;
    long long dbl = 0, baddtor = 0, bal = 0;
    for (auto& sl : g_slots) {
      dbl += sl.dbl;
      baddtor += sl.baddtor;
      bal += sl.ctors - sl.dtors;
    }
    writeRecord(r, c, growers, reader, fin, dbl, baddtor, bal);
    ++g_roundsDone;
    for (int t = 0; t < growers; ++t)
      g_opsDone += g_sh.w[t].nops;
  }
  g_sh.quit.store(1, std::memory_order_release);
  for (auto& t : workers)
    t.join();
  watchdog.join();
  fclose(g_out);
  if (a.has("timing"))
    fprintf(
        stderr,
        "stress timing (ms): create %lld, concurrent phase %lld, finish %lld, total %lld\n",
        tCreate / 1000000,
        tRun / 1000000,
        tFinish / 1000000,
        (nowNs() - tBegin) / 1000000);
  printTotals(0);
  return 0;
}

} // namespace stress

int main(int argc, char** argv) {
  drv::Args a(argc, argv);
  if (a.has("stress")) {
    int rc = stress::run(a);
    fflush(stdout);
    _exit(rc);
  }
  ctl::Trace tr(a.str("out", "cvec.ndjson"));
  drv::Totals tot;
  Config c;
  c.f = (int)a.num("F", 2);
  c.strat = (int)a.num("strat", 2);
  c.inl = (int)a.num("inl", 1);
  c.fast = (int)a.num("fast", 1);
  c.n0 = (int)a.num("n0", 0);
  Program prog = parseProg(a.str("prog", "g1:push.10;g2:growr.2.20"));
  if (a.has("schedules")) {
    auto scheds = ctl::readSchedules(a.str("schedules"));
    RunFn f = pick(c);
    size_t idx = 0;
    for (auto& s : scheds) {
      ctl::RunOptions o;
      o.mode = ctl::RunOptions::Replay;
      o.schedule = &s;
      auto r = f(prog, c, o, tr, "sched" + std::to_string(idx++));
      if (!r.completed && !r.deadlock && !r.diverged)
        r.stuck = true; // step budget exhausted: a spin that never ends
      tot.add(r);
      if (!r.completed)
        break; // threads may still be parked: this process cannot run another execution
    }
  } else {
    long long n = a.num("random", 100);
    uint64_t seed = (uint64_t)a.num("seed", 1);
    uint64_t prng = seed * 7919 + 17;
    for (long long i = 0; i < n; ++i) {
      ctl::RunOptions o;
      o.mode = ctl::RunOptions::Random;
      o.seed = seed * 1000003ULL + (uint64_t)i;
      o.pctDepth = (int)a.num("pct", 0);
      Config ci = c;
      Program p = a.has("randprog") ? randomProgram(prng, ci) : prog;
      auto r = pick(ci)(p, ci, o, tr, "rand" + std::to_string(o.seed));
      if (!r.completed && !r.deadlock && !r.diverged)
        r.stuck = true; // step budget exhausted: a spin that never ends
      tot.add(r);
      if (!r.completed)
        break;
    }
  }
  tr.flush();
  tot.print();
  fflush(stdout);
  _exit(0); // parked threads of an aborted execution must not block exit
}
