// Driver for property C33: concurrent growth of dispenso::ConcurrentVector (spec/cvec/CVec.tla).
//   --out FILE            trace (ndjson), validated by spec/cvec/CVecTrace.tla
//   --F 1|2|4             first bucket length (selected through sizeof(T))
//   --strat 0|1|2         kFullBufferAhead | kHalfBufferAhead | kAsNeeded
//   --inl 0|1 --fast 0|1  buffer pointers inline / kIteratorPreferSpeed
//   --n0 N                elements 1 .. N pushed by the constructing thread before the run
//   --prog "g1:push.10,gtal.7;g2:growr.3.20;r:rd.1,size"
//        push.V pushm.V emplace.V | growd.N growv.N.V growr.N.V growi.N.V gen.N.V | gtal.N gtalv.N.V
//        | size  end  rd.I
//   --schedules FILE      replay each schedule of FILE (one JSON array per line)
//   --random N --seed S [--pct D] [--randprog]     N random controlled executions; with --randprog
//        every execution draws its own program AND trait combination (--F/--strat/... ignored)
#include <dispenso/concurrent_vector.h>

#include <stdlib.h>
#include <unistd.h>

#include "../ctl/ctl.h"
#include "../ctl/drv_common.h"
#include "../ctl/tracked.h"

using ctl::Json;

namespace {

constexpr int kDefaultId = 99;
constexpr int kNB = 8; // buffers_ slots projected
constexpr int kLogN = 24; // element slots projected

template <size_t N>
struct Elem : ctl::Tracked {
  char pad[N - sizeof(ctl::Tracked)];
  Elem() noexcept : ctl::Tracked(kDefaultId) {}
  explicit Elem(int i) noexcept : ctl::Tracked(i) {}
  Elem(const Elem& o) noexcept : ctl::Tracked(static_cast<const ctl::Tracked&>(o)) {}
  Elem(Elem&& o) noexcept : ctl::Tracked(static_cast<ctl::Tracked&&>(o)) {}
  Elem& operator=(const Elem& o) noexcept {
    ctl::Tracked::operator=(static_cast<const ctl::Tracked&>(o));
    return *this;
  }
  Elem& operator=(Elem&& o) noexcept {
    ctl::Tracked::operator=(static_cast<ctl::Tracked&&>(o));
    return *this;
  }
};

template <bool Inl, bool Fast, int Strat>
struct Traits {
  static constexpr bool kPreferBuffersInline = Inl;
  static constexpr dispenso::ConcurrentVectorReallocStrategy kReallocStrategy =
      static_cast<dispenso::ConcurrentVectorReallocStrategy>(Strat);
  static constexpr bool kIteratorPreferSpeed = Fast;
};

struct OpDesc {
  std::string op;
  long long n = 0, v = 0;
};
using Program = std::vector<std::pair<std::string, std::vector<OpDesc>>>;

struct Config {
  int f = 2, strat = 2, inl = 1, fast = 1, n0 = 0;
};

bool isSingle(const std::string& o) {
  return o == "push" || o == "pushm" || o == "emplace";
}
bool isRange(const std::string& o) {
  return o == "growd" || o == "growv" || o == "growr" || o == "growi" || o == "gen";
}
bool isGtal(const std::string& o) {
  return o == "gtal" || o == "gtalv";
}

Program parseProg(const std::string& s) {
  Program p;
  for (auto& th : drv::split(s, ';')) {
    if (th.empty())
      continue;
    auto nm = drv::split(th, ':');
    std::vector<OpDesc> ops;
    for (auto& o : drv::split(nm.size() > 1 ? nm[1] : "", ',')) {
      if (o.empty())
        continue;
      auto q = drv::split(o, '.');
      OpDesc d;
      d.op = q[0];
      if (isSingle(d.op)) {
        d.n = 1;
        d.v = q.size() > 1 ? atoll(q[1].c_str()) : 1;
      } else {
        d.n = q.size() > 1 ? atoll(q[1].c_str()) : 0;
        d.v = q.size() > 2 ? atoll(q[2].c_str()) : 0;
      }
      ops.push_back(d);
    }
    p.emplace_back(nm[0], ops);
  }
  return p;
}

std::string resetLine(const Program& prog, const Config& c, const std::string& tag) {
  Json j;
  j.beginObj();
  j.kv("e", std::string("Reset"));
  j.kv("F", c.f).kv("strat", c.strat).kv("n0", c.n0).kv("inl", c.inl).kv("fast", c.fast);
  j.kv("tag", tag);
  j.key("prog").beginObj();
  for (auto& th : prog) {
    j.key(th.first.c_str()).beginArr();
    for (auto& o : th.second) {
      j.beginObj();
      j.kv("op", o.op);
      j.kv("n", o.n);
      j.kv("v", o.v);
      j.endObj();
    }
    j.endArr();
  }
  j.endObj();
  j.endObj();
  return j.s;
}

int ilog2(size_t x) {
  int r = 0;
  while (x > 1) {
    x >>= 1;
    ++r;
  }
  return r;
}

// The driver's own bucket arithmetic (not the library's), used only to find where slot i lives.
void bucketOf(size_t f, size_t i, size_t& b, size_t& sub) {
  if (i < f) {
    b = 0;
    sub = i;
    return;
  }
  int l = ilog2(i);
  b = (size_t)(l + 1 - ilog2(f));
  sub = i - (size_t(1) << l);
}
size_t bucketCap(size_t f, size_t b) {
  return b == 0 ? f : f << (b - 1);
}

template <class V>
struct Exec {
  using E = typename V::value_type;

  static long long doOp(V& v, const OpDesc& o, E* ref, typename V::iterator* it) {
    const std::string& k = o.op;
    // garbage positions must reach TLC as a mismatch, not abort the trace writer (32-bit ints)
    auto pos = [&](typename V::iterator r) {
      long long d = (long long)(r - v.begin());
      return d > 1000000 || d < -1000000 ? -999999LL : d;
    };
    int val = (int)o.v;
    if (k == "push") {
      E x(val);
      return pos(v.push_back(static_cast<const E&>(x)));
    }
    if (k == "pushm") {
      E x(val);
      return pos(v.push_back(std::move(x)));
    }
    if (k == "emplace")
      return pos(v.emplace_back(val));
    if (k == "growd")
      return pos(v.grow_by((size_t)o.n));
    if (k == "growv") {
      E x(val);
      return pos(v.grow_by((size_t)o.n, x));
    }
    if (k == "growr") {
      std::vector<E> src;
      src.reserve((size_t)o.n);
      for (long long i = 0; i < o.n; ++i)
        src.emplace_back(val + (int)i);
      return pos(v.grow_by(src.begin(), src.end()));
    }
    if (k == "growi") {
      switch (o.n) {
        case 0:
          return pos(v.grow_by(std::initializer_list<E>{}));
        case 1:
          return pos(v.grow_by({E(val)}));
        case 2:
          return pos(v.grow_by({E(val), E(val + 1)}));
        case 3:
          return pos(v.grow_by({E(val), E(val + 1), E(val + 2)}));
        default:
          fprintf(stderr, "ERROR drv_cvec: growi supports 0..3 elements\n");
          _exit(3);
      }
    }
    if (k == "gen") {
      int next = val;
      return pos(v.grow_by_generator((size_t)o.n, [&next]() { return E(next++); }));
    }
    if (k == "gtal")
      return pos(v.grow_to_at_least((size_t)o.n));
    if (k == "gtalv") {
      E x(val);
      return pos(v.grow_to_at_least((size_t)o.n, x));
    }
    if (k == "size")
      return (long long)v.size();
    if (k == "end")
      return (long long)(v.end() - v.begin());
    if (k == "rd") {
      // element o.n was published before the threads started: read it through the reference and
      // the iterator taken when this thread started, and through operator[] now
      ctl::point("RdElem", &v);
      ctl::ret(ref->id);
      ctl::ret((*it)->id);
      return v[(size_t)o.n].id;
    }
    fprintf(stderr, "ERROR drv_cvec: unknown op %s\n", k.c_str());
    _exit(3);
  }

  static void project(V* v, const Config& c, Json& j) {
    auto& reg = ctl::Registry::get();
    j.kv("size", (long long)v->size_.load(std::memory_order_relaxed));
    E* ptr[kNB];
    for (int b = 0; b < kNB; ++b)
      ptr[b] = v->buffers_[(size_t)b].load(std::memory_order_relaxed);
    // buffers_[b] as [first bucket of the contiguous run it belongs to, element offset in that run]
    j.key("buf").beginArr();
    int runStart = 0;
    for (int b = 0; b < kNB; ++b) {
      j.beginArr();
      if (ptr[b]) {
        bool contiguous =
            b > 0 && ptr[b - 1] && ptr[b] == ptr[b - 1] + bucketCap((size_t)c.f, (size_t)b - 1);
        if (!contiguous)
          runStart = b;
        long long off = ptr[b] - ptr[runStart];
        j.num(runStart);
        j.num(off >= 0 && off < (1 << 20) ? off : -1);
      }
      j.endArr();
    }
    j.endArr();
    j.key("dl").beginArr();
    for (int b = 0; b < kNB; ++b)
      j.num(v->buffers_.shouldDealloc_[b] ? 1 : 0);
    j.endArr();
    // cachedPtrs_[b]: 0 null, 1 equal to buffers_[b] (or set while buffers_[b] is still null), 2 differs
    j.key("cs").beginArr();
    for (int b = 0; b < kNB; ++b) {
#if DISPENSO_HAS_CACHED_PTRS
      E* cp = v->cachedPtrs_[b];
      j.num(!cp ? 0 : (!ptr[b] || cp == ptr[b]) ? 1 : 2);
#else
      j.num(ptr[b] ? 1 : 0);
#endif
    }
    j.endArr();
    j.key("data").beginArr();
    for (int i = 0; i < kLogN; ++i) {
      size_t b, sub;
      bucketOf((size_t)c.f, (size_t)i, b, sub);
      int id = 0;
      if (b < (size_t)kNB && ptr[b]) {
        const void* p = ptr[b] + sub;
        if (reg.isLive(p)) {
          id = reg.at(p);
          if (id == 0)
            id = -1; // live but moved-from
        }
      }
      j.num(id);
    }
    j.endArr();
    j.kv("errs", reg.errorCount());
  }

  static ctl::RunResult run(
      const Program& prog,
      const Config& c,
      const ctl::RunOptions& opts,
      ctl::Trace& tr,
      const std::string& tag) {
    ctl::Registry::get().reset();
    void* mem = nullptr;
    if (posix_memalign(&mem, alignof(V) < 64 ? 64 : alignof(V), sizeof(V)) != 0)
      _exit(3);
    V* v = new (mem) V();
    if ((int)v->firstBucketLen_ != c.f) {
      fprintf(stderr, "ERROR drv_cvec: first bucket is %zu, expected %d\n", v->firstBucketLen_, c.f);
      _exit(3);
    }
    for (int i = 1; i <= c.n0; ++i)
      v->emplace_back(i);
    tr.line(resetLine(prog, c, tag));
    ctl::RunResult res;
    {
      ctl::Controller ctlr(tr);
      ctlr.setProjection([v, &c](Json& j) { project(v, c, j); });
      for (auto& th : prog) {
        const std::vector<OpDesc>* ops = &th.second;
        ctlr.addThread(th.first, [v, ops]() {
          // references / iterators to already published elements, taken before anything grows
          std::vector<E*> refs(ops->size(), nullptr);
          std::vector<typename V::iterator> its(ops->size());
          for (size_t k = 0; k < ops->size(); ++k)
            if ((*ops)[k].op == "rd") {
              refs[k] = &(*v)[(size_t)(*ops)[k].n];
              its[k] = v->begin() + (ssize_t)(*ops)[k].n;
            }
          for (size_t k = 0; k < ops->size(); ++k) {
            long long r = doOp(*v, (*ops)[k], refs[k], &its[k]);
            ctl::ret(r);
          }
        });
      }
      res = ctlr.run(opts);
    }
    if (res.completed) {
      // the destructor runs as a logical thread of its own so that the CvFree notes are recorded
      ctl::Controller dctl(tr);
      dctl.setProjection([](Json& j) {
        auto& reg = ctl::Registry::get();
        j.kv("live", reg.liveCount());
        j.kv("bal", reg.ctors - reg.dtors);
        j.kv("errs", reg.errorCount());
      });
      dctl.addThread("dtor", [v]() { v->~V(); });
      ctl::RunOptions o;
      o.mode = ctl::RunOptions::Random;
      o.seed = 1;
      ctl::RunResult dr = dctl.run(o);
      if (!dr.completed) {
        res.completed = false;
        res.stuck = true;
      }
      free(mem);
    }
    return res;
  }
};

using RunFn = ctl::RunResult (*)(
    const Program&,
    const Config&,
    const ctl::RunOptions&,
    ctl::Trace&,
    const std::string&);

template <size_t N, bool Inl, bool Fast>
RunFn pickStrat(int strat) {
  switch (strat) {
    case 0:
      return &Exec<dispenso::ConcurrentVector<Elem<N>, Traits<Inl, Fast, 0>>>::run;
    case 1:
      return &Exec<dispenso::ConcurrentVector<Elem<N>, Traits<Inl, Fast, 1>>>::run;
    case 2:
      return &Exec<dispenso::ConcurrentVector<Elem<N>, Traits<Inl, Fast, 2>>>::run;
  }
  return nullptr;
}
template <size_t N>
RunFn pickTraits(const Config& c) {
  if (c.inl)
    return c.fast ? pickStrat<N, true, true>(c.strat) : pickStrat<N, true, false>(c.strat);
  return c.fast ? pickStrat<N, false, true>(c.strat) : pickStrat<N, false, false>(c.strat);
}
RunFn pick(const Config& c) {
  RunFn f = nullptr;
  if (c.f == 1)
    f = pickTraits<256>(c);
  else if (c.f == 2)
    f = pickTraits<128>(c);
  else if (c.f == 4)
    f = pickTraits<64>(c);
  if (!f) {
    fprintf(stderr, "ERROR drv_cvec: unsupported configuration\n");
    _exit(3);
  }
  return f;
}

// Random program: 2-3 growers with 1-3 operations each (amounts mostly 1..3), sometimes a reader;
// the total size stays within the projected slots.
Program randomProgram(uint64_t& rng, Config& c) {
  auto rnd = [&](int n) { return (int)(ctl::splitmix(rng) % (uint64_t)n); };
  static const int fs[] = {1, 2, 2, 4};
  c.f = fs[rnd(4)];
  c.strat = rnd(3);
  c.inl = rnd(2);
  c.fast = rnd(2);
  c.n0 = rnd(c.f == 4 ? 10 : 6);
  Program p;
  int growers = 2 + rnd(2);
  long long worst = c.n0; // upper bound of the final size
  for (int t = 0; t < growers; ++t) {
    std::vector<OpDesc> ops;
    int nops = 1 + rnd(3);
    int base = (t + 1) * 100;
    for (int k = 0; k < nops; ++k) {
      OpDesc d;
      int r = rnd(20);
      d.v = base + k * 10;
      if (r < 6) {
        static const char* nm[] = {"push", "pushm", "emplace"};
        d.op = nm[rnd(3)];
        d.n = 1;
      } else if (r < 16) {
        static const char* nm[] = {"growd", "growv", "growr", "growi", "gen"};
        d.op = nm[rnd(5)];
        int a = rnd(10);
        d.n = a == 0 ? 0 : a < 8 ? 1 + rnd(3) : 4 + rnd(3);
        if (d.op == "growi" && d.n > 3)
          d.n = 3;
      } else {
        d.op = rnd(2) ? "gtal" : "gtalv";
        d.n = 1 + rnd(12);
      }
      long long add = isGtal(d.op) ? d.n : d.n; // gtal can add at most n elements
      if (worst + add > kLogN - 1)
        continue;
      worst += add;
      ops.push_back(d);
    }
    if (ops.empty()) {
      OpDesc d;
      d.op = "size";
      ops.push_back(d);
    }
    p.emplace_back("g" + std::to_string(t + 1), ops);
  }
  if (rnd(3) == 0) {
    std::vector<OpDesc> ops;
    int nops = 1 + rnd(3);
    for (int k = 0; k < nops; ++k) {
      OpDesc d;
      int r = rnd(3);
      if (r == 0 && c.n0 > 0) {
        d.op = "rd";
        d.n = rnd(c.n0);
      } else
        d.op = r == 1 ? "size" : "end";
      ops.push_back(d);
    }
    p.emplace_back("r", ops);
  }
  return p;
}

} // namespace

int main(int argc, char** argv) {
  drv::Args a(argc, argv);
  ctl::Trace tr(a.str("out", "cvec.ndjson"));
  drv::Totals tot;
  Config c;
  c.f = (int)a.num("F", 2);
  c.strat = (int)a.num("strat", 2);
  c.inl = (int)a.num("inl", 1);
  c.fast = (int)a.num("fast", 1);
  c.n0 = (int)a.num("n0", 0);
  Program prog = parseProg(a.str("prog", "g1:push.10;g2:growr.2.20"));
  if (a.has("schedules")) {
    auto scheds = ctl::readSchedules(a.str("schedules"));
    RunFn f = pick(c);
    size_t idx = 0;
    for (auto& s : scheds) {
      ctl::RunOptions o;
      o.mode = ctl::RunOptions::Replay;
      o.schedule = &s;
      auto r = f(prog, c, o, tr, "sched" + std::to_string(idx++));
      if (!r.completed && !r.deadlock && !r.diverged)
        r.stuck = true; // step budget exhausted: a spin that never ends
      tot.add(r);
      if (!r.completed)
        break; // threads may still be parked: this process cannot run another execution
    }
  } else {
    long long n = a.num("random", 100);
    uint64_t seed = (uint64_t)a.num("seed", 1);
    uint64_t prng = seed * 7919 + 17;
    for (long long i = 0; i < n; ++i) {
      ctl::RunOptions o;
      o.mode = ctl::RunOptions::Random;
      o.seed = seed * 1000003ULL + (uint64_t)i;
      o.pctDepth = (int)a.num("pct", 0);
      Config ci = c;
      Program p = a.has("randprog") ? randomProgram(prng, ci) : prog;
      auto r = pick(ci)(p, ci, o, tr, "rand" + std::to_string(o.seed));
      if (!r.completed && !r.deadlock && !r.diverged)
        r.stuck = true; // step budget exhausted: a spin that never ends
      tot.add(r);
      if (!r.completed)
        break;
    }
  }
  tr.flush();
  tot.print();
  fflush(stdout);
  _exit(0); // parked threads of an aborted execution must not block exit
}
