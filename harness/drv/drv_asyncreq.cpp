// Driver for dispenso::AsyncRequest (spec/asyncreq/AsyncReq.tla, property C24).
//   --out FILE            trace (ndjson)
//   --prog "c1:req,get;c2:get;p1:emp1;p2:chk,emp2"
//                         thread : ops.  Consumers (names c*) call requestUpdate()/getUpdate()
//                         ("req"/"get"), producers (names p*) call updateRequested()/
//                         tryEmplaceUpdate(v) ("chk"/"empV") - the roles the documentation describes.
//   --payload tracked|pod tracked: the move constructor zeroes its source; pod: moving copies
//   --claim 0|1           echoed into the Reset line: which getUpdate() the spec models
//                         (1 = claims the slot with a CAS, 0 = tests the state with a plain load)
//   --schedules FILE      replay each schedule of FILE (one JSON array per line)
//   --random N --seed S [--pct D] [--randprog [--maxops K]]   N random controlled executions
//   --stress N --seed S   E5: N free-running rounds (real threads, NO controller, the hook points are
//                         inert), one observation record per round for spec/asyncreq/AsyncReqObs.tla;
//                         --payload tracked -> a plain payload that zeroes its source on move,
//                         --payload pod -> a plain payload that is copied by a move (no registry, no
//                         lock in either: nothing but the AsyncRequest synchronises the threads);
//                         --stuckat R: self-test of the watchdog (consumer 1 never starts round R)
//
// The optional type behind AsyncRequest depends on the language standard of the build; the driver
// reports which move semantics the spec has to use ("mode"): C++14 -> detail::OpResult -> "clear";
// C++17 -> std::optional -> "husk" (tracked payload) or "copy" (pod payload).
#include <dispenso/async_request.h>

#include <sched.h>
#include <unistd.h>

#include <atomic>
#include <chrono>
#include <mutex>
#include <thread>

#include "../ctl/ctl.h"
#include "../ctl/drv_common.h"
#include "../ctl/tracked.h"

using ctl::Json;
using ctl::Registry;

// A lifetime-tracked payload that behaves like a trivially movable type: moving it copies it.
struct Pod {
  int id;
  explicit Pod(int i) noexcept : id(i) {
    Registry::get().add(this, i);
  }
  Pod(const Pod& o) noexcept : id(o.id) {
    Registry::get().add(this, id);
  }
  Pod(Pod&& o) noexcept : id(o.id) {
    Registry::get().add(this, id);
  }
  Pod& operator=(const Pod& o) noexcept {
    id = o.id;
    Registry::get().set(this, id);
    return *this;
  }
  ~Pod() {
    Registry::get().del(this);
  }
};

struct OpDesc {
  std::string op;
  int v = 0;
};
using Program = std::vector<std::pair<std::string, std::vector<OpDesc>>>;

static Program parseProg(const std::string& s) {
  Program p;
  for (auto& th : drv::split(s, ';')) {
    if (th.empty())
      continue;
    auto nm = drv::split(th, ':');
    std::vector<OpDesc> ops;
    for (auto& o : drv::split(nm.size() > 1 ? nm[1] : "", ',')) {
      if (o.empty())
        continue;
      OpDesc d;
      size_t i = 0;
      while (i < o.size() && !isdigit((unsigned char)o[i]))
        ++i;
      d.op = o.substr(0, i);
      if (i < o.size())
        d.v = atoi(o.c_str() + i);
      ops.push_back(d);
    }
    p.emplace_back(nm[0], ops);
  }
  return p;
}

template <class P>
static const char* moveMode() {
#if __cplusplus >= 201703L
  return std::is_same<P, Pod>::value ? "copy" : "husk";
#else
  return "clear";
#endif
}

static std::string
resetLine(const Program& prog, const char* mode, bool claim, const std::string& tag) {
  Json j;
  j.beginObj();
  j.kv("e", std::string("Reset"));
  j.kv("mode", std::string(mode));
  j.kvb("claim", claim);
  j.kv("tag", tag);
  j.key("prog").beginObj();
  for (auto& th : prog) {
    j.key(th.first.c_str()).beginArr();
    for (auto& o : th.second) {
      j.beginObj();
      j.kv("op", o.op);
      j.kv("v", o.v);
      j.endObj();
    }
    j.endArr();
  }
  j.endObj();
  j.endObj();
  return j.s;
}

// 1..3 consumers and 1..3 producers, 1..maxOps operations each, distinct values
static Program randomProgram(uint64_t& rng, int maxOps) {
  Program p;
  int nc = 1 + (int)(ctl::splitmix(rng) % 3);
  int np = 1 + (int)(ctl::splitmix(rng) % 3);
  int next = 1;
  for (int t = 0; t < nc; ++t) {
    std::vector<OpDesc> ops;
    int nops = 1 + (int)(ctl::splitmix(rng) % (unsigned)maxOps);
    for (int k = 0; k < nops; ++k) {
      OpDesc d;
      d.op = (ctl::splitmix(rng) % 5) < 2 ? "req" : "get";
      ops.push_back(d);
    }
    p.emplace_back("c" + std::to_string(t + 1), ops);
  }
  for (int t = 0; t < np; ++t) {
    std::vector<OpDesc> ops;
    int nops = 1 + (int)(ctl::splitmix(rng) % (unsigned)maxOps);
    for (int k = 0; k < nops; ++k) {
      OpDesc d;
      if (ctl::splitmix(rng) % 4 == 0)
        d.op = "chk";
      else {
        d.op = "emp";
        d.v = next++;
      }
      ops.push_back(d);
    }
    p.emplace_back("p" + std::to_string(t + 1), ops);
  }
  // make sure somebody requests, otherwise nothing ever happens
  bool anyReq = false;
  for (auto& th : p)
    for (auto& o : th.second)
      anyReq = anyReq || o.op == "req";
  if (!anyReq)
    p[0].second[0].op = "req";
  return p;
}

template <class Req>
static long long doOp(Req& req, const OpDesc& o) {
  if (o.op == "req") {
    req.requestUpdate();
    return 0;
  }
  if (o.op == "chk")
    return req.updateRequested() ? 1 : 0;
  if (o.op == "emp")
    return req.tryEmplaceUpdate(o.v) ? 1 : 0;
  if (o.op == "get") {
    auto r = req.getUpdate();
    if (!r.has_value())
      return 0;
    // -1: an engaged result that holds a moved-from object
    return r.value().id ? r.value().id : -1;
  }
  fprintf(stderr, "ERROR drv_asyncreq: unknown op %s\n", o.op.c_str());
  _exit(3);
}

template <class P>
static ctl::RunResult execute(
    const Program& prog,
    bool claim,
    const ctl::RunOptions& opts,
    ctl::Trace& tr,
    const std::string& tag) {
  using Req = dispenso::AsyncRequest<P>;
  Registry::get().reset();
  Req* req = new Req();
  tr.line(resetLine(prog, moveMode<P>(), claim, tag));
  // (heap: after an execution that did not complete the controller still owns parked threads)
  ctl::Controller* cp = new ctl::Controller(tr);
  ctl::Controller& c = *cp;
  c.setProjection([req](Json& j) {
    j.kv("state", (long long)req->state_.load());
    long long o = 0;
    if (req->obj_.has_value())
      o = req->obj_.value().id ? req->obj_.value().id : -1;
    j.kv("obj", o);
    j.kv("live", Registry::get().liveCount());
    j.kv("errs", Registry::get().errorCount());
  });
  for (auto& th : prog) {
    const std::vector<OpDesc>* ops = &th.second;
    c.addThread(th.first, [req, ops]() {
      for (auto& o : *ops) {
        long long r = doOp(*req, o);
        ctl::ret(r);
      }
    });
  }
  ctl::RunResult res = c.run(opts);
  if (res.completed) {
    delete cp;
    delete req;
    Json j;
    j.beginObj();
    j.kv("e", std::string("Destroy"));
    j.kv("live", Registry::get().liveCount());
    j.kv("errs", Registry::get().errorCount());
    j.endObj();
    tr.line(j.s);
  }
  return res;
}

template <class P>
static int runAll(const drv::Args& a) {
  ctl::Trace tr(a.str("out", "trace.ndjson"));
  drv::Totals tot;
  Program prog = parseProg(a.str("prog", "c1:req,get;p1:emp1"));
  bool claim = a.num("claim", 1) != 0;
  if (a.has("schedules")) {
    auto scheds = ctl::readSchedules(a.str("schedules"));
    size_t idx = 0;
    for (auto& s : scheds) {
      ctl::RunOptions o;
      o.mode = ctl::RunOptions::Replay;
      o.schedule = &s;
      auto r = execute<P>(prog, claim, o, tr, "sched" + std::to_string(idx++));
      tot.add(r);
      if (!r.completed)
        break; // threads may still be parked: this process cannot run another execution
    }
  } else {
    long long n = a.num("random", 100);
    uint64_t seed = (uint64_t)a.num("seed", 1);
    uint64_t prng = seed * 7919 + 17;
    int maxOps = (int)a.num("maxops", 3);
    for (long long i = 0; i < n; ++i) {
      ctl::RunOptions o;
      o.mode = ctl::RunOptions::Random;
      o.seed = seed * 1000003ULL + (uint64_t)i;
      o.pctDepth = (int)a.num("pct", 0);
      Program p = a.has("randprog") ? randomProgram(prng, maxOps) : prog;
      auto r = execute<P>(p, claim, o, tr, "rand" + std::to_string(i));
      tot.add(r);
      if (!r.completed)
        break;
    }
  }
  tr.flush();
  tot.print();
  return 0;
}

// ------------------------------------------------------------------------------------------------
// E5: free-running rounds.  Real threads, truly concurrent, no ctl::Controller: the
// DISPENSO_VERIF_POINTs are inert, so the races INSIDE one step of the specification (between a hook
// point and the next) are exercised.  3 consumer + 3 producer threads persist over all rounds; a round
// uses the first nc consumers and the first np producers (1..3 each, drawn from the seed, redrawn every
// 16 rounds) on a fresh AsyncRequest.  The threads of a round meet at a start barrier, spin a random
// small offset and run a short random program of their role (consumers: requestUpdate / getUpdate;
// producers: updateRequested / tryEmplaceUpdate(v), v = 1000 * producer + k, increasing) with random
// small spins in between.  All operations are non-blocking, so a round always ends.
// The record holds what the callers of the public API saw, per thread in program order:
//   {"e":"Round","round":r,"mode":"clear|husk|copy","nc":..,"np":..,"stuck":0,
//    "c":[[x,...] per consumer]   x < 0: -x consecutive requestUpdate() calls (getUpdate() calls that returned
//                                 nothing are not listed); x > 0: getUpdate() returned the value x; x = 0:
//                                 getUpdate() returned an engaged result that holds a moved-from object
//    "p":[[y,...] per producer]   y > 0: tryEmplaceUpdate(y) returned true; y = 0: updateRequested() returned
//                                 true; y < 0: -y consecutive calls (of either kind) that returned false
//    "state": state_ when all threads are done, "drain": [what one more getUpdate() by the main thread returned],
//    "live": payload objects alive after the AsyncRequest and every result have been destroyed}
// No C++ oracle: spec/asyncreq/AsyncReqObs.tla judges the records.
struct LiveCount {
  static std::atomic<long long>& n() {
    static std::atomic<long long> v{0};
    return v;
  }
};
// zeroes its source on move (like ctl::Tracked), no registry
struct LiteZ {
  int id;
  explicit LiteZ(int i) noexcept : id(i) {
    LiveCount::n().fetch_add(1, std::memory_order_relaxed);
  }
  LiteZ(const LiteZ& o) noexcept : id(o.id) {
    LiveCount::n().fetch_add(1, std::memory_order_relaxed);
  }
  LiteZ(LiteZ&& o) noexcept : id(o.id) {
    o.id = 0;
    LiveCount::n().fetch_add(1, std::memory_order_relaxed);
  }
  ~LiteZ() {
    LiveCount::n().fetch_sub(1, std::memory_order_relaxed);
  }
};
// a move is a copy (like Pod / int), no registry
struct LiteC {
  int id;
  explicit LiteC(int i) noexcept : id(i) {
    LiveCount::n().fetch_add(1, std::memory_order_relaxed);
  }
  LiteC(const LiteC& o) noexcept : id(o.id) {
    LiveCount::n().fetch_add(1, std::memory_order_relaxed);
  }
  ~LiteC() {
    LiveCount::n().fetch_sub(1, std::memory_order_relaxed);
  }
};
template <class P>
static const char* liteMode() {
#if __cplusplus >= 201703L
  return std::is_same<P, LiteC>::value ? "copy" : "husk";
#else
  return "clear";
#endif
}

namespace stress {
constexpr int kMaxOps = 160;
constexpr int kThreads = 6; // 0..2 consumers, 3..5 producers
struct alignas(128) ThreadSlot {
  std::atomic<long long> go{-1}; // round this thread has to run; -2: shut down
  int nops = 0;
  int op[kMaxOps]; // consumers: 0 req, 1 get; producers: 0 chk, v > 0 emp v
  int res[kMaxOps];
  int spin0 = 0;
  uint64_t rng = 0;
};
struct Shared {
  alignas(128) std::atomic<int> arrived{0};
  alignas(128) std::atomic<int> done{0};
  alignas(128) void* req = nullptr; // published by go.store(release)
  int nactive = 0;
  ThreadSlot th[kThreads];
};
static Shared sh; // static: the threads of a stuck round outlive runStress
static std::atomic<long long> progress{0}; // rounds completed (watchdog)
static std::atomic<int> finished{0};
static std::mutex fileMu;

static inline void spin(int n) {
  for (volatile int k = 0; k < n; ++k) {
  }
}

template <class P>
static void worker(int idx) {
  using Req = dispenso::AsyncRequest<P>;
  ThreadSlot& tp = sh.th[idx];
  const bool consumer = idx < 3;
  long long seen = -1;
  for (;;) {
    long long r;
    int idle = 0, yields = 0;
    while ((r = tp.go.load(std::memory_order_acquire)) == seen) {
      if (++idle > 2000) {
        idle = 0;
        if (++yields > 50)
          usleep(50); // not part of the current rounds
        else
          sched_yield();
      }
    }
    if (r == -2)
      return;
    seen = r;
    Req& req = *static_cast<Req*>(sh.req);
    const int n = sh.nactive;
    // start barrier: all threads of the round leave it together
    sh.arrived.fetch_add(1, std::memory_order_acq_rel);
    idle = 0;
    while (sh.arrived.load(std::memory_order_acquire) < n) {
      if (++idle > 20000) {
        idle = 0;
        sched_yield();
      }
    }
    uint64_t rng = tp.rng;
    spin(tp.spin0);
    for (int k = 0; k < tp.nops; ++k) {
      uint64_t x = ctl::splitmix(rng);
      if ((x & 3) == 0)
        spin((int)((x >> 2) & 31));
      int o = tp.op[k];
      if (consumer) {
        if (o == 0) {
          req.requestUpdate();
          tp.res[k] = -2;
        } else {
          auto g = req.getUpdate();
          tp.res[k] = !g.has_value() ? 0 : (g.value().id ? g.value().id : -1);
        }
      } else {
        if (o == 0)
          tp.res[k] = req.updateRequested() ? -1 : -2;
        else
          tp.res[k] = req.tryEmplaceUpdate(o) ? o : 0;
      }
    }
    sh.done.fetch_add(1, std::memory_order_release);
  }
}
} // namespace stress

template <class P>
static int runStress(const drv::Args& a) {
  using namespace stress;
  using Req = dispenso::AsyncRequest<P>;
  std::string out = a.str("out", "stress.ndjson");
  FILE* f = fopen(out.c_str(), "w");
  if (!f)
    return 2;
  static char fbuf[1 << 20];
  setvbuf(f, fbuf, _IOFBF, sizeof(fbuf));
  long long rounds = a.num("stress", 1000);
  uint64_t rng = (uint64_t)a.num("seed", 1) * 0x9e3779b97f4a7c15ULL + 11;
  const char* mode = liteMode<P>();
  const long long stuckAt = a.num("stuckat", -1);
  alignas(128) static char reqBuf[sizeof(Req)];

  std::vector<std::thread> threads;
  for (int i = 0; i < kThreads; ++i)
    threads.emplace_back(worker<P>, i);
  // watchdog: a round that does not finish within 10 s is recorded as stuck; the validator rejects it
  std::thread watchdog([f, mode]() {
    long long last = -1;
    auto since = std::chrono::steady_clock::now();
    while (!finished.load(std::memory_order_acquire)) {
      std::this_thread::sleep_for(std::chrono::milliseconds(10));
      long long p = progress.load(std::memory_order_acquire);
      auto now = std::chrono::steady_clock::now();
      if (p != last) {
        last = p;
        since = now;
      } else if (now - since > std::chrono::seconds(10) && !finished.load(std::memory_order_acquire)) {
        std::lock_guard<std::mutex> lk(fileMu);
        fprintf(f, "{\"e\":\"Round\",\"round\":%lld,\"mode\":\"%s\",\"stuck\":1}\n", p, mode);
        fflush(f);
        printf("DRIVER executions=%lld steps=%lld completed=%lld deadlocks=1 diverged=0 stuck=0\n", p + 1, p + 1, p);
        fflush(stdout);
        _exit(0);
      }
    }
  });

  long long steps = 0;
  int nc = 1, np = 1;
  std::string rec;
  for (long long r = 0; r < rounds; ++r) {
    const long long live0 = LiveCount::n().load();
    Req* req = new (reqBuf) Req();
    sh.req = req;
    if (r % 16 == 0) {
      nc = 1 + (int)(ctl::splitmix(rng) % 3);
      np = 1 + (int)(ctl::splitmix(rng) % 3);
    }
    sh.nactive = nc + np;
    // short and long programs; every thread of a round has about the same length so that they overlap
    int len = 2 + (int)(ctl::splitmix(rng) % (kMaxOps - 1)); // 2..160
    for (int i = 0; i < kThreads; ++i) {
      ThreadSlot& tp = sh.th[i];
      bool consumer = i < 3;
      bool active = consumer ? i < nc : i - 3 < np;
      tp.nops = 0;
      if (!active)
        continue;
      tp.nops = len - (int)(ctl::splitmix(rng) % (unsigned)(len / 2));
      tp.spin0 = (int)(ctl::splitmix(rng) % 100);
      tp.rng = ctl::splitmix(rng);
      int next = 1;
      for (int k = 0; k < tp.nops; ++k) {
        uint64_t x = ctl::splitmix(rng) % 20;
        if (consumer)
          tp.op[k] = x < 9 ? 0 : 1;
        else
          tp.op[k] = x < 3 ? 0 : 1000 * (i - 2) + next++;
        tp.res[k] = 0;
      }
      steps += tp.nops;
    }
    sh.arrived.store(0, std::memory_order_relaxed);
    sh.done.store(0, std::memory_order_relaxed);
    for (int i = 0; i < kThreads; ++i)
      if (sh.th[i].nops && !(r == stuckAt && i == 0)) // --stuckat R: self-test of the watchdog
        sh.th[i].go.store(r, std::memory_order_release);
    int idle = 0;
    while (sh.done.load(std::memory_order_acquire) != sh.nactive) {
      if (++idle > 2000) {
        sched_yield();
        idle = 0;
      }
    }
    long long state = (long long)req->state_.load();
    long long drain;
    {
      auto g = req->getUpdate();
      drain = !g.has_value() ? 0 : (g.value().id ? g.value().id : -1);
    }
    req->~Req();
    long long live = LiveCount::n().load() - live0; // payload objects this round left behind
    char head[200];
    snprintf(head, sizeof(head), "{\"e\":\"Round\",\"round\":%lld,\"mode\":\"%s\",\"nc\":%d,\"np\":%d,\"stuck\":0,\"c\":[",
             r, mode, nc, np);
    rec = head;
    // run-length form, per thread in program order (see the comment above): calls that returned nothing
    // new are counted, not listed
    for (int i = 0; i < 3 + np; ++i) {
      if (i >= nc && i < 3)
        continue;
      if (i == 3)
        rec += "],\"p\":[";
      rec += (i == 0 || i == 3) ? "[" : ",[";
      const bool consumer = i < 3;
      int run = 0;
      bool first = true;
      auto put = [&](long long v) {
        if (!first)
          rec += ',';
        first = false;
        rec += std::to_string(v);
      };
      for (int k = 0; k < sh.th[i].nops; ++k) {
        int x = sh.th[i].res[k];
        if (consumer) {
          if (x == 0)
            continue; // getUpdate() returned nothing
          if (x == -2) {
            ++run; // requestUpdate()
            continue;
          }
          if (run)
            put(-run);
          run = 0;
          put(x == -1 ? 0 : x); // 0: an engaged result that holds a moved-from object
        } else {
          if (x == 0 || x == -2) {
            ++run; // tryEmplaceUpdate() / updateRequested() returned false
            continue;
          }
          if (run)
            put(-run);
          run = 0;
          put(x == -1 ? 0 : x); // 0: updateRequested() returned true
        }
      }
      if (run)
        put(-run);
      rec += ']';
    }
    char tail[120];
    // "drain" has the form of a consumer history: [] nothing, [v], [0] moved-from object
    std::string dr = drain == 0 ? "" : std::to_string(drain == -1 ? 0 : drain);
    snprintf(tail, sizeof(tail), "],\"state\":%lld,\"drain\":[%s],\"live\":%lld}\n", state, dr.c_str(), live);
    rec += tail;
    {
      std::lock_guard<std::mutex> lk(fileMu);
      fwrite(rec.data(), 1, rec.size(), f);
    }
    progress.store(r + 1, std::memory_order_release);
  }
  finished.store(1, std::memory_order_release);
  for (int i = 0; i < kThreads; ++i)
    sh.th[i].go.store(-2, std::memory_order_release);
  for (auto& t : threads)
    t.join();
  watchdog.join();
  fclose(f);
  printf("DRIVER executions=%lld steps=%lld completed=%lld deadlocks=0 diverged=0 stuck=0\n", rounds, steps, rounds);
  fflush(stdout);
  return 0;
}

int main(int argc, char** argv) {
  drv::Args a(argc, argv);
  int rc;
  if (a.has("stress")) {
    if (a.str("payload", "tracked") == "pod")
      rc = runStress<LiteC>(a);
    else
      rc = runStress<LiteZ>(a);
    fflush(stdout);
    _exit(rc);
  }
  if (a.str("payload", "tracked") == "pod")
    rc = runAll<Pod>(a);
  else
    rc = runAll<ctl::Tracked>(a);
  fflush(stdout);
  _exit(rc); // parked threads of an aborted execution must not block exit
}
