// Driver for dispenso::AsyncRequest (spec/asyncreq/AsyncReq.tla, property C24).
//   --out FILE            trace (ndjson)
//   --prog "c1:req,get;c2:get;p1:emp1;p2:chk,emp2"
//                         thread : ops.  Consumers (names c*) call requestUpdate()/getUpdate()
//                         ("req"/"get"), producers (names p*) call updateRequested()/
//                         tryEmplaceUpdate(v) ("chk"/"empV") - the roles the documentation describes.
//   --payload tracked|pod tracked: the move constructor zeroes its source; pod: moving copies
//   --claim 0|1           echoed into the Reset line: which getUpdate() the spec models
//                         (1 = claims the slot with a CAS, 0 = tests the state with a plain load)
//   --schedules FILE      replay each schedule of FILE (one JSON array per line)
//   --random N --seed S [--pct D] [--randprog [--maxops K]]   N random controlled executions
//
// The optional type behind AsyncRequest depends on the language standard of the build; the driver
// reports which move semantics the spec has to use ("mode"): C++14 -> detail::OpResult -> "clear";
// C++17 -> std::optional -> "husk" (tracked payload) or "copy" (pod payload).
#include <dispenso/async_request.h>

#include <unistd.h>

#include "../ctl/ctl.h"
#include "../ctl/drv_common.h"
#include "../ctl/tracked.h"

using ctl::Json;
using ctl::Registry;

// A lifetime-tracked payload that behaves like a trivially movable type: moving it copies it.
struct Pod {
  int id;
  explicit Pod(int i) noexcept : id(i) {
    Registry::get().add(this, i);
  }
  Pod(const Pod& o) noexcept : id(o.id) {
    Registry::get().add(this, id);
  }
  Pod(Pod&& o) noexcept : id(o.id) {
    Registry::get().add(this, id);
  }
  Pod& operator=(const Pod& o) noexcept {
    id = o.id;
    Registry::get().set(this, id);
    return *this;
  }
  ~Pod() {
    Registry::get().del(this);
  }
};

struct OpDesc {
  std::string op;
  int v = 0;
};
using Program = std::vector<std::pair<std::string, std::vector<OpDesc>>>;

static Program parseProg(const std::string& s) {
  Program p;
  for (auto& th : drv::split(s, ';')) {
    if (th.empty())
      continue;
    auto nm = drv::split(th, ':');
    std::vector<OpDesc> ops;
    for (auto& o : drv::split(nm.size() > 1 ? nm[1] : "", ',')) {
      if (o.empty())
        continue;
      OpDesc d;
      size_t i = 0;
      while (i < o.size() && !isdigit((unsigned char)o[i]))
        ++i;
      d.op = o.substr(0, i);
      if (i < o.size())
        d.v = atoi(o.c_str() + i);
      ops.push_back(d);
    }
    p.emplace_back(nm[0], ops);
  }
  return p;
}

template <class P>
static const char* moveMode() {
#if __cplusplus >= 201703L
  return std::is_same<P, Pod>::value ? "copy" : "husk";
#else
  return "clear";
#endif
}

static std::string
resetLine(const Program& prog, const char* mode, bool claim, const std::string& tag) {
  Json j;
  j.beginObj();
  j.kv("e", std::string("Reset"));
  j.kv("mode", std::string(mode));
  j.kvb("claim", claim);
  j.kv("tag", tag);
  j.key("prog").beginObj();
  for (auto& th : prog) {
    j.key(th.first.c_str()).beginArr();
    for (auto& o : th.second) {
      j.beginObj();
      j.kv("op", o.op);
      j.kv("v", o.v);
      j.endObj();
    }
    j.endArr();
  }
  j.endObj();
  j.endObj();
  return j.s;
}

// 1..3 consumers and 1..3 producers, 1..maxOps operations each, distinct values
static Program randomProgram(uint64_t& rng, int maxOps) {
  Program p;
  int nc = 1 + (int)(ctl::splitmix(rng) % 3);
  int np = 1 + (int)(ctl::splitmix(rng) % 3);
  int next = 1;
  for (int t = 0; t < nc; ++t) {
    std::vector<OpDesc> ops;
    int nops = 1 + (int)(ctl::splitmix(rng) % (unsigned)maxOps);
    for (int k = 0; k < nops; ++k) {
      OpDesc d;
      d.op = (ctl::splitmix(rng) % 5) < 2 ? "req" : "get";
      ops.push_back(d);
    }
    p.emplace_back("c" + std::to_string(t + 1), ops);
  }
  for (int t = 0; t < np; ++t) {
    std::vector<OpDesc> ops;
    int nops = 1 + (int)(ctl::splitmix(rng) % (unsigned)maxOps);
    for (int k = 0; k < nops; ++k) {
      OpDesc d;
      if (ctl::splitmix(rng) % 4 == 0)
        d.op = "chk";
      else {
        d.op = "emp";
        d.v = next++;
      }
      ops.push_back(d);
    }
    p.emplace_back("p" + std::to_string(t + 1), ops);
  }
  // make sure somebody requests, otherwise nothing ever happens
  bool anyReq = false;
  for (auto& th : p)
    for (auto& o : th.second)
      anyReq = anyReq || o.op == "req";
  if (!anyReq)
    p[0].second[0].op = "req";
  return p;
}

template <class Req>
static long long doOp(Req& req, const OpDesc& o) {
  if (o.op == "req") {
    req.requestUpdate();
    return 0;
  }
  if (o.op == "chk")
    return req.updateRequested() ? 1 : 0;
  if (o.op == "emp")
    return req.tryEmplaceUpdate(o.v) ? 1 : 0;
  if (o.op == "get") {
    auto r = req.getUpdate();
    if (!r.has_value())
      return 0;
    // -1: an engaged result that holds a moved-from object
    return r.value().id ? r.value().id : -1;
  }
  fprintf(stderr, "ERROR drv_asyncreq: unknown op %s\n", o.op.c_str());
  _exit(3);
}

template <class P>
static ctl::RunResult execute(
    const Program& prog,
    bool claim,
    const ctl::RunOptions& opts,
    ctl::Trace& tr,
    const std::string& tag) {
  using Req = dispenso::AsyncRequest<P>;
  Registry::get().reset();
  Req* req = new Req();
  tr.line(resetLine(prog, moveMode<P>(), claim, tag));
  // (heap: after an execution that did not complete the controller still owns parked threads)
  ctl::Controller* cp = new ctl::Controller(tr);
  ctl::Controller& c = *cp;
  c.setProjection([req](Json& j) {
    j.kv("state", (long long)req->state_.load());
    long long o = 0;
    if (req->obj_.has_value())
      o = req->obj_.value().id ? req->obj_.value().id : -1;
    j.kv("obj", o);
    j.kv("live", Registry::get().liveCount());
    j.kv("errs", Registry::get().errorCount());
  });
  for (auto& th : prog) {
    const std::vector<OpDesc>* ops = &th.second;
    c.addThread(th.first, [req, ops]() {
      for (auto& o : *ops) {
        long long r = doOp(*req, o);
        ctl::ret(r);
      }
    });
  }
  ctl::RunResult res = c.run(opts);
  if (res.completed) {
    delete cp;
    delete req;
    Json j;
    j.beginObj();
    j.kv("e", std::string("Destroy"));
    j.kv("live", Registry::get().liveCount());
    j.kv("errs", Registry::get().errorCount());
    j.endObj();
    tr.line(j.s);
  }
  return res;
}

template <class P>
static int runAll(const drv::Args& a) {
  ctl::Trace tr(a.str("out", "trace.ndjson"));
  drv::Totals tot;
  Program prog = parseProg(a.str("prog", "c1:req,get;p1:emp1"));
  bool claim = a.num("claim", 1) != 0;
  if (a.has("schedules")) {
    auto scheds = ctl::readSchedules(a.str("schedules"));
    size_t idx = 0;
    for (auto& s : scheds) {
      ctl::RunOptions o;
      o.mode = ctl::RunOptions::Replay;
      o.schedule = &s;
      auto r = execute<P>(prog, claim, o, tr, "sched" + std::to_string(idx++));
      tot.add(r);
      if (!r.completed)
        break; // threads may still be parked: this process cannot run another execution
    }
  } else {
    long long n = a.num("random", 100);
    uint64_t seed = (uint64_t)a.num("seed", 1);
    uint64_t prng = seed * 7919 + 17;
    int maxOps = (int)a.num("maxops", 3);
    for (long long i = 0; i < n; ++i) {
      ctl::RunOptions o;
      o.mode = ctl::RunOptions::Random;
      o.seed = seed * 1000003ULL + (uint64_t)i;
      o.pctDepth = (int)a.num("pct", 0);
      Program p = a.has("randprog") ? randomProgram(prng, maxOps) : prog;
      auto r = execute<P>(p, claim, o, tr, "rand" + std::to_string(i));
      tot.add(r);
      if (!r.completed)
        break;
    }
  }
  tr.flush();
  tot.print();
  return 0;
}

int main(int argc, char** argv) {
  drv::Args a(argc, argv);
  int rc;
  if (a.str("payload", "tracked") == "pod")
    rc = runAll<Pod>(a);
  else
    rc = runAll<ctl::Tracked>(a);
  fflush(stdout);
  _exit(rc); // parked threads of an aborted execution must not block exit
}
