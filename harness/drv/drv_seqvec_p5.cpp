// drv_seqvec part 5: element size 64 bytes (first bucket 4), kIteratorPreferSpeed = true;
// buffer placement x reallocation strategy = 6 instantiations of Runner (see drv_seqvec_ops.h).
#include "drv_seqvec_ops.h"
namespace sv {
IRunner* makeF4Fast(ctl::Trace& tr, int inl, int strat) {
  return makePart<64, true>(tr, 4, inl, strat);
}
} // namespace sv
