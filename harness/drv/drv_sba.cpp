// Driver for dispenso's SmallBufferAllocator (spec/sba/Sba.tla, property C41).
//   --out FILE              trace (ndjson)
//   --chunk 256|128|64|16   block size N (allocSmallBuffer<N>)
//   --prog "a1:alloc1.32,alloc2.32,free1;a2:alloc3.32,free1;d1:bytes"
//                           allocK.N = N x allocSmallBuffer into slot K; freeK = dealloc all of slot K
//   --scale S               multiply every batch size of --prog by S (replay of the small model)
//   --schedules FILE        replay each schedule of FILE (one JSON array per line)
//   --random N --seed S [--pct D]  N random controlled executions (--randprog: random programs)
//
// Logical threads are REAL threads created per execution by the logical thread "main" and registered
// with the controller through the library-thread hooks, so that their thread_local destructors (the
// allocator's ~PerThreadQueuingData, site ExitEnq) run INSIDE the controlled window: a thread_local
// sentinel constructed first (hence destroyed last) reports the end of the logical thread.
//
// The allocator's globals live as long as the process.  Before every execution the driver empties the
// central store (the blocks are kept forever = "retired") and remembers the number of backing buffers
// nb0, so that every execution starts from {central = {}, nb = 0} relative to nb0.  Blocks are logged
// as byte offsets in the concatenation of the backing buffers created during the execution
// ((b - nb0) * kMallocBytes + offset in buffer b), never as addresses; -1 = not inside any of them.
#include <dispenso/detail/small_buffer_allocator_impl.h>
#include <dispenso/small_buffer_allocator.h>

#include <unistd.h>

#include <atomic>
#include <deque>
#include <thread>

#include "../ctl/ctl.h"
#include "../ctl/drv_common.h"

using ctl::Json;

struct OpDesc {
  std::string op;
  int k = 0;
  long long n = 0;
};
using Program = std::vector<std::pair<std::string, std::vector<OpDesc>>>;

static Program parseProg(const std::string& s, long long scale) {
  Program p;
  for (auto& th : drv::split(s, ';')) {
    if (th.empty())
      continue;
    auto nm = drv::split(th, ':');
    std::vector<OpDesc> ops;
    for (auto& o : drv::split(nm.size() > 1 ? nm[1] : "", ',')) {
      if (o.empty())
        continue;
      OpDesc d;
      size_t i = 0;
      while (i < o.size() && !isdigit((unsigned char)o[i]))
        ++i;
      d.op = o.substr(0, i);
      auto parts = drv::split(o.substr(i), '.');
      if (!parts.empty() && !parts[0].empty())
        d.k = atoi(parts[0].c_str());
      if (parts.size() > 1)
        d.n = atoll(parts[1].c_str()) * scale;
      ops.push_back(d);
    }
    p.emplace_back(nm[0], ops);
  }
  return p;
}

static void splitName(const std::string& name, std::string& kind, long long& idx) {
  size_t i = 0;
  while (i < name.size() && !isdigit((unsigned char)name[i]))
    ++i;
  kind = name.substr(0, i);
  idx = atoll(name.c_str() + i);
}

struct ThreadCtx {
  std::string name, kind;
  long long idx = 0;
  char** tlBuf = nullptr;
  size_t* tlCount = nullptr;
  std::atomic<bool> exited{false};
  const std::vector<OpDesc>* ops = nullptr;
};

struct Sentinel {
  ThreadCtx* tc = nullptr;
  ~Sentinel() {
    if (tc) {
      tc->exited.store(true);
      dispenso_verif_thread_end(tc->kind.c_str(), nullptr);
    }
  }
};

template <size_t N>
struct Run {
  using A = dispenso::detail::SmallBufferAllocator<N>;
  static constexpr long long kIdeal = (long long)A::kIdealNumTLBuffers;
  static constexpr long long kMaxTl = (long long)A::kMaxNumTLBuffers;
  static constexpr long long kPerMalloc = (long long)A::kBuffersPerMalloc;
  static constexpr long long kMallocBytes = (long long)A::kMallocBytes;
  static constexpr int kSlots = 6;

  dispenso::detail::SmallBufferGlobals& g = dispenso::detail::getSmallBufferGlobals<N>();
  size_t nb0 = 0;
  std::vector<char*> retired;
  std::vector<char*> slots[kSlots + 1];

  long long vOf(const char* p) const {
    for (size_t b = 0; b < g.backingStore.size(); ++b) {
      const char* base = g.backingStore[b];
      if (p >= base && p < base + kMallocBytes)
        return b < nb0 ? -2 : (long long)(b - nb0) * kMallocBytes + (p - base);
    }
    return -1;
  }

  void normalise() {
    char* p;
    while (g.centralStore.try_dequeue(p))
      retired.push_back(p);
    for (auto& s : slots) {
      retired.insert(retired.end(), s.begin(), s.end());
      s.clear();
    }
    nb0 = g.backingStore.size();
  }

  std::string resetLine(const Program& prog, const std::string& tag) {
    Json j;
    j.beginObj();
    j.kv("e", std::string("Reset"));
    j.kv("tag", tag);
    j.key("cfg").beginObj();
    j.kv("ideal", kIdeal);
    j.kv("maxtl", kMaxTl);
    j.kv("permalloc", kPerMalloc);
    j.kv("chunk", (long long)N);
    j.kv("mallocbytes", kMallocBytes);
    j.kv("nslots", (long long)kSlots);
    j.endObj();
    j.kv("lock0", (long long)g.backingStoreLock.load());
    j.key("prog").beginObj();
    for (auto& th : prog) {
      j.key(th.first.c_str()).beginArr();
      for (auto& o : th.second) {
        j.beginObj();
        j.kv("op", o.op);
        j.kv("k", o.k);
        j.kv("n", o.n);
        j.endObj();
      }
      j.endArr();
    }
    j.endObj();
    j.endObj();
    return j.s;
  }

  void doOp(const OpDesc& o) {
    if (o.op == "alloc") {
      if (!slots[o.k].empty())
        return; // slot in use: skipped (the specification does the same)
      std::vector<char*> got;
      got.reserve((size_t)o.n);
      for (long long i = 0; i < o.n; ++i) {
        char* p = dispenso::allocSmallBuffer<N>();
        ctl::ret(vOf(p));
        ctl::ret((long long)(reinterpret_cast<uintptr_t>(p) % N));
        got.push_back(p);
      }
      slots[o.k].insert(slots[o.k].end(), got.begin(), got.end());
    } else if (o.op == "free") {
      std::vector<char*> mine;
      mine.swap(slots[o.k]);
      for (char* p : mine)
        dispenso::deallocSmallBuffer<N>(p);
    } else if (o.op == "bytes") {
      size_t b = dispenso::approxBytesAllocatedSmallBuffer<N>();
      ctl::ret((long long)b - (long long)nb0 * kMallocBytes);
    } else {
      fprintf(stderr, "ERROR drv_sba: unknown op %s\n", o.op.c_str());
      _exit(3);
    }
  }

  static void threadFn(Run* self, ThreadCtx* tc) {
    static thread_local Sentinel sentinel; // first thread_local of this thread => destroyed last
    sentinel.tc = tc;
    auto bnc = A::buffersAndCount();
    tc->tlBuf = std::get<0>(bnc);
    tc->tlCount = &std::get<1>(bnc);
    dispenso_verif_thread_begin(tc->kind.c_str(), nullptr, tc->idx); // parks at "Start"
    for (auto& o : *tc->ops) {
      ctl::point("OpStep");
      self->doOp(o);
    }
    // return => thread_local destructors: ~PerThreadQueuingData (ExitEnq), then ~Sentinel
  }

  ctl::RunResult execute(const Program& prog, ctl::RunOptions opts, ctl::Trace& tr,
                         const std::string& tag, drv::Totals& tot) {
    normalise();
    tr.line(resetLine(prog, tag));
    std::deque<ThreadCtx> tcs;
    for (auto& th : prog) {
      tcs.emplace_back();
      ThreadCtx& tc = tcs.back();
      tc.name = th.first;
      splitName(th.first, tc.kind, tc.idx);
      tc.ops = &th.second;
    }
    std::vector<std::thread> real;
    ctl::Controller c(tr);
    c.setProjection([this, &tcs](Json& j) {
      j.kv("lock", (long long)g.backingStoreLock.load());
      j.kv("nb", (long long)g.backingStore.size() - (long long)nb0);
      j.kv("central", (long long)g.centralStore.size_approx());
      j.key("bmod").beginArr();
      for (size_t b = nb0; b < g.backingStore.size(); ++b)
        j.num((long long)(reinterpret_cast<uintptr_t>(g.backingStore[b]) % N));
      j.endArr();
      j.key("cache").beginObj();
      for (auto& tc : tcs) {
        j.key(tc.name.c_str()).beginArr();
        if (!tc.exited.load() && tc.tlBuf)
          for (size_t i = 0; i < *tc.tlCount; ++i)
            j.num(vOf(tc.tlBuf[i]));
        j.endArr();
      }
      j.endObj();
    });
    c.addThread("main", [&]() {
      for (auto& tc : tcs) {
        real.emplace_back(threadFn, this, &tc);
        dispenso_verif_thread_spawned(tc.kind.c_str(), nullptr, tc.idx);
      }
    });
    ctl::Schedule withMain;
    if (opts.mode == ctl::RunOptions::Replay && opts.schedule) {
      ctl::Step st;
      st.thread = "main";
      st.action = "Start";
      withMain.push_back(st);
      withMain.insert(withMain.end(), opts.schedule->begin(), opts.schedule->end());
      opts.schedule = &withMain;
    }
    ctl::RunResult res = c.run(opts);
    if (!res.completed) {
      // threads are parked inside objects of this frame: report and terminate the process right here
      tot.add(res);
      tr.flush();
      tot.print();
      _exit(0);
    }
    for (auto& t : real)
      t.join();
    return res;
  }

  Program randomProgram(uint64_t& rng) {
    static const long long sizes[] = {1, 2, kIdeal - 1, kIdeal, kIdeal + 1, 2 * kIdeal - 1,
                                      2 * kIdeal, 2 * kIdeal + 1, 3 * kIdeal, kPerMalloc, kPerMalloc + 1};
    Program p;
    int nalloc = 1 + (int)(ctl::splitmix(rng) % 3);
    int ndiag = (int)(ctl::splitmix(rng) % 3);
    if (nalloc + ndiag > 4)
      ndiag = 4 - nalloc;
    for (int t = 0; t < nalloc; ++t) {
      std::vector<OpDesc> ops;
      int nops = 1 + (int)(ctl::splitmix(rng) % 5);
      for (int i = 0; i < nops; ++i) {
        OpDesc d;
        unsigned r = (unsigned)(ctl::splitmix(rng) % 16);
        if (r < 7) {
          d.op = "alloc";
          d.k = 1 + (int)(ctl::splitmix(rng) % kSlots);
          d.n = sizes[ctl::splitmix(rng) % (sizeof(sizes) / sizeof(sizes[0]))];
          if (d.n < 1)
            d.n = 1;
        } else if (r < 14) {
          d.op = "free";
          d.k = 1 + (int)(ctl::splitmix(rng) % kSlots);
        } else {
          d.op = "bytes";
        }
        ops.push_back(d);
      }
      p.emplace_back("a" + std::to_string(t + 1), ops);
    }
    for (int t = 0; t < ndiag; ++t) {
      std::vector<OpDesc> ops;
      int nops = 1 + (int)(ctl::splitmix(rng) % 3);
      for (int i = 0; i < nops; ++i) {
        OpDesc d;
        d.op = "bytes";
        ops.push_back(d);
      }
      p.emplace_back("d" + std::to_string(t + 1), ops);
    }
    return p;
  }

  int runAll(const drv::Args& a) {
    ctl::Trace tr(a.str("out", "trace.ndjson"));
    drv::Totals tot;
    Program prog = parseProg(a.str("prog", "a1:alloc1.1,free1"), a.num("scale", 1));
    if (a.has("schedules")) {
      auto scheds = ctl::readSchedules(a.str("schedules"));
      size_t idx = 0;
      for (auto& s : scheds) {
        ctl::RunOptions o;
        o.mode = ctl::RunOptions::Replay;
        o.schedule = &s;
        auto r = execute(prog, o, tr, "sched" + std::to_string(idx++), tot);
        tot.add(r);
        if (!r.completed)
          break;
      }
    } else {
      long long n = a.num("random", 100);
      uint64_t seed = (uint64_t)a.num("seed", 1);
      uint64_t prng = seed * 7919 + 17 + N;
      for (long long i = 0; i < n; ++i) {
        ctl::RunOptions o;
        o.mode = ctl::RunOptions::Random;
        o.seed = seed * 1000003ULL + (uint64_t)i;
        o.pctDepth = (int)a.num("pct", 0);
        o.maxSteps = 20000;
        Program p = a.has("randprog") ? randomProgram(prng) : prog;
        auto r = execute(p, o, tr, "rand" + std::to_string(o.seed), tot);
        tot.add(r);
        if (!r.completed)
          break;
      }
    }
    tr.flush();
    tot.print();
    return 0;
  }
};

int main(int argc, char** argv) {
  drv::Args a(argc, argv);
  long long chunk = a.num("chunk", 256);
  int rc;
  if (chunk == 256)
    rc = Run<256>().runAll(a);
  else if (chunk == 128)
    rc = Run<128>().runAll(a);
  else if (chunk == 64)
    rc = Run<64>().runAll(a);
  else if (chunk == 16)
    rc = Run<16>().runAll(a);
  else {
    fprintf(stderr, "ERROR drv_sba: unsupported chunk\n");
    return 3;
  }
  fflush(stdout);
  _exit(rc);
}
