// Driver for dispenso::SmallVector<T, N> (spec/seq/SmallVec.tla), property C38.
//
// Sequential component: no scheduler.  Every public operation the specification takes is executed
// on the real object and one ndjson line is written per operation (see SmallVecTrace.tla):
//   {"e":action,"c":[object,args...],"r":[returned values],
//    "s":{"a":{st,el,am,sz,cap,heap,own},"b":{...}},"live":n,"blk":n,"errs":n}
// (el..heap only for an object in state "ok"; am[i] = address of element i mod alignof(T))
// The C++ side never judges anything: TLC validates the lines against the specification.
//
//   --out FILE                 trace
//   --schedules FILE           replay (bin/walker.py output; step = {"a":Action,"t":"<<\"a\", 3>>"});
//                              the first step of a schedule is Config(<<N, mode, maxsz, budget>>)
//   --random K --len L --seed S --N n     K random executions of L legal operations
//   --T int|big|both           element type: tracked int / alignas(64) tracked struct
//
// Allocation: the global operator new/delete (and malloc/free as seen by this program, through
// -Wl,--wrap) are replaced by a CONFORMING BUT ADVERSARIAL allocator: every block is aligned to
// exactly __STDCPP_DEFAULT_NEW_ALIGNMENT__ (address % (2*alignment) == alignment), never more.  The
// property is quantified over every conforming allocator; this one makes the outcome deterministic.
// Aligned overloads (C++17) honour the requested alignment.  Blocks obtained while a SmallVector
// operation executes are counted ("blk"): a leaked or doubly freed heap buffer shows up in the trace.
#include <cstddef>
#include <cstdint>
#include <cstdio>
#include <cstdlib>
#include <cstring>
#include <new>
#include <string>
#include <vector>

#include <unistd.h>

#include <dispenso/small_vector.h>

#include "../ctl/ctl.h"
#include "../ctl/drv_common.h"
#include "seq_common.h"

using ctl::Json;

// ------------------------------------------------------------------------------------ allocator
extern "C" void* __real_malloc(size_t);
extern "C" void __real_free(void*);

namespace {
struct Hdr {
  uint64_t magic;
  void* base;
  uint64_t inOp;
  uint64_t pad;
};
static_assert(sizeof(Hdr) == 32, "header keeps 16-byte alignment");
const uint64_t kLive = 0x53564543414c4956ULL, kFreed = 0x5356454346524544ULL;
bool g_inOp = false;
long long g_blk = 0; // outstanding blocks allocated while an operation was executing
long long g_allocErrs = 0; // double free of one of our blocks

#ifdef __STDCPP_DEFAULT_NEW_ALIGNMENT__
const size_t kDefaultNewAlign = __STDCPP_DEFAULT_NEW_ALIGNMENT__;
#else
const size_t kDefaultNewAlign = alignof(std::max_align_t);
#endif

// block aligned to `align` and to nothing stricter
void* advAlloc(size_t n, size_t align) {
  if (align < kDefaultNewAlign)
    align = kDefaultNewAlign;
  char* raw = static_cast<char*>(__real_malloc(n + sizeof(Hdr) + 3 * align));
  if (!raw)
    return nullptr;
  uintptr_t q = reinterpret_cast<uintptr_t>(raw) + sizeof(Hdr);
  q = (q + 2 * align - 1) & ~(uintptr_t)(2 * align - 1);
  q += align; // q % (2*align) == align
  Hdr* h = reinterpret_cast<Hdr*>(q - sizeof(Hdr));
  h->magic = kLive;
  h->base = raw;
  h->inOp = g_inOp ? 1 : 0;
  if (g_inOp)
    ++g_blk;
  return reinterpret_cast<void*>(q);
}
void advFree(void* p) {
  if (!p)
    return;
  Hdr* h = reinterpret_cast<Hdr*>(static_cast<char*>(p) - sizeof(Hdr));
  if (h->magic == kLive) {
    if (h->inOp)
      --g_blk;
    h->magic = kFreed;
    __real_free(h->base);
  } else if (h->magic == kFreed) {
    ++g_allocErrs; // double free
  } else {
    __real_free(p); // not one of ours (allocated inside libc)
  }
}
} // namespace

extern "C" void* __wrap_malloc(size_t n) {
  return advAlloc(n, alignof(std::max_align_t));
}
extern "C" void __wrap_free(void* p) {
  advFree(p);
}

void* operator new(size_t n) {
  void* p = advAlloc(n ? n : 1, kDefaultNewAlign);
  if (!p)
    throw std::bad_alloc();
  return p;
}
void* operator new[](size_t n) {
  return operator new(n);
}
void* operator new(size_t n, const std::nothrow_t&) noexcept {
  return advAlloc(n ? n : 1, kDefaultNewAlign);
}
void* operator new[](size_t n, const std::nothrow_t&) noexcept {
  return advAlloc(n ? n : 1, kDefaultNewAlign);
}
void operator delete(void* p) noexcept {
  advFree(p);
}
void operator delete[](void* p) noexcept {
  advFree(p);
}
void operator delete(void* p, size_t) noexcept {
  advFree(p);
}
void operator delete[](void* p, size_t) noexcept {
  advFree(p);
}
void operator delete(void* p, const std::nothrow_t&) noexcept {
  advFree(p);
}
void operator delete[](void* p, const std::nothrow_t&) noexcept {
  advFree(p);
}
#if defined(__cpp_aligned_new)
void* operator new(size_t n, std::align_val_t a) {
  void* p = advAlloc(n ? n : 1, static_cast<size_t>(a));
  if (!p)
    throw std::bad_alloc();
  return p;
}
void* operator new[](size_t n, std::align_val_t a) {
  return operator new(n, a);
}
void* operator new(size_t n, std::align_val_t a, const std::nothrow_t&) noexcept {
  return advAlloc(n ? n : 1, static_cast<size_t>(a));
}
void* operator new[](size_t n, std::align_val_t a, const std::nothrow_t&) noexcept {
  return advAlloc(n ? n : 1, static_cast<size_t>(a));
}
void operator delete(void* p, std::align_val_t) noexcept {
  advFree(p);
}
void operator delete[](void* p, std::align_val_t) noexcept {
  advFree(p);
}
void operator delete(void* p, size_t, std::align_val_t) noexcept {
  advFree(p);
}
void operator delete[](void* p, size_t, std::align_val_t) noexcept {
  advFree(p);
}
void operator delete(void* p, std::align_val_t, const std::nothrow_t&) noexcept {
  advFree(p);
}
void operator delete[](void* p, std::align_val_t, const std::nothrow_t&) noexcept {
  advFree(p);
}
#endif

// ------------------------------------------------------------------------------------ runner
template <class SV, class T>
void initList(void* where, long long n) {
  switch (n) {
    case 0:
      new (where) SV(std::initializer_list<T>{});
      break;
    case 1:
      new (where) SV({T(1)});
      break;
    case 2:
      new (where) SV({T(1), T(2)});
      break;
    case 3:
      new (where) SV({T(1), T(2), T(3)});
      break;
    case 4:
      new (where) SV({T(1), T(2), T(3), T(4)});
      break;
    case 5:
      new (where) SV({T(1), T(2), T(3), T(4), T(5)});
      break;
    case 6:
      new (where) SV({T(1), T(2), T(3), T(4), T(5), T(6)});
      break;
    case 7:
      new (where) SV({T(1), T(2), T(3), T(4), T(5), T(6), T(7)});
      break;
    case 8:
      new (where) SV({T(1), T(2), T(3), T(4), T(5), T(6), T(7), T(8)});
      break;
    case 9:
      new (where) SV({T(1), T(2), T(3), T(4), T(5), T(6), T(7), T(8), T(9)});
      break;
    case 10:
      new (where) SV({T(1), T(2), T(3), T(4), T(5), T(6), T(7), T(8), T(9), T(10)});
      break;
    case 11:
      new (where) SV({T(1), T(2), T(3), T(4), T(5), T(6), T(7), T(8), T(9), T(10), T(11)});
      break;
    case 12:
      new (where) SV({T(1), T(2), T(3), T(4), T(5), T(6), T(7), T(8), T(9), T(10), T(11), T(12)});
      break;
    default:
      fprintf(stderr, "ERROR drv_smallvec: CtorInit count %lld unsupported\n", n);
      _exit(3);
  }
}
const long long kMaxInit = 12;

enum { NONE = 0, OK = 1, MOVED = 2 };

template <class T, size_t N>
struct Runner {
  using SV = dispenso::SmallVector<T, N>;
  // the vector objects live in static storage aligned by the compiler (never from operator new:
  // in C++14 a new-expression would not honour the extended alignment of SmallVector<TBig, N>)
  struct Slot {
    alignas(alignof(SV) > 64 ? alignof(SV) : 64) unsigned char b[sizeof(SV)];
  };
  static Slot* storage() {
    static Slot s[2];
    return s;
  }
  Slot* slots = storage();
  int stt[2] = {NONE, NONE};
  ctl::Trace& tr;
  long long steps = 0;

  explicit Runner(ctl::Trace& t) : tr(t) {}

  SV& v(int i) {
    return *reinterpret_cast<SV*>(slots[i].b);
  }
  static int oi(const Arg& a) {
    if (a.s == "a")
      return 0;
    if (a.s == "b")
      return 1;
    fprintf(stderr, "ERROR drv_smallvec: unknown object '%s'\n", a.s.c_str());
    _exit(3);
  }

  void exec(const Call& k, std::vector<long long>& r) {
    const std::string& a = k.act;
    int o = oi(k.c[0]);
    void* where = slots[o].b;
    g_inOp = true;
    if (a == "CtorDefault") {
      new (where) SV();
      stt[o] = OK;
    } else if (a == "CtorCount") {
      new (where) SV(static_cast<size_t>(k.num(1)));
      stt[o] = OK;
    } else if (a == "CtorFill") {
      T val(static_cast<int>(k.num(2)));
      new (where) SV(static_cast<size_t>(k.num(1)), val);
      stt[o] = OK;
    } else if (a == "CtorInit") {
      initList<SV, T>(where, k.num(1));
      stt[o] = OK;
    } else if (a == "CopyCtor") {
      int s = oi(k.c[1]);
      new (where) SV(static_cast<const SV&>(v(s)));
      stt[o] = OK;
    } else if (a == "MoveCtor") {
      int s = oi(k.c[1]);
      new (where) SV(std::move(v(s)));
      stt[o] = OK;
      stt[s] = MOVED;
    } else if (a == "Destroy") {
      v(o).~SV();
      stt[o] = NONE;
    } else if (a == "CopyAssign") {
      int s = oi(k.c[1]);
      const SV& src = v(s);
      v(o) = src;
      stt[o] = OK;
    } else if (a == "MoveAssign") {
      int s = oi(k.c[1]);
      SV& src = v(s);
      v(o) = std::move(src);
      stt[o] = OK;
      stt[s] = MOVED; // also for s == o: valid but unspecified
    } else if (a == "PushBackCopy") {
      T val(static_cast<int>(k.num(1)));
      v(o).push_back(val);
    } else if (a == "PushBackMove") {
      T val(static_cast<int>(k.num(1)));
      v(o).push_back(std::move(val));
    } else if (a == "EmplaceBack") {
      T& ref = v(o).emplace_back(static_cast<int>(k.num(1)));
      r.push_back(ref.id);
      r.push_back(&ref == &v(o)[v(o).size() - 1] ? 1 : 0);
    } else if (a == "PushBackSelf") {
      v(o).push_back(v(o)[static_cast<size_t>(k.num(1))]);
    } else if (a == "PopBack") {
      v(o).pop_back();
    } else if (a == "Resize") {
      v(o).resize(static_cast<size_t>(k.num(1)));
    } else if (a == "ResizeFill") {
      T val(static_cast<int>(k.num(2)));
      v(o).resize(static_cast<size_t>(k.num(1)), val);
    } else if (a == "ResizeSelf") {
      v(o).resize(static_cast<size_t>(k.num(1)), v(o)[static_cast<size_t>(k.num(2))]);
    } else if (a == "Reserve") {
      v(o).reserve(static_cast<size_t>(k.num(1)));
    } else if (a == "Clear") {
      v(o).clear();
      stt[o] = OK;
    } else if (a == "Erase") {
      auto it = v(o).erase(v(o).begin() + k.num(1));
      r.push_back(it - v(o).begin());
    } else if (a == "SetAt") {
      v(o)[static_cast<size_t>(k.num(1))] = T(static_cast<int>(k.num(2)));
    } else if (a == "At") {
      const SV& cv = v(o);
      r.push_back(v(o)[static_cast<size_t>(k.num(1))].id);
      r.push_back(cv[static_cast<size_t>(k.num(1))].id);
    } else if (a == "FrontOp") {
      const SV& cv = v(o);
      r.push_back(v(o).front().id);
      r.push_back(cv.front().id);
    } else if (a == "BackOp") {
      const SV& cv = v(o);
      r.push_back(v(o).back().id);
      r.push_back(cv.back().id);
    } else if (a == "Size") {
      r.push_back((long long)v(o).size());
    } else if (a == "Capacity") {
      r.push_back((long long)v(o).capacity());
    } else if (a == "Empty") {
      r.push_back(v(o).empty() ? 1 : 0);
    } else if (a == "Iterate") {
      for (auto it = v(o).begin(); it != v(o).end(); ++it)
        r.push_back(it->id);
    } else if (a == "CIterate") {
      const SV& cv = v(o);
      for (auto it = v(o).cbegin(); it != v(o).cend(); ++it)
        r.push_back(it->id);
      for (auto it = cv.begin(); it != cv.end(); ++it)
        r.push_back(it->id);
    } else if (a == "Data") {
      const SV& cv = v(o);
      for (size_t i = 0; i < v(o).size(); ++i)
        r.push_back(v(o).data()[i].id);
      for (size_t i = 0; i < cv.size(); ++i)
        r.push_back(cv.data()[i].id);
    } else {
      fprintf(stderr, "ERROR drv_smallvec: unknown action %s\n", a.c_str());
      _exit(3);
    }
    g_inOp = false;
  }

  void projectObj(Json& j, int o) {
    static const char* names[] = {"none", "ok", "moved"};
    j.beginObj();
    j.kv("st", std::string(names[stt[o]]));
    const unsigned char* lo = slots[o].b;
    long long own = g_reg.liveIn(lo, lo + sizeof(SV));
    std::vector<long long> el, am;
    long long sz = 0, cap = 0, heap = 0;
    if (stt[o] != NONE) {
      SV& x = v(o);
      if (!x.isInline()) {
        const T* hp = x.storage_.heap_.ptr;
        own += g_reg.liveIn(hp, hp + x.storage_.heap_.capacity);
      }
      if (stt[o] == OK) {
        heap = x.isInline() ? 0 : 1;
        sz = (long long)x.size();
        cap = (long long)x.capacity();
        for (auto it = x.begin(); it != x.end(); ++it) {
          el.push_back(it->id);
          am.push_back((long long)(reinterpret_cast<uintptr_t>(&*it) % alignof(T)));
        }
      }
    }
    if (stt[o] == OK) { // other states: only st and own are recorded (R6: moved-from is not compared)
      j.arr("el", el.begin(), el.end());
      j.arr("am", am.begin(), am.end());
      j.kv("sz", sz);
      j.kv("cap", cap);
      j.kv("heap", heap);
    }
    j.kv("own", own);
    j.endObj();
  }

  void step(const Call& k) {
    std::vector<long long> r;
    r.reserve(512); // so that recording results never allocates while the operation is counted
    exec(k, r);
    ++steps;
    Json j;
    j.beginObj();
    j.kv("e", k.act);
    j.key("c").beginArr();
    for (auto& a : k.c) {
      if (a.isStr)
        j.str(a.s);
      else
        j.num(a.n);
    }
    j.endArr();
    j.arr("r", r.begin(), r.end());
    j.key("s").beginObj();
    j.key("a");
    projectObj(j, 0);
    j.key("b");
    projectObj(j, 1);
    j.endObj();
    j.kv("live", (long long)g_reg.n);
    j.kv("blk", g_blk);
    j.kv("errs", g_reg.errs + g_allocErrs);
    j.endObj();
    tr.line(j.s);
    tr.flush(); // a crash in the next operation leaves only complete lines behind
  }

  void begin(const char* tname, const std::string& tag) {
    g_reg.reset();
    g_blk = 0;
    g_allocErrs = 0;
    Json j;
    j.beginObj();
    j.kv("e", std::string("Reset"));
    j.kv("N", (long long)N);
    j.kv("T", std::string(tname));
    j.kv("tag", tag);
    j.endObj();
    tr.line(j.s);
  }

  void finish() {
    for (int o = 0; o < 2; ++o)
      if (stt[o] != NONE)
        step(mk("Destroy", {S(o == 0 ? "a" : "b")}));
    Json j;
    j.beginObj();
    j.kv("e", std::string("End"));
    j.kv("live", (long long)g_reg.n);
    j.kv("blk", g_blk);
    j.kv("errs", g_reg.errs + g_allocErrs);
    j.endObj();
    tr.line(j.s);
  }

  // ---------------------------------------------------------------- random legal programs
  // The shadow std::vector only decides which calls are LEGAL (R1); it judges nothing.
  void random(uint64_t seed, long long len, long long maxLen) {
    uint64_t rng = seed;
    std::vector<int> sh[2];
    int sst[2] = {NONE, NONE};
    int next = 1;
    static const char* kinds[] = {
        "CtorDefault", "CtorCount",    "CtorFill",     "CtorInit",    "CopyCtor",     "MoveCtor",
        "Destroy",     "CopyAssign",   "MoveAssign",   "PushBackCopy", "PushBackMove", "EmplaceBack",
        "PushBackSelf", "PopBack",     "Resize",       "ResizeFill",  "ResizeSelf",   "Reserve",
        "Clear",       "Erase",        "SetAt",        "At",          "FrontOp",      "BackOp",
        "Size",        "Capacity",     "Empty",        "Iterate",     "CIterate",     "Data",
        "PushBackCopy", "PushBackMove", "EmplaceBack", "PushBackCopy", "Erase",        "PopBack"};
    const size_t nk = sizeof(kinds) / sizeof(kinds[0]);
    auto rnd = [&](long long m) { return (long long)(ctl::splitmix(rng) % (uint64_t)m); };
    static const char* on[] = {"a", "b"};
    for (long long s = 0; s < len; ++s) {
      for (int tries = 0; tries < 200; ++tries) {
        std::string a = kinds[rnd((long long)nk)];
        int o = (int)rnd(2), p = (int)rnd(2);
        long long sz = (long long)sh[o].size();
        Call k;
        bool ok = false;
        if (a == "CtorDefault") {
          if (sst[o] == NONE) {
            k = mk(a, {S(on[o])});
            sh[o].clear();
            sst[o] = OK;
            ok = true;
          }
        } else if (a == "CtorCount" || a == "CtorFill" || a == "CtorInit") {
          if (sst[o] == NONE) {
            long long n = rnd((a == "CtorInit" ? std::min(maxLen, kMaxInit) : maxLen) + 1);
            int val = next++;
            if (a == "CtorCount") {
              k = mk(a, {S(on[o]), I(n)});
              sh[o].assign((size_t)n, kDefaultId);
            } else if (a == "CtorFill") {
              k = mk(a, {S(on[o]), I(n), I(val)});
              sh[o].assign((size_t)n, val);
            } else {
              k = mk(a, {S(on[o]), I(n)});
              sh[o].clear();
              for (int i = 1; i <= n; ++i)
                sh[o].push_back(i);
            }
            sst[o] = OK;
            ok = true;
          }
        } else if (a == "CopyCtor" || a == "MoveCtor") {
          if (sst[o] == NONE && sst[p] == OK) {
            k = mk(a, {S(on[o]), S(on[p])});
            sh[o] = sh[p];
            sst[o] = OK;
            if (a == "MoveCtor") {
              sst[p] = MOVED;
              sh[p].clear();
            }
            ok = true;
          }
        } else if (a == "Destroy") {
          if (sst[o] != NONE && rnd(3) == 0) {
            k = mk(a, {S(on[o])});
            sh[o].clear();
            sst[o] = NONE;
            ok = true;
          }
        } else if (a == "CopyAssign" || a == "MoveAssign") {
          if (sst[o] != NONE && sst[p] == OK) {
            k = mk(a, {S(on[o]), S(on[p])});
            if (o != p) {
              sh[o] = sh[p];
              sst[o] = OK;
              if (a == "MoveAssign") {
                sst[p] = MOVED;
                sh[p].clear();
              }
            } else if (a == "MoveAssign") {
              sst[o] = MOVED;
              sh[o].clear();
            }
            ok = true;
          }
        } else if (a == "Clear") {
          if (sst[o] != NONE && rnd(3) == 0) {
            k = mk(a, {S(on[o])});
            sh[o].clear();
            sst[o] = OK;
            ok = true;
          }
        } else if (sst[o] == OK) {
          if (a == "PushBackCopy" || a == "PushBackMove" || a == "EmplaceBack") {
            if (sz < maxLen) {
              int val = next++;
              k = mk(a, {S(on[o]), I(val)});
              sh[o].push_back(val);
              ok = true;
            }
          } else if (a == "PushBackSelf") {
            if (sz > 0 && sz < maxLen) {
              long long i = rnd(sz);
              k = mk(a, {S(on[o]), I(i)});
              sh[o].push_back(sh[o][(size_t)i]);
              ok = true;
            }
          } else if (a == "PopBack") {
            if (sz > 0) {
              k = mk(a, {S(on[o])});
              sh[o].pop_back();
              ok = true;
            }
          } else if (a == "Resize") {
            long long n = rnd(maxLen + 1);
            k = mk(a, {S(on[o]), I(n)});
            sh[o].resize((size_t)n, kDefaultId);
            ok = true;
          } else if (a == "ResizeFill") {
            long long n = rnd(maxLen + 1);
            int val = next++;
            k = mk(a, {S(on[o]), I(n), I(val)});
            sh[o].resize((size_t)n, val);
            ok = true;
          } else if (a == "ResizeSelf") {
            if (sz > 0) {
              long long n = rnd(maxLen + 1), i = rnd(sz);
              k = mk(a, {S(on[o]), I(n), I(i)});
              int val = sh[o][(size_t)i];
              sh[o].resize((size_t)n, val);
              ok = true;
            }
          } else if (a == "Reserve") {
            k = mk(a, {S(on[o]), I(rnd(maxLen + 3))});
            ok = true;
          } else if (a == "Erase") {
            if (sz > 0) {
              long long i = rnd(sz);
              k = mk(a, {S(on[o]), I(i)});
              sh[o].erase(sh[o].begin() + i);
              ok = true;
            }
          } else if (a == "SetAt") {
            if (sz > 0) {
              long long i = rnd(sz);
              int val = next++;
              k = mk(a, {S(on[o]), I(i), I(val)});
              sh[o][(size_t)i] = val;
              ok = true;
            }
          } else if (a == "At") {
            if (sz > 0) {
              k = mk(a, {S(on[o]), I(rnd(sz))});
              ok = true;
            }
          } else if (a == "FrontOp" || a == "BackOp") {
            if (sz > 0) {
              k = mk(a, {S(on[o])});
              ok = true;
            }
          } else { // Size Capacity Empty Iterate CIterate Data
            k = mk(a, {S(on[o])});
            ok = true;
          }
        }
        if (ok) {
          step(k);
          break;
        }
      }
    }
  }
};

// --------------------------------------------------------------------------------------- main
struct Out {
  ctl::Trace* tr;
  drv::Totals tot;
};

template <class T, size_t N>
void runSchedule(Out& out, const std::vector<Call>& sch, const char* tname, const std::string& tag) {
  Runner<T, N> r(*out.tr);
  r.begin(tname, tag);
  for (size_t i = 1; i < sch.size(); ++i)
    r.step(sch[i]);
  r.finish();
  out.tot.executions++;
  out.tot.completed++;
  out.tot.steps += r.steps;
}

template <class T, size_t N>
void runRandom(Out& out, uint64_t seed, long long len, const char* tname, const std::string& tag) {
  Runner<T, N> r(*out.tr);
  r.begin(tname, tag);
  r.random(seed, len, (long long)(3 * N + 4));
  r.finish();
  out.tot.executions++;
  out.tot.completed++;
  out.tot.steps += r.steps;
}

template <class T>
void dispatchSchedule(Out& out, long long n, const std::vector<Call>& sch, const char* tname, const std::string& tag) {
  if (n == 1)
    runSchedule<T, 1>(out, sch, tname, tag);
  else if (n == 2)
    runSchedule<T, 2>(out, sch, tname, tag);
  else if (n == 4)
    runSchedule<T, 4>(out, sch, tname, tag);
  else {
    fprintf(stderr, "ERROR drv_smallvec: unsupported N %lld\n", n);
    _exit(3);
  }
}
template <class T>
void dispatchRandom(Out& out, long long n, uint64_t seed, long long len, const char* tname, const std::string& tag) {
  if (n == 1)
    runRandom<T, 1>(out, seed, len, tname, tag);
  else if (n == 2)
    runRandom<T, 2>(out, seed, len, tname, tag);
  else if (n == 4)
    runRandom<T, 4>(out, seed, len, tname, tag);
  else {
    fprintf(stderr, "ERROR drv_smallvec: unsupported N %lld\n", n);
    _exit(3);
  }
}

int main(int argc, char** argv) {
  drv::Args a(argc, argv);
  ctl::Trace tr(a.str("out", "trace.ndjson"));
  Out out;
  out.tr = &tr;
  std::string ty = a.str("T", "both");
  bool doInt = ty == "int" || ty == "both", doBig = ty == "big" || ty == "both";
  if (a.has("schedules")) {
    auto scheds = readSchedules(a.str("schedules"));
    size_t idx = 0;
    for (auto& s : scheds) {
      if (s.empty() || s[0].act != "Config" || s[0].c.empty()) {
        fprintf(stderr, "ERROR drv_smallvec: schedule %zu does not start with Config\n", idx);
        return 3;
      }
      long long n = s[0].c[0].n;
      std::string tag = "sched" + std::to_string(idx++);
      if (doInt)
        dispatchSchedule<TInt>(out, n, s, "int", tag);
      if (doBig)
        dispatchSchedule<TBig>(out, n, s, "big", tag);
    }
  } else {
    long long k = a.num("random", 10), len = a.num("len", 40), n = a.num("N", 2);
    uint64_t seed = (uint64_t)a.num("seed", 1);
    for (long long i = 0; i < k; ++i) {
      uint64_t s = seed * 1000003ULL + (uint64_t)i * 7919ULL + (uint64_t)n;
      std::string tag = "rand" + std::to_string(s);
      if (doInt)
        dispatchRandom<TInt>(out, n, s, len, "int", tag);
      if (doBig)
        dispatchRandom<TBig>(out, n, s + 1, len, "big", tag);
    }
  }
  tr.flush();
  out.tot.print();
  return 0;
}
