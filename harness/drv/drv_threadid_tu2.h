// Interface of the second translation unit of the threadId() driver (see drv_threadid_tu2.cpp).
#pragma once

#include <dispenso/distributed_rw_lock.h>

#include <cstdint>

namespace tidtu2 {

using Lock = dispenso::DistributedRWLock<16>;

// dispenso::threadId() as seen from code compiled in drv_threadid_tu2.cpp
uint64_t threadId();
// the header-only reader path of DistributedRWLock (sub-lock chosen with threadId()) as compiled in
// drv_threadid_tu2.cpp
void lockShared(Lock& l);
void unlockShared(Lock& l);

} // namespace tidtu2
