// Driver for dispenso::ResourcePool / dispenso::Resource (spec/respool/ResPool.tla, property C25).
//   --out FILE            trace (ndjson)
//   --size N              number of resources (1..4)
//   --prog "t1:acq1,acq2,mva12,rel1,rel2;t2:acq1,mvc12,smv2,get2,rel1,rel2"
//                         ops: acqA relA mvcAB mvaAB smvA getA  (A,B = handle slot 1|2 of the thread)
//   --schedules FILE      replay each schedule of FILE (one JSON array per line)
//   --random N --seed S [--pct D] [--randprog]   N random controlled executions
//   --free N --seed S     N free-running executions (real threads, real blocking in acquire());
//                         invoke/response events only (ResPoolFree.tla)
//   --many N --seed S [--threads T] [--laps K]
//                         N free-running rounds with MANY simultaneously live user threads (default
//                         4*max(4,hardware threads)+8, at least 64) taking strict turns on K small
//                         pools one after the other (odd rounds: one pool, threads exit after their
//                         turn); same events / same specification as --free (see executeMany)
//
// Controlled mode: the moodycamel queue is a black box and every queue call is one step.  The
// blocking wait_dequeue is never allowed to block the serialised run: the driver polls at the
// schedule point "Acquire" until a resource is available (the failed poll is the spec's "keep
// waiting" step) and then runs ResourcePool::acquire() to completion inside the same step (the
// library's own "Acquire" point is suppressed for that call).  "Recycle" is the library's point
// before pool_.enqueue(); operations that make no queue call get the driver point "Local".
#include <dispenso/resource_pool.h>

#include <unistd.h>

#include <algorithm>
#include <atomic>
#include <chrono>
#include <condition_variable>
#include <mutex>
#include <thread>

#include "../ctl/ctl.h"
#include "../ctl/drv_common.h"
#include "../ctl/tracked.h"

using ctl::Json;
using ctl::Registry;
using ctl::Tracked;
using Pool = dispenso::ResourcePool<Tracked>;
using Res = dispenso::Resource<Tracked>;

struct OpDesc {
  std::string op;
  int a = 0, b = 0;
};
using Program = std::vector<std::pair<std::string, std::vector<OpDesc>>>;

static Program parseProg(const std::string& s) {
  Program p;
  for (auto& th : drv::split(s, ';')) {
    if (th.empty())
      continue;
    auto nm = drv::split(th, ':');
    std::vector<OpDesc> ops;
    for (auto& o : drv::split(nm.size() > 1 ? nm[1] : "", ',')) {
      if (o.size() < 4)
        continue;
      OpDesc d;
      d.op = o.substr(0, 3);
      d.a = o[3] - '0';
      d.b = o.size() > 4 ? o[4] - '0' : 0;
      ops.push_back(d);
    }
    p.emplace_back(nm[0], ops);
  }
  return p;
}

static std::string resetLine(const Program& prog, int size, const std::string& tag) {
  Json j;
  j.beginObj();
  j.kv("e", std::string("Reset"));
  j.kv("size", size);
  j.kv("tag", tag);
  j.key("prog").beginObj();
  for (auto& th : prog) {
    j.key(th.first.c_str()).beginArr();
    for (auto& o : th.second) {
      j.beginObj();
      j.kv("op", o.op);
      j.kv("a", o.a);
      j.kv("b", o.b);
      j.endObj();
    }
    j.endArr();
  }
  j.endObj();
  j.endObj();
  return j.s;
}

// Random well-formed program.  Deadlock freedom: a thread may hold two resources at once only if
// `mayHoldTwo`; the caller grants that to fewer than `size` threads, so that
// sum over threads (max held - 1) < size and some waiting thread can always be served.
static std::vector<OpDesc> randomThread(uint64_t& rng, int maxOps, bool mayHoldTwo) {
  int st[3] = {0, -1, -1}; // slot state: -1 no object, 0 empty handle, 1 holds a resource
  std::vector<OpDesc> ops;
  int n = 1 + (int)(ctl::splitmix(rng) % (unsigned)maxOps);
  for (int k = 0; k < n; ++k) {
    for (int attempt = 0; attempt < 20; ++attempt) {
      unsigned r = (unsigned)(ctl::splitmix(rng) % 12);
      int a = 1 + (int)(ctl::splitmix(rng) % 2), b = 3 - a;
      int holding = (st[1] == 1) + (st[2] == 1);
      OpDesc d;
      d.a = a;
      if (r < 4) { // acq
        if (st[a] != -1 || (holding >= 1 && !mayHoldTwo))
          continue;
        d.op = "acq";
        st[a] = 1;
      } else if (r < 7) { // rel
        if (st[a] == -1)
          continue;
        d.op = "rel";
        st[a] = -1;
      } else if (r < 8) { // mvc a -> b
        if (st[a] == -1 || st[b] != -1)
          continue;
        d.op = "mvc";
        d.b = b;
        st[b] = st[a];
        st[a] = 0;
      } else if (r < 10) { // mva a -> b
        if (st[a] == -1 || st[b] == -1)
          continue;
        d.op = "mva";
        d.b = b;
        st[b] = st[a];
        st[a] = 0;
      } else if (r < 11) { // smv
        if (st[a] == -1)
          continue;
        d.op = "smv";
      } else { // get
        if (st[a] != 1)
          continue;
        d.op = "get";
      }
      ops.push_back(d);
      break;
    }
  }
  for (int a = 1; a <= 2; ++a)
    if (st[a] != -1) {
      OpDesc d;
      d.op = "rel";
      d.a = a;
      ops.push_back(d);
    }
  return ops;
}

static Program randomProgram(uint64_t& rng, int size, int maxThreads, int maxOps) {
  Program p;
  int nth = 2 + (int)(ctl::splitmix(rng) % (unsigned)(maxThreads - 1));
  int twoLeft = size - 1;
  for (int t = 0; t < nth; ++t) {
    bool two = twoLeft > 0 && (ctl::splitmix(rng) % 2) == 0;
    if (two)
      --twoLeft;
    p.emplace_back("t" + std::to_string(t + 1), randomThread(rng, maxOps, two));
  }
  return p;
}

// ---------------------------------------------------------------------------------- execution
struct ThreadCtx {
  alignas(Res) char buf[2][sizeof(Res)];
  bool live[2] = {false, false};
  uint64_t rng = 1;
  Res* slot(int a) {
    return reinterpret_cast<Res*>(buf[a - 1]);
  }
};

struct Exec {
  Pool* pool = nullptr;
  int size = 0;
  bool freeMode = false;
  ctl::Trace* tr = nullptr;
  std::vector<std::unique_ptr<ThreadCtx>> ctx;

  long long indexOf(const Tracked* p) const {
    if (!p)
      return 0;
    size_t stride = dispenso::detail::alignToCacheLine(sizeof(Tracked));
    return (long long)((reinterpret_cast<const char*>(p) - pool->backingResources_) / stride) + 1;
  }
  void ev(const char* e, long long r) {
    ctl::freeEvent(*tr, e, "\"r\":" + std::to_string(r));
  }

  long long doOp(ThreadCtx& c, const OpDesc& o) {
    if (o.op == "acq") {
      if (freeMode) {
        ctl::freeEvent(*tr, "AcqInv", "");
        new (c.slot(o.a)) Res(pool->acquire()); // may really block
        c.live[o.a - 1] = true;
        long long r = indexOf(c.slot(o.a)->resource_);
        ev("AcqRet", r);
        // hold the resource for a moment now and then, so that other threads really block
        uint64_t x = ctl::splitmix(c.rng);
        if (x & 1)
          std::this_thread::sleep_for(std::chrono::microseconds((x >> 8) % 200));
        return r;
      }
      for (;;) {
        ctl::point("Acquire", pool);
        if (pool->pool_.size_approx() > 0)
          break;
      }
      ctl::NoPointScope nps; // the rest of acquire() belongs to this step
      new (c.slot(o.a)) Res(pool->acquire());
      c.live[o.a - 1] = true;
      return indexOf(c.slot(o.a)->resource_);
    }
    if (o.op == "rel") {
      if (c.slot(o.a)->resource_) {
        if (freeMode)
          ev("Rel", indexOf(c.slot(o.a)->resource_)); // logged before the resource goes back
      } else
        ctl::point("Local", pool);
      c.slot(o.a)->~Res();
      c.live[o.a - 1] = false;
      return 0;
    }
    if (o.op == "mvc") {
      ctl::point("Local", pool);
      new (c.slot(o.b)) Res(std::move(*c.slot(o.a)));
      c.live[o.b - 1] = true;
      return 0;
    }
    if (o.op == "mva") {
      if (c.slot(o.b)->resource_) {
        if (freeMode)
          ev("Rel", indexOf(c.slot(o.b)->resource_));
      } else
        ctl::point("Local", pool);
      *c.slot(o.b) = std::move(*c.slot(o.a));
      return 0;
    }
    if (o.op == "smv") {
      ctl::point("Local", pool);
      Res& self = *c.slot(o.a);
      *c.slot(o.a) = std::move(self);
      return 0;
    }
    if (o.op == "get") {
      ctl::point("Local", pool);
      long long id = c.slot(o.a)->get().id;
      if (freeMode)
        ctl::freeEvent(
            *tr,
            "Get",
            "\"r\":" + std::to_string(indexOf(c.slot(o.a)->resource_)) +
                ",\"id\":" + std::to_string(id));
      return id;
    }
    fprintf(stderr, "ERROR drv_respool: unknown op %s\n", o.op.c_str());
    _exit(3);
  }

  void project(Json& j, const Program& prog) {
    j.kv("avail", (long long)pool->pool_.size_approx());
    j.key("h").beginObj();
    for (size_t t = 0; t < prog.size(); ++t) {
      j.key(prog[t].first.c_str()).beginArr();
      for (int a = 1; a <= 2; ++a)
        j.num(ctx[t]->live[a - 1] ? indexOf(ctx[t]->slot(a)->resource_) : -1);
      j.endArr();
    }
    j.endObj();
    j.key("ids").beginArr();
    size_t stride = dispenso::detail::alignToCacheLine(sizeof(Tracked));
    for (int i = 0; i < size; ++i)
      j.num(Registry::get().at(pool->backingResources_ + (size_t)i * stride));
    j.endArr();
    j.kv("errs", Registry::get().errorCount());
  }

  // pool destruction; the documented precondition (everything returned) is checked first so that
  // a leaked resource shows up in the trace instead of hanging the destructor
  void destroy() {
    long long returned = (long long)pool->pool_.size_approx();
    bool ok = returned == size;
    if (ok)
      delete pool;
    Json j;
    j.beginObj();
    j.kv("e", std::string("Destroy"));
    j.kv("returned", returned);
    j.kvb("destroyed", ok);
    j.kv("live", Registry::get().liveCount());
    j.kv("errs", Registry::get().errorCount());
    j.endObj();
    tr->line(j.s);
  }
};

static Pool* makePool(int size) {
  int next = 1;
  return new Pool((size_t)size, [&next]() { return Tracked(next++); });
}

static ctl::RunResult execute(
    const Program& prog,
    int size,
    const ctl::RunOptions& opts,
    ctl::Trace& tr,
    const std::string& tag) {
  Registry::get().reset();
  // heap objects: after an execution that did not complete, logical threads are still parked and
  // reference them (and the controller owns joinable threads), so they are leaked in that case
  Exec* ex = new Exec();
  ex->size = size;
  ex->tr = &tr;
  ex->pool = makePool(size);
  for (size_t t = 0; t < prog.size(); ++t)
    ex->ctx.emplace_back(new ThreadCtx());
  tr.line(resetLine(prog, size, tag));
  ctl::Controller* c = new ctl::Controller(tr);
  c->setProjection([ex, &prog](Json& j) { ex->project(j, prog); });
  for (size_t t = 0; t < prog.size(); ++t) {
    const std::vector<OpDesc>* ops = &prog[t].second;
    ThreadCtx* tc = ex->ctx[t].get();
    c->addThread(prog[t].first, [ex, tc, ops]() {
      for (auto& o : *ops) {
        long long r = ex->doOp(*tc, o);
        ctl::ret(r);
      }
    });
  }
  ctl::RunOptions o2 = opts;
  o2.watchdogSec = 10.0;
  ctl::RunResult res = c->run(o2);
  if (res.completed) {
    ex->destroy();
    delete c;
    delete ex;
  } else if (!res.deadlock && !res.diverged && !res.stuck) {
    res.stuck = true; // step budget exhausted: some thread waits in acquire() for ever
  }
  return res;
}

// ------------------------------------------------------------------------------- free-running
static bool executeFree(const Program& prog, int size, uint64_t seed, ctl::Trace& tr) {
  Registry::get().reset();
  Exec* ex = new Exec();
  ex->size = size;
  ex->tr = &tr;
  ex->freeMode = true;
  ex->pool = makePool(size);
  for (size_t t = 0; t < prog.size(); ++t) {
    ex->ctx.emplace_back(new ThreadCtx());
    ex->ctx.back()->rng = seed * 31 + t;
  }
  tr.line(resetLine(prog, size, "free" + std::to_string(seed)));
  // Free mode of the controller: threads run truly concurrently, points inject seeded delays.
  ctl::Controller* c = new ctl::Controller(tr);
  std::atomic<int> done{0};
  for (size_t t = 0; t < prog.size(); ++t) {
    const std::vector<OpDesc>* ops = &prog[t].second;
    ThreadCtx* tc = ex->ctx[t].get();
    c->addThread(prog[t].first, [ex, tc, ops, &done]() {
      for (auto& o : *ops)
        ex->doOp(*tc, o);
      done.fetch_add(1);
    });
  }
  // watchdog: a thread that never returns from acquire() although the program cannot deadlock
  std::atomic<bool> finished{false};
  std::thread runner([&]() {
    ctl::RunOptions o;
    o.mode = ctl::RunOptions::Free;
    o.seed = seed;
    c->run(o);
    finished.store(true);
  });
  auto t0 = std::chrono::steady_clock::now();
  while (!finished.load()) {
    std::this_thread::sleep_for(std::chrono::microseconds(200));
    if (std::chrono::steady_clock::now() - t0 > std::chrono::seconds(30)) {
      tr.line("{\"e\":\"Hang\",\"done\":" + std::to_string(done.load()) + "}");
      tr.flush();
      printf("DRIVER executions=1 steps=0 completed=0 deadlocks=1 diverged=0 stuck=0\n");
      fflush(stdout);
      _exit(0);
    }
  }
  runner.join();
  ex->destroy();
  delete c;
  delete ex;
  return true;
}

// ------------------------------------------------------------------- many live user threads
// The property quantifies over ALL threads that use a pool, not over a handful: "acquire() blocks
// only while all resources are held" and "every resource is returned" must also hold when the pool
// is shared by (many) more threads than it has resources / than the machine has hardware threads
// (oversubscribed applications, several thread pools sharing one ResourcePool, ...).  The other
// modes use 2-4 threads, so anything in the release/acquire path that is sized per thread (the
// queue keeps per-thread producer state) was never exercised beyond a few threads.
//
// One round: a crew of `nth` real threads u1..u_nth, ALL alive at the same time, uses a sequence of
// pools ("laps"; one pool at a time, `size` resources each, a new pool has never seen the threads).
// Within a lap the threads take strict turns (one global step counter, each step is executed by
// exactly one thread while all others wait) in the order
//     acq(u1) .. acq(u_hold), rel(u1), acq(u_hold+1), rel(u2), ..., rel(u_nth)
// so at most `hold` <= size handles are live at any moment and a resource is available whenever
// acquire() is called: for a correct pool acquire() NEVER blocks here, whatever the OS scheduler
// does.  Then one more thread (u0) acquires all `size` resources at once (nothing is held, so this
// must not block either), releases them and destroys the pool (must return, every resource destroyed
// exactly once) while the crew is still alive.  With `churn` every user thread exits right after its
// release instead of staying alive (many distinct threads over time, few alive; single lap).
// The invoke/response events are validated by TLC against ResPoolFree.tla like those of --free.
// A thread that does not come back from acquire()/~ResourcePool() (no event for kManyStallSec
// seconds although, by construction, nothing can be waiting for anything) is logged as a Hang
// record, which the specification never accepts, and reported as a deadlock on the DRIVER line.
static const int kManyStallSec = 10;

struct ManyLap {
  int size = 0, hold = 0;
  std::vector<long long> acqPos, relPos; // [1..nth], global step numbers
  long long finalPos = 0; // u0: acquire everything, destroy, next pool
};

struct ManyRound {
  Exec* ex = nullptr;
  int nth = 0;
  bool churn = false;
  std::string tag;
  std::vector<ManyLap> laps;
  std::mutex mu;
  std::condition_variable cvExit;
  std::vector<std::unique_ptr<std::condition_variable>> cvOf; // one per thread: no thundering herd
  std::vector<int> owner; // owner[pos] = index of the thread that executes step pos
  long long step = 0; // guarded by mu
  bool exitFlag = false; // guarded by mu
  std::atomic<bool> finished{false};
  std::atomic<long long> progress{0};
  std::atomic<int> inCall{-1}; // thread index that is inside acquire() / -2 inside ~ResourcePool()
  std::atomic<int> liveHandles{0};
  std::atomic<int> releasers{0}; // distinct threads that have returned a handle to the current pool
  std::atomic<int> curSize{0};

  static std::string name(int i) {
    return "u" + std::to_string(i);
  }
  void evt(const char* e, int i, const std::string& extra) {
    std::string l = std::string("{\"e\":\"") + e + "\",\"t\":\"" + name(i) + "\"";
    if (!extra.empty())
      l += "," + extra;
    l += "}";
    ex->tr->line(l);
  }
  void waitStep(int i, long long pos) {
    std::unique_lock<std::mutex> lk(mu);
    cvOf[i]->wait(lk, [&]() { return step == pos; });
  }
  void nextStep() {
    std::unique_lock<std::mutex> lk(mu);
    ++step;
    progress.fetch_add(1);
    cvOf[owner[step]]->notify_all();
  }
  Res* acquireLogged(int i, void* buf) {
    evt("AcqInv", i, "");
    inCall.store(i);
    Res* h = new (buf) Res(ex->pool->acquire()); // must not block (see above)
    inCall.store(-1);
    liveHandles.fetch_add(1);
    long long r = ex->indexOf(h->resource_);
    evt("AcqRet", i, "\"r\":" + std::to_string(r));
    long long id = h->get().id;
    evt("Get", i, "\"r\":" + std::to_string(r) + ",\"id\":" + std::to_string(id));
    progress.fetch_add(1);
    return h;
  }
  void releaseLogged(int i, Res* h) {
    evt("Rel", i, "\"r\":" + std::to_string(ex->indexOf(h->resource_))); // before it goes back
    liveHandles.fetch_sub(1);
    h->~Res();
    progress.fetch_add(1);
  }
  void user(int i) { // i = 1..nth
    alignas(Res) char buf[sizeof(Res)];
    for (auto& lap : laps) {
      waitStep(i, lap.acqPos[i]);
      Res* h = acquireLogged(i, buf);
      nextStep();
      waitStep(i, lap.relPos[i]);
      releaseLogged(i, h);
      releasers.fetch_add(1);
      nextStep();
    }
    if (!churn) { // stay alive: all nth threads are live users of the pool at the same time
      std::unique_lock<std::mutex> lk(mu);
      cvExit.wait(lk, [&]() { return exitFlag; });
    }
  }
  void newPool(size_t k) {
    Registry::get().reset();
    ex->size = laps[k].size;
    ex->pool = makePool(laps[k].size);
    curSize.store(laps[k].size);
    releasers.store(0);
    ex->tr->line(
        "{\"e\":\"Reset\",\"size\":" + std::to_string(laps[k].size) + ",\"tag\":\"" + tag + "_" +
        std::to_string(k) + "\",\"threads\":" + std::to_string(nth) +
        ",\"hold\":" + std::to_string(laps[k].hold) + ",\"churn\":" + (churn ? "true" : "false") + "}");
  }
  void coordinator() { // u0
    newPool(0);
    std::vector<std::thread> ths;
    for (int i = 1; i <= nth; ++i)
      ths.emplace_back([this, i]() { user(i); });
    for (size_t k = 0; k < laps.size(); ++k) {
      waitStep(0, laps[k].finalPos);
      // nothing is held now: all `size` resources can be acquired at once
      std::vector<std::unique_ptr<ThreadCtx>> bufs;
      std::vector<Res*> hs;
      for (int j = 0; j < laps[k].size; ++j) {
        bufs.emplace_back(new ThreadCtx());
        hs.push_back(acquireLogged(0, bufs.back()->buf[0]));
      }
      for (Res* h : hs)
        releaseLogged(0, h);
      inCall.store(-2);
      ex->destroy(); // logs Destroy; ~ResourcePool() only if everything came back (else it would hang)
      inCall.store(-1);
      progress.fetch_add(1);
      if (k + 1 < laps.size()) {
        newPool(k + 1);
        nextStep();
      }
    }
    {
      std::unique_lock<std::mutex> lk(mu);
      exitFlag = true;
      cvExit.notify_all();
    }
    for (auto& t : ths)
      t.join();
    finished.store(true);
  }
};

// laps: (size, hold) per pool
static bool executeMany(
    const std::vector<std::pair<int, int>>& laps,
    int nth,
    bool churn,
    const std::string& tag,
    ctl::Trace& tr,
    long long& pools) {
  Exec* ex = new Exec();
  ex->tr = &tr;
  ex->freeMode = true;
  ManyRound* m = new ManyRound(); // leaked together with ex when the round hangs
  m->ex = ex;
  m->nth = nth;
  m->churn = churn;
  m->tag = tag;
  long long pos = 0;
  for (auto& sh : laps) {
    ManyLap lap;
    lap.size = sh.first;
    lap.hold = std::min(sh.second, std::min(sh.first, nth));
    lap.acqPos.assign(nth + 1, -1);
    lap.relPos.assign(nth + 1, -1);
    for (int i = 1; i <= nth; ++i) {
      if (i > lap.hold)
        lap.relPos[i - lap.hold] = pos++;
      lap.acqPos[i] = pos++;
    }
    for (int i = nth - lap.hold + 1; i <= nth; ++i)
      lap.relPos[i] = pos++;
    lap.finalPos = pos++;
    m->laps.push_back(lap);
  }
  m->owner.assign(pos + 1, 0); // final steps (and the one after the last) belong to u0
  for (auto& lap : m->laps)
    for (int i = 1; i <= nth; ++i) {
      m->owner[lap.acqPos[i]] = i;
      m->owner[lap.relPos[i]] = i;
    }
  for (int i = 0; i <= nth; ++i)
    m->cvOf.emplace_back(new std::condition_variable());
  std::thread coord([m]() { m->coordinator(); });
  long long last = -1;
  auto tLast = std::chrono::steady_clock::now();
  while (!m->finished.load()) {
    std::this_thread::sleep_for(std::chrono::microseconds(500));
    long long now = m->progress.load();
    if (now != last) {
      last = now;
      tLast = std::chrono::steady_clock::now();
    } else if (std::chrono::steady_clock::now() - tLast > std::chrono::seconds(kManyStallSec)) {
      int who = m->inCall.load();
      std::string where = who == -2 ? "~ResourcePool()" : who >= 0 ? "acquire()" : "?";
      std::string nm = ManyRound::name(who < 0 ? 0 : who);
      long long queued = (long long)ex->pool->pool_.size_approx();
      tr.line(
          "{\"e\":\"Hang\",\"t\":\"" + nm + "\",\"in\":\"" + where +
          "\",\"held\":" + std::to_string(m->liveHandles.load()) +
          ",\"size\":" + std::to_string(m->curSize.load()) +
          ",\"releasers\":" + std::to_string(m->releasers.load()) + ",\"queued\":" + std::to_string(queued) + "}");
      tr.flush();
      printf(
          "HANG %s: thread %s does not return from %s although only %d of %d resources are held "
          "(%d live user threads, %d distinct threads have released a handle of this pool, %lld "
          "resources in the queue)\n",
          tag.c_str(),
          nm.c_str(),
          where.c_str(),
          m->liveHandles.load(),
          m->curSize.load(),
          nth,
          m->releasers.load(),
          queued);
      coord.detach(); // blocked for ever together with the user threads
      return false;
    }
  }
  coord.join();
  pools += (long long)laps.size();
  delete m;
  delete ex;
  return true;
}

int main(int argc, char** argv) {
  drv::Args a(argc, argv);
  ctl::Trace tr(a.str("out", "trace.ndjson"));
  drv::Totals tot;
  int size = (int)a.num("size", 2);
  Program prog = parseProg(a.str("prog", "t1:acq1,rel1;t2:acq1,rel1"));
  if (a.has("many")) {
    long long n = a.num("many", 6);
    uint64_t seed = (uint64_t)a.num("seed", 1);
    uint64_t prng = seed * 15485863ULL + 11;
    unsigned hw = std::thread::hardware_concurrency();
    // "many" = well beyond everything that is plausibly sized by the number of resources or of
    // hardware threads (small multiples of either), and beyond 64 in any case
    int base = a.has("threads") ? (int)a.num("threads", 64) : std::max(64, 4 * std::max(4, (int)hw) + 8);
    int nlaps = (int)a.num("laps", 5);
    for (long long i = 0; i < n; ++i) {
      bool churn = i % 2 == 1; // every second round: threads exit after their turn, one pool
      std::vector<std::pair<int, int>> laps;
      for (int k = 0; k < (churn ? 1 : nlaps); ++k) {
        int sz = a.has("size") ? size : 1 + (int)((seed + (uint64_t)i + (uint64_t)k) % 4);
        int hold = 1 + (int)(ctl::splitmix(prng) % (unsigned)sz); // 1..size live handles
        laps.emplace_back(sz, hold);
      }
      int nth = base + (int)(ctl::splitmix(prng) % 9);
      long long pools = 0;
      bool ok = executeMany(laps, nth, churn, "many" + std::to_string(seed) + "_" + std::to_string(i), tr, pools);
      tot.executions += ok ? pools : 1;
      tot.completed += pools;
      if (!ok) {
        ++tot.deadlocks;
        break; // threads are blocked for ever: this process cannot run another round
      }
    }
    tot.steps = (long long)tr.lines();
  } else if (a.has("free")) {
    long long n = a.num("free", 100);
    uint64_t seed = (uint64_t)a.num("seed", 1);
    uint64_t prng = seed * 104729 + 7;
    long long events = 0;
    for (long long i = 0; i < n; ++i) {
      int sz = a.has("size") ? size : 1 + (int)(ctl::splitmix(prng) % 4);
      Program p = randomProgram(prng, sz, 4, (int)a.num("maxops", 6));
      executeFree(p, sz, seed * 1000003ULL + (uint64_t)i, tr);
      ++tot.executions;
      ++tot.completed;
    }
    events = (long long)tr.lines();
    tot.steps = events;
  } else if (a.has("schedules")) {
    auto scheds = ctl::readSchedules(a.str("schedules"));
    size_t idx = 0;
    for (auto& s : scheds) {
      ctl::RunOptions o;
      o.mode = ctl::RunOptions::Replay;
      o.schedule = &s;
      auto r = execute(prog, size, o, tr, "sched" + std::to_string(idx++));
      tot.add(r);
      if (!r.completed)
        break; // threads may still be parked: this process cannot run another execution
    }
  } else {
    long long n = a.num("random", 100);
    uint64_t seed = (uint64_t)a.num("seed", 1);
    uint64_t prng = seed * 7919 + 17;
    for (long long i = 0; i < n; ++i) {
      ctl::RunOptions o;
      o.mode = ctl::RunOptions::Random;
      o.seed = seed * 1000003ULL + (uint64_t)i;
      o.pctDepth = (int)a.num("pct", 0);
      o.maxSteps = 2000;
      int sz = a.has("size") ? size : 1 + (int)(ctl::splitmix(prng) % 4);
      Program p = a.has("randprog") ? randomProgram(prng, sz, 4, (int)a.num("maxops", 6)) : prog;
      auto r = execute(p, sz, o, tr, "rand" + std::to_string(i));
      tot.add(r);
      if (!r.completed)
        break;
    }
  }
  tr.flush();
  tot.print();
  fflush(stdout);
  _exit(0); // parked threads of an aborted execution must not block exit
}
