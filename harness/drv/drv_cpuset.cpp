// Driver for dispenso::CpuSet (spec/pure/CpuList.tla, Grouping.tla, property C43).  E5: runs the
// COMPILED set operations, detail::parseLinuxCpuList and detail::buildGroupsFromCacheTopology on
// TLC-generated inputs (--inputs, written by the check from the GENSTR / GENTOPO lines of the TLC
// run of MCCpuSet.tla), built-in boundary inputs and seeded random inputs, and writes one
// observation record per call.  The driver judges nothing: spec/pure/CpuSetTrace.tla is the oracle.
//
//   --out FILE       observation records (ndjson)
//   --inputs FILE    lines "P n c1 .. cn" (string as character codes) and
//                    "G m n2 {len id..} n3 {len id..}" (maxGroupSize, L2 groups, L3 groups)
//   --seed S --ops N --oplen K     N random executions of K set operations each
//   --randstr N      N random strings (well-formed, beyond-the-sanity-bound, malformed)
//   --randtopo N     N random synthetic cache topologies
//   --noedge         skip the built-in boundary strings
// Built twice by the check: as is (Linux cpu_set_t branch of CpuSet) and with -U__linux__ (the portable
// uint64_t words_[] branch used on macOS etc.; same public API, same records).
//
// Records (every CpuSet value is observed through the public API: contains(i) for
// i in [-8, kScanHi) as a list of maximal runs, count(), and a list of far out-of-range probes):
//   {"e":"Reset"}                                          a fresh CpuSet (start of an execution)
//   {"e":"add"|"remove","a":x, OBS, "probe":[ids],"hit":[0|1..]}
//   {"e":"addRange"|"removeRange","a":x,"b":y, OBS, ...}   {"e":"clear", OBS, ...}
//   {"e":"parse","src":..,"s":[codes],"txt":"..", OBS}
//   {"e":"group","src":..,"m":m,"l2":[[..]],"l3":[[..]],"g":[[..]],"mask":[[ids]..]}
//   OBS = "cnt":count(),"runs":[[lo,hi]..],"oob":[out-of-range probes that contains() accepted]
#include <dispenso/cpu_set.h>

#include <algorithm>
#include <climits>
#include <fstream>
#include <sstream>

#include "../ctl/ctl.h"
#include "../ctl/drv_common.h"

using ctl::Json;
using dispenso::CacheGroup;
using dispenso::CpuSet;

static const int kScanLo = -8, kScanHi = 1100;
static const int32_t kFarProbes[] = {INT_MIN,  INT_MIN + 1, -65536,  -1025,   -1024,      -1023,  1 << 11,
                                     1 << 12,  1 << 16,     1 << 20, 1 << 24, (1 << 30), INT_MAX - 1,
                                     INT_MAX,  2047,        2048,    1024 + 64, 1024 + 63, 4096 + 5};

static uint64_t g_seed = 1;
static uint64_t rnd() {
  return ctl::splitmix(g_seed);
}
static int rndInt(int lo, int hi) { // inclusive
  return lo + (int)(rnd() % (uint64_t)(hi - lo + 1));
}

// int32 values are logged through raw(): ctl::Json::num refuses INT_MIN although it is a TLC integer
// (TLC integers are exactly int32; CpuSetTrace.tla only compares ids, it never negates them).
static Json& i32(Json& j, int32_t v) {
  return j.raw(std::to_string(v));
}
static Json& kv32(Json& j, const char* k, int32_t v) {
  j.key(k);
  return i32(j, v);
}

// ------------------------------------------------------------------------------ observation
static void observe(Json& j, const CpuSet& s) {
  j.kv("cnt", s.count());
  j.key("runs").beginArr();
  int runStart = INT_MIN;
  for (int i = kScanLo; i <= kScanHi; ++i) {
    bool in = i < kScanHi && s.contains(i);
    if (in && runStart == INT_MIN)
      runStart = i;
    if (!in && runStart != INT_MIN) {
      j.beginArr().num(runStart).num(i - 1).endArr();
      runStart = INT_MIN;
    }
  }
  j.endArr();
  j.key("oob").beginArr();
  for (int32_t p : kFarProbes)
    if (s.contains(p))
      i32(j, p);
  j.endArr();
}

static long long g_records = 0;
static void emit(ctl::Trace& tr, Json& j) {
  j.endObj();
  tr.line(j.s);
  ++g_records;
}

// --------------------------------------------------------------------------- set operations
static int32_t randomId() {
  if (rnd() % 6 == 0) { // exact boundaries of the id space and of the 64-bit words
    const int32_t edge[] = {0, 1, 63, 64, 65, 1022, 1023, 1024, -1};
    return edge[rnd() % (sizeof(edge) / sizeof(edge[0]))];
  }
  switch (rnd() % 10) {
    case 0:
    case 1:
    case 2:
      return rndInt(0, 70);
    case 3:
    case 4:
      return rndInt(1015, 1032);
    case 5:
      return rndInt(-6, 6);
    case 6:
      return rndInt(0, 1023);
    case 7:
      return rndInt(56, 72) + 64 * rndInt(0, 14); // word boundaries of the portable bitset
    case 8: {
      const int32_t ext[] = {INT_MIN, INT_MIN + 1, INT_MAX, INT_MAX - 1, 1 << 20, -(1 << 20), 65536, -1024, 2048};
      return ext[rnd() % (sizeof(ext) / sizeof(ext[0]))];
    }
    default:
      return (int32_t)rnd();
  }
}

// end of a range starting at a: often a short forward range; otherwise the independent random id b.
// The portable (non-Linux) branch of addRange/removeRange really iterates from a to b, so a span of
// 2^32 ids is legal but takes seconds per call: keep such spans out of that build only.
static int32_t rangeEnd(int32_t a, int32_t b) {
  if (rnd() % 3 == 0 && a < INT_MAX - 64)
    return a + rndInt(0, 40);
#if !defined(DISPENSO_CPUSET_LINUXY)
  if ((long long)b - (long long)a > 3000000)
    return a + 3000000;
#endif
  return b;
}

static void opsExecution(ctl::Trace& tr, int oplen) {
  tr.line("{\"e\":\"Reset\"}");
  ++g_records;
  CpuSet s;
  for (int k = 0; k < oplen; ++k) {
    Json j;
    j.beginObj();
    int which = (int)(rnd() % 16);
    int32_t a = randomId(), b = randomId();
    if (which >= 9 && which < 15 && rnd() % 2 == 0) {
      // remove / removeRange: often start at an id the set currently holds (picked through the API)
      std::vector<int32_t> members;
      for (int i = 0; i < 1024; ++i)
        if (s.contains(i))
          members.push_back(i);
      if (!members.empty())
        a = members[rnd() % members.size()];
    }
    if (which < 5) {
      kv32(j.kv("e", std::string("add")), "a", a);
      s.add(a);
    } else if (which < 9) {
      b = rangeEnd(a, b);
      kv32(kv32(j.kv("e", std::string("addRange")), "a", a), "b", b);
      s.addRange(a, b);
    } else if (which < 12) {
      kv32(j.kv("e", std::string("remove")), "a", a);
      s.remove(a);
    } else if (which < 15) {
      b = rangeEnd(a, b);
      kv32(kv32(j.kv("e", std::string("removeRange")), "a", a), "b", b);
      s.removeRange(a, b);
    } else {
      j.kv("e", std::string("clear"));
      s.clear();
    }
    // a copy must observe the same value (CpuSet is a value type)
    CpuSet copy = s;
    observe(j, (k & 1) ? copy : s);
    std::vector<int32_t> probes;
    for (int i = 0; i < 6; ++i)
      probes.push_back(randomId());
    j.key("probe").beginArr();
    for (int32_t p : probes)
      i32(j, p);
    j.endArr();
    j.key("hit").beginArr();
    for (int32_t p : probes)
      j.num(s.contains(p) ? 1 : 0);
    j.endArr();
    emit(tr, j);
  }
}

// ------------------------------------------------------------------------------------ parsing
static std::string printable(const std::string& s) {
  std::string o;
  for (char c : s)
    o += (c >= 32 && c < 127 && c != '"' && c != '\\') ? c : '?';
  return o;
}

static void parseRecord(ctl::Trace& tr, const char* src, const std::string& str) {
  CpuSet s = dispenso::detail::parseLinuxCpuList(str.c_str());
  Json j;
  j.beginObj();
  j.kv("e", std::string("parse")).kv("src", std::string(src));
  j.key("s").beginArr();
  for (char c : str)
    j.num((unsigned char)c);
  j.endArr();
  j.kv("txt", printable(str));
  observe(j, s);
  emit(tr, j);
}

static std::string numeral(long long v) {
  std::string z(rnd() % 8 == 0 ? rndInt(1, 3) : 0, '0'); // occasional leading zeros
  return z + std::to_string(v);
}
static long long inGrammarNumber() {
  switch (rnd() % 8) {
    case 0:
    case 1:
    case 2:
      return rndInt(0, 70);
    case 3:
    case 4:
      return rndInt(1015, 1032);
    case 5:
      return rndInt(0, 5000);
    case 6:
      return rndInt((1 << 20) - 4, 1 << 20);
    default:
      return rndInt(0, 1 << 20);
  }
}
static std::string hugeNumeral() {
  static const char* h[] = {"1048577", "1048580", "2000000", "2147483647", "2147483648", "4294967296",
                            "9223372036854775807", "9223372036854775808", "99999999999999999999999"};
  return h[rnd() % (sizeof(h) / sizeof(h[0]))];
}
static std::string randomList(bool huge) {
  int items = rndInt(0, 6);
  std::string s;
  for (int i = 0; i < items; ++i) {
    if (i)
      s += ',';
    int kind = (int)(rnd() % 10);
    if (kind == 0)
      continue; // empty item
    bool h = huge && rnd() % 2 == 0;
    if (kind < 5) {
      s += h ? hugeNumeral() : numeral(inGrammarNumber());
    } else {
      long long lo = inGrammarNumber(), hi = inGrammarNumber();
      if (lo > hi)
        std::swap(lo, hi);
      if (rnd() % 10 < 7) // mostly short ranges (long ones make large sets, which are slow to compare in TLC)
        hi = std::min<long long>(lo + rndInt(0, 12), 1 << 20);
      s += numeral(lo) + "-" + (h ? hugeNumeral() : numeral(hi));
    }
  }
  if (rnd() % 10 == 0)
    s += ',';
  return s;
}
static std::string mutate(std::string s) {
  static const char junk[] = " +-,x\t-,9";
  int n = rndInt(1, 2);
  for (int i = 0; i < n; ++i) {
    size_t pos = s.empty() ? 0 : (size_t)(rnd() % (s.size() + 1));
    if (!s.empty() && rnd() % 3 == 0)
      s.erase(std::min(pos, s.size() - 1), 1);
    else
      s.insert(pos, 1, junk[rnd() % (sizeof(junk) - 1)]);
  }
  return s;
}

static void boundaryStrings(ctl::Trace& tr) {
  const long long edge[] = {0, 1, 63, 64, 1022, 1023, 1024, 1025, 4096, 1048575, 1048576};
  for (long long a : edge) {
    parseRecord(tr, "edge", std::to_string(a));
    for (long long b : edge)
      if (a <= b) {
        parseRecord(tr, "edge", std::to_string(a) + "-" + std::to_string(b));
        parseRecord(tr, "edge", std::to_string(a) + "," + std::to_string(b));
      }
  }
  const char* fixed[] = {"", ",", ",,", "1,", ",1", "0-3,8-11", "0-3,8-11,16", "0-63,128-191", "007", "0010-0012",
                         "1022,1023,1024", "0-1023", "0-1024,5", "5,0-1024", "1023-1024,0", "1020-1030,1024-1048576",
                         // beyond the sanity bound / malformed (recorded, judged only for soundness)
                         "0-1048577", "1048577", "3,1048577,4", "5-2000000", "0-99999999999999999999", "4-2", "1-", "-1",
                         "a", "abc", "1, 2", " 7", "+7", "1--2", "1-2-3", "0x10", "1;2", "3-", "-", "--", "7-+9"};
  for (const char* f : fixed)
    parseRecord(tr, "edge", f);
}

// ------------------------------------------------------------------------------------ grouping
using Topo = std::vector<std::vector<int32_t>>;

static void jsonGroups(Json& j, const char* key, const Topo& t) {
  j.key(key).beginArr();
  for (auto& g : t) {
    j.beginArr();
    for (int32_t c : g)
      i32(j, c);
    j.endArr();
  }
  j.endArr();
}

static void groupRecord(ctl::Trace& tr, const char* src, const Topo& l2, const Topo& l3, int32_t m) {
  std::vector<CacheGroup> l2g, l3g;
  int id = 0;
  for (auto& g : l2)
    l2g.push_back(CacheGroup{g, id++});
  id = 0;
  for (auto& g : l3)
    l3g.push_back(CacheGroup{g, id++});
  std::vector<dispenso::ThreadGroup> out = dispenso::detail::buildGroupsFromCacheTopology(l2g, l3g, m);
  Json j;
  j.beginObj();
  kv32(j.kv("e", std::string("group")).kv("src", std::string(src)), "m", m);
  jsonGroups(j, "l2", l2);
  jsonGroups(j, "l3", l3);
  Topo g, mask;
  for (auto& tg : out) {
    g.push_back(tg.cpus);
    std::vector<int32_t> ids;
    for (int i = kScanLo; i < 2200; ++i)
      if (tg.affinityMask.contains(i))
        ids.push_back(i);
    for (int32_t p : kFarProbes)
      if (tg.affinityMask.contains(p))
        ids.push_back(p);
    mask.push_back(ids);
  }
  jsonGroups(j, "g", g);
  jsonGroups(j, "mask", mask);
  emit(tr, j);
}

static int32_t randomMax(int largest) {
  switch (rnd() % 10) {
    case 0:
      return rndInt(-5, 0);
    case 1:
      return INT_MIN;
    case 2:
      return INT_MAX;
    case 3:
      return 16;
    case 4:
      return largest;
    case 5:
      return largest * 2;
    default:
      return rndInt(1, 12);
  }
}

// A random well-formed cache hierarchy (R1): every CPU in at most one L2 and one L3 group, every
// L2 group inside one L3 group or outside all of them.
static void randomTopology(ctl::Trace& tr) {
  Topo l2, l3;
  int shape = (int)(rnd() % 6);
  int base = (rnd() % 5 == 0) ? rndInt(990, 1030) : (rnd() % 4 == 0 ? rndInt(0, 40) : 0);
  if (shape == 0) { // AMD-like: siblings 2k,2k+1, CCDs of 2^c CPUs
    int n = 2 * rndInt(1, 24), ccd = 2 << rndInt(0, 3);
    for (int c = 0; c < n; c += 2)
      l2.push_back({base + c, base + c + 1});
    for (int c = 0; c < n; c += ccd) {
      std::vector<int32_t> g;
      for (int i = c; i < std::min(n, c + ccd); ++i)
        g.push_back(base + i);
      l3.push_back(g);
    }
  } else if (shape == 1) { // Intel-like: siblings k, k+cores; L3 per socket (interleaved ids)
    int cores = rndInt(1, 20), sockets = rndInt(1, 3);
    for (int k = 0; k < cores; ++k)
      l2.push_back({base + k, base + k + cores});
    l3.resize((size_t)sockets);
    for (int k = 0; k < cores; ++k) {
      l3[(size_t)(k * sockets / cores)].push_back(base + k);
      l3[(size_t)(k * sockets / cores)].push_back(base + k + cores);
    }
    for (auto& g : l3)
      std::sort(g.begin(), g.end());
  } else if (shape == 2) { // SMT-wide atoms (Power-like), L3 optional
    int w = 1 << rndInt(1, 3), atoms = rndInt(1, 8);
    for (int a = 0; a < atoms; ++a) {
      std::vector<int32_t> g;
      for (int i = 0; i < w; ++i)
        g.push_back(base + a * w + i);
      l2.push_back(g);
    }
    if (rnd() % 2) {
      int per = rndInt(1, 3);
      for (int a = 0; a < atoms; a += per) {
        std::vector<int32_t> g;
        for (int i = a * w; i < std::min(atoms, a + per) * w; ++i)
          g.push_back(base + i);
        l3.push_back(g);
      }
    }
  } else { // irregular: random ids, random atom sizes, some atoms without L3, some L3-only CPUs
    std::vector<int32_t> ids;
    int n = rndInt(1, 40), span = rndInt(n, 3 * n + 4);
    for (int i = 0; i < span; ++i)
      ids.push_back(base + i);
    for (size_t i = ids.size(); i > 1; --i)
      std::swap(ids[i - 1], ids[rnd() % i]);
    ids.resize((size_t)n);
    int nl3 = rndInt(0, 4);
    l3.resize((size_t)nl3);
    size_t pos = 0;
    while (pos < ids.size()) {
      size_t len = std::min(ids.size() - pos, (size_t)(rnd() % 4 == 0 ? rndInt(1, 9) : rndInt(1, 3)));
      std::vector<int32_t> g(ids.begin() + (long)pos, ids.begin() + (long)(pos + len));
      pos += len;
      std::sort(g.begin(), g.end());
      int where = nl3 ? rndInt(-1, nl3 - 1) : -1; // -1: no L3 information for this atom
      if (where >= 0)
        l3[(size_t)where].insert(l3[(size_t)where].end(), g.begin(), g.end());
      if (rnd() % 12 != 0)
        l2.push_back(g); // else: CPUs known to L3 only
    }
    for (auto& g : l3)
      std::sort(g.begin(), g.end());
  }
  l3.erase(std::remove_if(l3.begin(), l3.end(), [](const std::vector<int32_t>& g) { return g.empty(); }), l3.end());
  // documented shape: groups sorted by first CPU id
  auto byFirst = [](const std::vector<int32_t>& a, const std::vector<int32_t>& b) { return a.front() < b.front(); };
  std::sort(l2.begin(), l2.end(), byFirst);
  std::sort(l3.begin(), l3.end(), byFirst);
  int variant = (int)(rnd() % 10);
  if (variant == 0) { // undocumented but legal for the pure function: arbitrary order of groups / ids
    for (size_t i = l2.size(); i > 1; --i)
      std::swap(l2[i - 1], l2[rnd() % i]);
    for (auto& g : l2)
      for (size_t i = g.size(); i > 1; --i)
        std::swap(g[i - 1], g[rnd() % i]);
  } else if (variant == 1) {
    l2.insert(l2.begin() + (long)(rnd() % (l2.size() + 1)), std::vector<int32_t>{}); // an empty atom
  } else if (variant == 2) {
    for (size_t i = l3.size(); i > 1; --i)
      std::swap(l3[i - 1], l3[rnd() % i]);
  }
  int largest = 0;
  for (auto& g : l2)
    largest = std::max(largest, (int)g.size());
  groupRecord(tr, "rnd", l2, l3, randomMax(largest));
}

// ---------------------------------------------------------------------------- TLC-made inputs
static void runInputs(ctl::Trace& tr, const std::string& path) {
  std::ifstream in(path);
  std::string line;
  while (std::getline(in, line)) {
    std::istringstream is(line);
    char kind;
    is >> kind;
    if (kind == 'P') {
      int n;
      is >> n;
      std::string s;
      for (int i = 0; i < n; ++i) {
        int c;
        is >> c;
        s += (char)c;
      }
      parseRecord(tr, "tlc", s);
    } else if (kind == 'G') {
      int m;
      is >> m;
      Topo t[2];
      for (int w = 0; w < 2; ++w) {
        int n;
        is >> n;
        for (int i = 0; i < n; ++i) {
          int len;
          is >> len;
          std::vector<int32_t> g;
          for (int k = 0; k < len; ++k) {
            int c;
            is >> c;
            g.push_back(c);
          }
          t[w].push_back(g);
        }
      }
      groupRecord(tr, "tlc", t[0], t[1], m);
    }
  }
}

int main(int argc, char** argv) {
  drv::Args a(argc, argv);
  ctl::Trace tr(a.str("out", "/dev/null"));
  g_seed = (uint64_t)a.num("seed", 1) * 0x9E3779B97F4A7C15ull + 777;

  long long nops = a.num("ops", 100);
  int oplen = (int)a.num("oplen", 12);
  for (long long i = 0; i < nops; ++i)
    opsExecution(tr, oplen);

  tr.line("{\"e\":\"Reset\"}");
  ++g_records;
  if (a.has("inputs"))
    runInputs(tr, a.str("inputs"));
  if (!a.has("noedge"))
    boundaryStrings(tr);
  long long nstr = a.num("randstr", 500);
  for (long long i = 0; i < nstr; ++i) {
    int k = (int)(rnd() % 10);
    if (k < 6)
      parseRecord(tr, "rnd", randomList(false));
    else if (k < 8)
      parseRecord(tr, "rnd", randomList(true));
    else
      parseRecord(tr, "rnd", mutate(randomList(false)));
  }
  long long ntopo = a.num("randtopo", 300);
  for (long long i = 0; i < ntopo; ++i)
    randomTopology(tr);

  tr.flush();
  printf("DRIVER executions=%lld steps=%lld completed=%lld deadlocks=0 diverged=0 stuck=0\n", nops + 1, g_records,
         nops + 1);
  fflush(stdout);
  return 0;
}
