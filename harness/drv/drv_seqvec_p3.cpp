// drv_seqvec part 3: element size 128 bytes (first bucket 2), kIteratorPreferSpeed = true;
// buffer placement x reallocation strategy = 6 instantiations of Runner (see drv_seqvec_ops.h).
#include "drv_seqvec_ops.h"
namespace sv {
IRunner* makeF2Fast(ctl::Trace& tr, int inl, int strat) {
  return makePart<128, true>(tr, 2, inl, strat);
}
} // namespace sv
