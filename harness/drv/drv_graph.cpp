// Driver for dispenso task graphs (spec/graph/Graph.tla, GraphTrace.tla)  -  C30 / C31.
//
// A PROGRAM is a list of operations on one real dispenso::Graph / dispenso::BiPropGraph:
//   sub            graph.addSubgraph()
//   add<s>         graph.subgraph(s).addNode(f)         (node ids = creation order, 1-based)
//   dep<a>.<b>     node a .dependsOn(node b)
//   bi<a>.<b>      node a .biPropDependsOn(node b)
//   clr<s>         graph.subgraph(s).clear()
//   clrall         graph.clearSubgraphs()
//   gclear         graph.clear()                        (drops every subgraph, fresh subgraph 0)
//   move           G moved(std::move(graph)); continue with `moved`
//   mark<n>        node n .setIncomplete()
//   setall         setAllNodesIncomplete(graph)
//   prop           ForwardPropagator()(graph)
//   eval<k>        k=0 SingleThreadExecutor, 1 ParallelForExecutor(TaskSet), 2 ConcurrentTaskSetExecutor,
//                  3 ParallelForExecutor(ConcurrentTaskSet)
//
// STEP mode (default): the program runs on logical thread "main" under the controlled scheduler; the
// parallel executors run on a REAL ThreadPool whose workers are logical threads too (HOWTO_POOL).
// Every step is recorded with the projection of every node's counters / dependents_ / propagation
// set.  Node functors contain two schedule points (DrBegin, DrBody) and note begin / end.
//   --programs FILE   one program per line:  <kind> <ops separated by ','>      kind = node | biprop
//   --randprog N      N seeded random programs (see genProgram)
//   --execs 0,1,2     every program is run once per listed executor (eval without digit uses it)
//   --pool K --runs R --seed S --pct D --mult M --smult M --partial P --kind node|biprop --varypool --varymult
// BIG mode (--big N): seeded random DAGs up to --maxnodes nodes on a free-running pool; one line per
// operation (no projection) and one observation line per evaluation: the run log (begin/end events in
// their real order, taken inside the functors) and the projection.  TLC judges both.
//
// C++ only drives, records and projects; every verdict is TLC's.
#include <dispenso/graph.h>
#include <dispenso/graph_executor.h>
#include <dispenso/task_set.h>
#include <dispenso/thread_pool.h>

#include <unistd.h>

#include <algorithm>
#include <atomic>
#include <fstream>
#include <memory>
#include <set>
#include <sstream>
#include <unordered_map>

#include "../ctl/ctl.h"
#include "../ctl/drv_common.h"
#include "pool_proj.h"

using ctl::Json;

struct Op {
  std::string op;
  int a = 0, b = 0;
  bool hasA = false;
};
struct Program {
  bool biprop = false;
  std::vector<Op> ops;
};

static bool parseProgramLine(const std::string& line, Program& p) {
  std::istringstream is(line);
  std::string kind, ops;
  if (!(is >> kind >> ops))
    return false;
  p.biprop = kind == "biprop";
  for (auto& o : drv::split(ops, ',')) {
    if (o.empty())
      continue;
    Op d;
    size_t i = 0;
    while (i < o.size() && !isdigit((unsigned char)o[i]))
      ++i;
    d.op = o.substr(0, i);
    auto nums = drv::split(o.substr(i), '.');
    if (!nums.empty() && !nums[0].empty()) {
      d.a = atoi(nums[0].c_str());
      d.hasA = true;
    }
    if (nums.size() > 1)
      d.b = atoi(nums[1].c_str());
    p.ops.push_back(d);
  }
  return true;
}

static std::string programText(const Program& p) {
  std::string s = p.biprop ? "biprop " : "node ";
  bool first = true;
  for (auto& o : p.ops) {
    if (!first)
      s += ',';
    first = false;
    s += o.op;
    if (o.hasA)
      s += std::to_string(o.a);
    if (o.op == "dep" || o.op == "bi")
      s += "." + std::to_string(o.b);
  }
  return s;
}

// ------------------------------------------------------------------------------ random programs
struct Rng {
  uint64_t s;
  explicit Rng(uint64_t seed) : s(seed * 0x9E3779B97F4A7C15ull + 0x632BE59BD9B4E019ull) {}
  uint64_t next() {
    return ctl::splitmix(s);
  }
  int below(int n) {
    return n <= 0 ? 0 : (int)(next() % (uint64_t)n);
  }
  bool chance(int pct) {
    return below(100) < pct;
  }
};

// Generates a contract-conforming program.  The generator only keeps what it needs to stay inside the
// contract: which ids exist and in which subgraph, a random rank per node (edges go from lower to
// higher rank, hence no cycles), whether every live node has been evaluated since it was created /
// marked (`touched` mirrors "a ForwardPropagator pass is only valid once, and not after
// setAllNodesIncomplete, between two evaluations").
static Program genProgram(Rng& r, bool biprop, int maxNodes, int exec, bool mixExec, int partialPct) {
  Program p;
  p.biprop = biprop;
  int nsg = 1;
  int nextId = 1;
  std::vector<int> sgOf(1, 0), rank(1, 0);
  std::vector<bool> alive(1, false);
  bool touched = false;
  int budget = maxNodes; // total ids
  auto push = [&](const char* op, int a = -1, int b = 0) {
    Op o;
    o.op = op;
    if (a >= 0) {
      o.a = a;
      o.hasA = true;
    }
    o.b = b;
    p.ops.push_back(o);
  };
  auto liveIds = [&]() {
    std::vector<int> v;
    for (int i = 1; i < nextId; ++i)
      if (alive[(size_t)i])
        v.push_back(i);
    return v;
  };
  auto addNodes = [&](int n, int sgFixed) {
    std::vector<int> fresh;
    for (int i = 0; i < n && budget > 0; ++i, --budget) {
      int s = sgFixed >= 0 ? sgFixed : r.below(nsg);
      push("add", s);
      sgOf.push_back(s);
      rank.push_back(r.below(1 << 20));
      alive.push_back(true);
      fresh.push_back(nextId++);
    }
    return fresh;
  };
  auto addEdges = [&](const std::vector<int>& fresh, int perNode) {
    auto live = liveIds();
    if (live.size() < 2)
      return;
    for (int x : fresh) {
      int k = r.below(perNode + 1) + (r.chance(50) ? 1 : 0);
      for (int j = 0; j < k; ++j) {
        int y = live[(size_t)r.below((int)live.size())];
        if (y == x || rank[(size_t)y] == rank[(size_t)x])
          continue;
        int pred = rank[(size_t)x] < rank[(size_t)y] ? x : y;
        int succ = pred == x ? y : x;
        bool bi = biprop && r.chance(35);
        push(bi ? "bi" : "dep", succ, pred);
        if (r.chance(4))
          push(bi ? "bi" : "dep", succ, pred); // a duplicate declaration is legal
      }
    }
  };
  auto evalOp = [&]() {
    int e = mixExec ? r.below(4) : exec;
    push("eval", e);
    touched = false;
  };

  int nsub = r.below(4);
  for (int i = 0; i < nsub; ++i) {
    push("sub");
    ++nsg;
  }
  int first = std::max(2, std::min(budget, maxNodes * (50 + r.below(45)) / 100));
  auto fresh = addNodes(first, -1);
  int density = 1 + r.below(3);
  addEdges(fresh, density);
  // also some edges among everything (fan-in / fan-out hubs)
  if (r.chance(50) && !fresh.empty()) {
    std::vector<int> hub(1, fresh[(size_t)r.below((int)fresh.size())]);
    addEdges(hub, std::min(12, (int)fresh.size()));
  }
  if (r.chance(75)) {
    push("setall");
    touched = true;
  } else {
    push("prop");
    touched = true;
  }
  evalOp();
  int rounds = 2 + r.below(4);
  for (int k = 0; k < rounds; ++k) {
    int what = r.below(100);
    auto live = liveIds();
    if (what < partialPct && !live.empty()) {
      // partial re-evaluation
      int m = 1 + r.below(std::max(1, std::min(4, (int)live.size() / 3 + 1)));
      for (int j = 0; j < m; ++j)
        push("mark", live[(size_t)r.below((int)live.size())]);
      if (!touched && r.chance(85)) {
        push("prop");
      } else {
        push("setall");
      }
      touched = true;
      evalOp();
    } else if (what < partialPct + (100 - partialPct) * 3 / 4 && !live.empty()) {
      // clear one subgraph (or everything) and rebuild
      int s = sgOf[(size_t)live[(size_t)r.below((int)live.size())]];
      int removed = 0;
      if (r.chance(10)) {
        bool whole = r.chance(40);
        push(whole ? "gclear" : "clrall");
        for (int i = 1; i < nextId; ++i)
          if (alive[(size_t)i]) {
            alive[(size_t)i] = false;
            ++removed;
          }
        if (whole) {
          nsg = 1;
          s = 0;
        }
      } else {
        push("clr", s);
        for (int i = 1; i < nextId; ++i)
          if (alive[(size_t)i] && sgOf[(size_t)i] == s) {
            alive[(size_t)i] = false;
            ++removed;
          }
      }
      if (r.chance(15)) {
        push("sub");
        ++nsg;
      }
      if (r.chance(20))
        push("move");
      auto again = addNodes(std::min(budget, std::max(1, removed + r.below(3) - 1)), r.chance(70) ? s : -1);
      addEdges(again, density);
      if (r.chance(30) && !liveIds().empty()) {
        // an old node gets new predecessors / successors too
        auto l2 = liveIds();
        std::vector<int> one(1, l2[(size_t)r.below((int)l2.size())]);
        addEdges(one, 2);
      }
      if (!touched && r.chance(50)) {
        push("prop");
      } else {
        push("setall");
      }
      touched = true;
      evalOp();
    } else {
      if (r.chance(30))
        push("move");
      push("setall");
      touched = true;
      evalOp();
    }
  }
  return p;
}

// --------------------------------------------------------------------------------------- world
struct RunLog {
  std::atomic<size_t> pos{0};
  std::vector<int> buf; // 2 * entry + kind
  void reset(size_t cap) {
    buf.assign(cap, -1);
    pos.store(0);
  }
  void add(int kind, int id) {
    size_t i = pos.fetch_add(1, std::memory_order_acq_rel);
    if (i < buf.size())
      buf[i] = id * 2 + kind;
  }
};

template <class G>
struct World {
  using N = typename G::NodeType;
  std::vector<std::unique_ptr<G>> movedFrom; // graphs that were move-assigned from: alive until the world ends
  std::unique_ptr<G> g; // (declared after movedFrom: destroyed first)
  std::vector<N*> node; // id -> node (nullptr when destroyed); node[0] unused
  std::vector<int> sgOf;
  std::unordered_map<const dispenso::Node*, int> idOf;
  dispenso::ThreadPool* pool = nullptr;
  dispenso::TaskSet* ts = nullptr;
  dispenso::ConcurrentTaskSet* cts = nullptr;
  dispenso::SingleThreadExecutor st;
  dispenso::ParallelForExecutor pf;
  dispenso::ConcurrentTaskSetExecutor ce;
  dispenso::ForwardPropagator fp;
  RunLog log;
  int defaultExec = 0;

  World() : g(new G()), node(1, nullptr), sgOf(1, 0) {}

  int lookup(const dispenso::Node* p) const {
    auto it = idOf.find(p);
    return it == idOf.end() ? 0 : it->second;
  }

  static void members(const dispenso::Node&, const World&, Json& j) {
    j.beginArr().endArr();
  }
  static void members(const dispenso::BiPropNode& n, const World& w, Json& j) {
    j.beginArr();
    if (n.biPropSet_) {
      std::vector<int> ids;
      for (const dispenso::BiPropNode* m : *n.biPropSet_)
        ids.push_back(w.lookup(m));
      std::sort(ids.begin(), ids.end());
      for (int i : ids)
        j.num(i);
    }
    j.endArr();
  }

  void project(Json& j) const {
    j.key("al").beginArr();
    for (size_t i = 1; i < node.size(); ++i)
      if (node[i])
        j.num((long long)i);
    j.endArr();
    j.key("ninc").beginArr();
    for (size_t i = 1; i < node.size(); ++i)
      j.num(node[i] ? (long long)(ssize_t)node[i]->numIncompletePredecessors_.load() : 0);
    j.endArr();
    j.key("npred").beginArr();
    for (size_t i = 1; i < node.size(); ++i)
      j.num(node[i] ? (long long)(ssize_t)node[i]->numPredecessors_ : 0);
    j.endArr();
    j.key("dep").beginArr();
    for (size_t i = 1; i < node.size(); ++i) {
      j.beginArr();
      if (node[i])
        for (const dispenso::Node* d : node[i]->dependents_)
          j.num(lookup(d));
      j.endArr();
    }
    j.endArr();
    j.key("bs").beginArr();
    for (size_t i = 1; i < node.size(); ++i) {
      if (node[i])
        members(*node[i], *this, j);
      else
        j.beginArr().endArr();
    }
    j.endArr();
  }

  static void biDepends(dispenso::Node&, dispenso::Node&) {
    fprintf(stderr, "ERROR drv_graph: bi op on a plain Graph\n");
    _exit(3);
  }
  static void biDepends(dispenso::BiPropNode& a, dispenso::BiPropNode& b) {
    a.biPropDependsOn(b);
  }

  void forget(int id) {
    idOf.erase(node[(size_t)id]);
    node[(size_t)id] = nullptr;
  }

  // performs one operation; the note describing it is attached to the current step
  void doOp(const Op& o) {
    World* w = this;
    if (o.op == "sub") {
      ctl::note("sub", 0, 0);
      g->addSubgraph();
    } else if (o.op == "add") {
      int id = (int)node.size();
      ctl::note("add", o.a, id);
      N& n = g->subgraph((size_t)o.a).addNode([w, id]() {
        ctl::point("DrBegin");
        ctl::note("begin", id);
        w->log.add(0, id);
        ctl::point("DrBody");
        w->log.add(1, id);
        ctl::note("end", id);
      });
      node.push_back(&n);
      sgOf.push_back(o.a);
      idOf[&n] = id;
    } else if (o.op == "dep") {
      ctl::note("dep", o.a, o.b);
      node[(size_t)o.a]->dependsOn(*node[(size_t)o.b]);
    } else if (o.op == "bi") {
      ctl::note("bi", o.a, o.b);
      biDepends(*node[(size_t)o.a], *node[(size_t)o.b]);
    } else if (o.op == "clr") {
      ctl::note("clr", o.a, 0);
      g->subgraph((size_t)o.a).clear();
      for (size_t i = 1; i < node.size(); ++i)
        if (node[i] && sgOf[i] == o.a)
          forget((int)i);
    } else if (o.op == "clrall") {
      ctl::note("clrall", 0, 0);
      g->clearSubgraphs();
      for (size_t i = 1; i < node.size(); ++i)
        if (node[i])
          forget((int)i);
    } else if (o.op == "gclear") {
      ctl::note("gclear", 0, 0);
      g->clear();
      for (size_t i = 1; i < node.size(); ++i)
        if (node[i])
          forget((int)i);
    } else if (o.op == "move") {
      ctl::note("move", 0, 0);
      // both ways a graph can change its address: move construction (the moved-from graph dies at once) and move
      // ASSIGNMENT into an existing graph (the moved-from graph stays alive, as in `g = makeGraph()` / `g = std::move(built)`
      // with `built` still in scope).  Every later operation - clear() of a subgraph follows its graph_ back-pointer -
      // must behave as if nothing had happened (MoveGraph of Graph.tla).
      static int moves = 0;
      if ((moves++ & 1) == 0) {
        std::unique_ptr<G> g2(new G(std::move(*g)));
        g = std::move(g2);
      } else {
        std::unique_ptr<G> g2(new G());
        *g2 = std::move(*g);
        movedFrom.push_back(std::move(g));
        g = std::move(g2);
      }
    } else if (o.op == "mark") {
      ctl::note("mark", o.a, 0);
      node[(size_t)o.a]->setIncomplete();
    } else if (o.op == "setall") {
      ctl::note("setall", 0, 0);
      setAllNodesIncomplete(*g); // found by ADL (friend of Node)
    } else if (o.op == "prop") {
      ctl::note("prop", 0, 0);
      fp(*g);
    } else if (o.op == "eval") {
      int e = o.hasA ? o.a : defaultExec;
      ctl::note("eval", e, 0);
      log.reset(node.size() * 4 + 16);
      const G& cg = *g;
      if (e == 0) {
        st(cg);
      } else if (e == 1) {
        pf(*ts, cg);
      } else if (e == 2) {
        ce(*cts, cg);
      } else {
        pf(*cts, cg);
      }
      ctl::point("DrRet");
      ctl::note("evalret", e, 0);
    } else {
      fprintf(stderr, "ERROR drv_graph: unknown op %s\n", o.op.c_str());
      _exit(3);
    }
  }
};

static bool graphSiteFilter(const char* s) {
  return poolproj::siteFilter(s) || (s[0] == 'G' && s[1] == 'r' && s[2] != 'a'); // Gr* but not the allocator's Grab* sites
}

static bool needsPool(const Program& p, int defaultExec) {
  for (auto& o : p.ops)
    if (o.op == "eval" && (o.hasA ? o.a : defaultExec) != 0)
      return true;
  return false;
}
static int countAdds(const Program& p) {
  int n = 0;
  for (auto& o : p.ops)
    n += o.op == "add";
  return n;
}

static std::string resetLine(const Program& p, int maxn, int nthreads, bool big, const std::string& tag) {
  Json j;
  j.beginObj();
  j.kv("e", std::string("Reset"));
  j.kv("tag", tag);
  j.kv("maxn", maxn);
  j.kv("bp", p.biprop ? 1 : 0);
  j.kv("big", big ? 1 : 0);
  j.key("threads").beginArr();
  j.str("main");
  for (int i = 0; i < nthreads; ++i)
    j.str("w" + std::to_string(i));
  j.endArr();
  j.kv("prog", programText(p));
  j.endObj();
  return j.s;
}

// ------------------------------------------------------------------------------------ step mode
template <class G>
static ctl::RunResult executeStep(const Program& prog, int defaultExec, int nthreads, int mult, int smult,
                                  ctl::RunOptions opts, ctl::Trace& tr, const std::string& tag) {
  auto* w = new World<G>();
  w->defaultExec = defaultExec;
  bool pool = needsPool(prog, defaultExec);
  int maxn = std::max(1, countAdds(prog));
  tr.line(resetLine(prog, maxn, pool ? nthreads : 0, false, tag));
  ctl::Controller c(tr);
  ctl::setSiteFilter(graphSiteFilter);
  c.setProjection([w](Json& j) { w->project(j); });
  const std::vector<Op>* ops = &prog.ops;
  c.addThread("main", [w, ops, pool, nthreads, mult, smult]() {
    if (pool) {
      ctl::point("DrOp");
      ctl::note("pool", nthreads, 0);
      w->pool = new dispenso::ThreadPool((size_t)nthreads, (size_t)mult);
      w->ts = new dispenso::TaskSet(*w->pool, (ssize_t)smult);
      w->cts = new dispenso::ConcurrentTaskSet(*w->pool, (ssize_t)smult);
    }
    for (auto& o : *ops) {
      ctl::point("DrOp");
      w->doOp(o);
    }
    if (pool) {
      ctl::point("DrOp");
      ctl::note("del", 0, 0);
      delete w->ts;
      delete w->cts;
      delete w->pool;
      w->ts = nullptr;
      w->cts = nullptr;
      w->pool = nullptr;
    }
    ctl::point("DrEnd");
  });
  ctl::RunResult res = c.run(opts);
  if (res.completed) {
    Json j;
    j.beginObj();
    j.kv("e", std::string("End"));
    j.endObj();
    tr.line(j.s);
    delete w;
  }
  return res;
}

// ------------------------------------------------------------------------------------- big mode
template <class G>
static void executeBig(const Program& prog, int nthreads, ctl::Trace& tr, const std::string& tag) {
  World<G> w;
  int maxn = std::max(1, countAdds(prog));
  tr.line(resetLine(prog, maxn, nthreads, true, tag));
  w.pool = new dispenso::ThreadPool((size_t)nthreads);
  w.ts = new dispenso::TaskSet(*w.pool);
  w.cts = new dispenso::ConcurrentTaskSet(*w.pool);
  for (auto& o : prog.ops) {
    Json j;
    j.beginObj();
    j.kv("t", std::string("main"));
    if (o.op == "eval") {
      w.doOp(o);
      j.kv("e", std::string("EvalObs"));
      j.kv("exec", o.a);
      size_t n = std::min(w.log.pos.load(), w.log.buf.size());
      j.kv("overflow", w.log.pos.load() > w.log.buf.size() ? 1 : 0);
      j.key("log").beginArr();
      for (size_t i = 0; i < n; ++i) {
        j.beginArr();
        j.num(w.log.buf[i] & 1);
        j.num(w.log.buf[i] >> 1);
        j.endArr();
      }
      j.endArr();
      j.key("s").beginObj();
      w.project(j);
      j.endObj();
    } else {
      j.kv("e", std::string("Op"));
      j.key("r").beginArr();
      j.beginArr();
      j.str(o.op);
      if (o.op == "add") {
        j.num(o.a);
        j.num((long long)w.node.size());
      } else {
        j.num(o.a);
        j.num(o.b);
      }
      j.endArr();
      j.endArr();
      w.doOp(o);
      if (o.op == "setall" || o.op == "prop" || o.op == "clr" || o.op == "gclear") {
        j.key("s").beginObj();
        w.project(j);
        j.endObj();
      }
    }
    j.endObj();
    tr.line(j.s);
  }
  delete w.ts;
  delete w.cts;
  delete w.pool;
  Json j;
  j.beginObj();
  j.kv("e", std::string("End"));
  j.endObj();
  tr.line(j.s);
}

int main(int argc, char** argv) {
  drv::Args a(argc, argv);
  ctl::Trace tr(a.str("out", "trace.ndjson"));
  drv::Totals tot;
  uint64_t seed = (uint64_t)a.num("seed", 1);
  int nthreads = (int)a.num("pool", 2);
  int mult = (int)a.num("mult", 32);
  int smult = (int)a.num("smult", 4);
  int partialPct = (int)a.num("partial", 45); // share of rounds that are mark + propagate re-evaluations

  if (a.has("big")) {
    long long n = a.num("big", 4);
    int maxNodes = (int)a.num("maxnodes", 200);
    for (long long i = 0; i < n; ++i) {
      Rng r(seed * 7919 + (uint64_t)i);
      bool bp = r.chance(50);
      int sz = i == 0 ? maxNodes : 12 + r.below(std::max(1, maxNodes - 12));
      Program p = genProgram(r, bp, sz, 0, true, partialPct);
      int k = 1 + r.below(6);
      std::string tag = "big" + std::to_string(i) + "s" + std::to_string(seed);
      if (bp)
        executeBig<dispenso::BiPropGraph>(p, k, tr, tag);
      else
        executeBig<dispenso::Graph>(p, k, tr, tag);
      ++tot.executions;
      ++tot.completed;
    }
    tr.flush();
    tot.print();
    _exit(0);
  }

  std::vector<Program> progs;
  if (a.has("programs")) {
    std::ifstream f(a.str("programs"));
    std::string line;
    while (std::getline(f, line)) {
      Program p;
      if (parseProgramLine(line, p))
        progs.push_back(p);
    }
  }
  std::vector<int> execs;
  for (auto& e : drv::split(a.str("execs", "0"), ','))
    if (!e.empty())
      execs.push_back(atoi(e.c_str()));
  bool mix = a.has("mix");
  if (a.has("randprog")) {
    long long n = a.num("randprog", 10);
    int maxNodes = (int)a.num("maxnodes", 8);
    for (long long i = 0; i < n; ++i) {
      Rng r(seed * 104729 + (uint64_t)i);
      bool bp = a.has("kind") ? a.str("kind") == "biprop" : r.chance(60);
      progs.push_back(genProgram(r, bp, 3 + r.below(std::max(1, maxNodes - 2)), execs[(size_t)i % execs.size()], mix, partialPct));
    }
  }
  long long runs = a.num("runs", 1);
  bool stop = false;
  for (size_t pi = 0; pi < progs.size() && !stop; ++pi) {
    std::vector<int> es = a.has("randprog") ? std::vector<int>(1, execs[pi % execs.size()]) : execs;
    for (size_t ei = 0; ei < es.size() && !stop; ++ei) {
      int e = es[ei];
      long long rr = (e == 0 && !mix) ? 1 : runs; // the single-thread executor is deterministic
      for (long long i = 0; i < rr && !stop; ++i) {
        ctl::RunOptions o;
        o.mode = ctl::RunOptions::Random;
        o.seed = seed * 1000003ULL + pi * 131ULL + (uint64_t)i * 7ULL + (uint64_t)e;
        int pct = (int)a.num("pct", -1);
        o.pctDepth = pct >= 0 ? pct : ((pi + (size_t)i) % 3 == 0 ? 3 : 0);
        o.allowTimeout = true;
        o.maxSteps = (size_t)a.num("maxsteps", 60000);
        int k = a.has("varypool") ? 1 + (int)((pi + (size_t)i) % 3) : nthreads;
        int m = a.has("varymult") && (pi + (size_t)i) % 2 ? 1 : mult;
        int sm = a.has("varymult") && (pi + (size_t)i) % 2 ? 1 : smult;
        std::string tag = "p" + std::to_string(pi) + "e" + std::to_string(e) + "s" + std::to_string(o.seed);
        ctl::RunResult r = progs[pi].biprop
            ? executeStep<dispenso::BiPropGraph>(progs[pi], e, k, m, sm, o, tr, tag)
            : executeStep<dispenso::Graph>(progs[pi], e, k, m, sm, o, tr, tag);
        tot.add(r);
        if (!r.completed)
          stop = true; // parked threads cannot be unwound
      }
    }
  }
  tr.flush();
  tot.print();
  fflush(stdout);
  _exit(0);
}
