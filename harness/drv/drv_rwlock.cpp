// Driver for dispenso::RWLock / UnalignedRWLock (spec/rwlock/RWLock.tla).
//   --out FILE            trace (ndjson)
//   --prog "t1:lock,unlock;t2:lock_shared,upgrade,unlock;t3:try_lock_shared,unlock_shared"
//   --schedules FILE      replay each schedule of FILE (one JSON array per line)
//   --random N --seed S [--pct D]   N random controlled executions
//   --randprog            with --random: also draw a random (contract-abiding) program per execution
//   --spurious            the environment may return spuriously from futex waits
//   --unaligned           use UnalignedRWLock instead of RWLock
//   --calibrate           print CEPT=0|1 (does CompletionEventImpl::wait carry its own point?) and exit
//   --stress ROUNDS --seed S        E5: free-running rounds (real threads, real futex, inert hooks) on RWLock and
//                         UnalignedRWLock; one observation record per batch of rounds (see rwlock_stress.h)
//
// A thread executes its operations in order; an operation whose documented precondition does not
// hold in the thread's current mode (e.g. "unlock" after a failed "try_lock") is skipped -- the
// specification skips it in the same way -- so every program is a legal use of the API.  After
// every operation that leaves the thread holding the lock it passes through a critical section
// (points CsEnter / CsExit) that maintains the occupancy counters shown in the projection.
#include <dispenso/rw_lock.h>

#include <unistd.h>

#include "../ctl/ctl.h"
#include "../ctl/drv_common.h"
#include "rwlock_stress.h"

using ctl::Json;

using Program = std::vector<std::pair<std::string, std::vector<std::string>>>;

static Program parseProg(const std::string& s) {
  Program p;
  for (auto& th : drv::split(s, ';')) {
    if (th.empty())
      continue;
    auto nm = drv::split(th, ':');
    std::vector<std::string> ops;
    for (auto& o : drv::split(nm.size() > 1 ? nm[1] : "", ','))
      if (!o.empty())
        ops.push_back(o);
    p.emplace_back(nm[0], ops);
  }
  return p;
}

static int g_cept = 0;

static std::string resetLine(const Program& prog, bool spurious, const std::string& tag) {
  Json j;
  j.beginObj();
  j.kv("e", std::string("Reset"));
  j.kv("spins", (long long)dispenso::detail::RWLockImpl::kTryLockDrainSpins);
  j.kv("spur", spurious ? 1 : 0);
  j.kv("cept", g_cept);
  j.kv("tag", tag);
  j.key("prog").beginObj();
  for (auto& th : prog) {
    j.key(th.first.c_str()).beginArr();
    for (auto& o : th.second) {
      j.beginObj();
      j.kv("op", o);
      j.endObj();
    }
    j.endArr();
  }
  j.endObj();
  j.endObj();
  return j.s;
}

// ------------------------------------------------------------------------------ random programs
// Contract (rw_lock.h): no recursive locking; unlock only by the holder; lock_upgrade only by a
// reader and only if no other thread can try to lock for write concurrently.  So a program that
// uses lock_upgrade has exactly one thread that ever write-locks (thread 1); everybody else reads.
static void genSegment(uint64_t& rng, std::vector<std::string>& ops, bool mayWrite, bool mayUpgrade) {
  auto rnd = [&](unsigned n) { return (unsigned)(ctl::splitmix(rng) % n); };
  bool writeFirst = mayWrite && rnd(2) == 0;
  if (writeFirst) {
    ops.push_back(rnd(2) ? "lock" : "try_lock");
    if (rnd(3) == 0) {
      ops.push_back("downgrade");
      if (mayUpgrade && rnd(2) == 0) {
        ops.push_back("upgrade");
        ops.push_back("unlock");
      } else
        ops.push_back("unlock_shared");
    } else
      ops.push_back("unlock");
  } else {
    ops.push_back(rnd(2) ? "lock_shared" : "try_lock_shared");
    if (mayUpgrade && rnd(2) == 0) {
      ops.push_back("upgrade");
      if (rnd(3) == 0) {
        ops.push_back("downgrade");
        ops.push_back("unlock_shared");
      } else
        ops.push_back("unlock");
    } else
      ops.push_back("unlock_shared");
  }
}

static Program randomProgram(uint64_t& rng) {
  Program p;
  int nth = 2 + (int)(ctl::splitmix(rng) % 3);
  bool upgradeProgram = ctl::splitmix(rng) % 3 == 0;
  for (int t = 0; t < nth; ++t) {
    std::vector<std::string> ops;
    int nseg = 1 + (int)(ctl::splitmix(rng) % 3);
    for (int k = 0; k < nseg; ++k)
      genSegment(rng, ops, upgradeProgram ? t == 0 : true, upgradeProgram && t == 0);
    p.emplace_back("t" + std::to_string(t + 1), ops);
  }
  return p;
}

// ------------------------------------------------------------------------------------ execution
enum Mode { N, R, W };

static bool applicable(const std::string& o, Mode m) {
  if (o == "lock" || o == "try_lock" || o == "lock_shared" || o == "try_lock_shared")
    return m == N;
  if (o == "unlock" || o == "downgrade")
    return m == W;
  if (o == "unlock_shared" || o == "upgrade")
    return m == R;
  fprintf(stderr, "ERROR drv_rwlock: unknown op %s\n", o.c_str());
  _exit(3);
}

struct Occupancy {
  std::atomic<int> inW{0}, inR{0};
};

template <class Lock>
static void runThread(Lock& lk, Occupancy& occ, const std::vector<std::string>& ops) {
  Mode m = N;
  for (auto& o : ops) {
    if (!applicable(o, m))
      continue;
    if (o == "lock") {
      lk.lock();
      ctl::ret(1);
      m = W;
    } else if (o == "try_lock") {
      bool ok = lk.try_lock();
      ctl::ret(ok ? 1 : 0);
      m = ok ? W : N;
    } else if (o == "unlock") {
      lk.unlock();
      ctl::ret(1);
      m = N;
    } else if (o == "lock_shared") {
      lk.lock_shared();
      ctl::ret(1);
      m = R;
    } else if (o == "try_lock_shared") {
      bool ok = lk.try_lock_shared();
      ctl::ret(ok ? 1 : 0);
      m = ok ? R : N;
    } else if (o == "unlock_shared") {
      lk.unlock_shared();
      ctl::ret(1);
      m = N;
    } else if (o == "upgrade") {
      lk.lock_upgrade();
      ctl::ret(1);
      m = W;
    } else if (o == "downgrade") {
      lk.lock_downgrade();
      ctl::ret(1);
      m = R;
    }
    if (m != N) {
      std::atomic<int>& c = m == W ? occ.inW : occ.inR;
      ctl::point("CsEnter");
      c.fetch_add(1, std::memory_order_relaxed);
      ctl::point("CsExit");
      c.fetch_sub(1, std::memory_order_relaxed);
    }
  }
}

template <class Lock>
static ctl::RunResult execute(
    const Program& prog,
    bool spurious,
    const ctl::RunOptions& opts,
    ctl::Trace& tr,
    const std::string& tag) {
  Lock* lk = new Lock();
  Occupancy* occ = new Occupancy();
  tr.line(resetLine(prog, spurious, tag));
  // heap-allocated: the logical threads of an execution that did not complete stay parked, so
  // neither the controller nor the lock may be destroyed then (the process exits right after)
  ctl::Controller& c = *new ctl::Controller(tr);
  c.setProjection([lk, occ](Json& j) {
    int word = lk->lockWord().load();
    j.kv("w", word < 0 ? 1 : 0);
    j.kv("r", (long long)(word & 0x7fffffff));
    j.kv("inW", occ->inW.load());
    j.kv("inR", occ->inR.load());
  });
  for (auto& th : prog) {
    const std::vector<std::string>* ops = &th.second;
    c.addThread(th.first, [lk, occ, ops]() { runThread(*lk, *occ, *ops); });
  }
  ctl::RunResult res = c.run(opts);
  if (!res.completed && !res.deadlock && !res.diverged && !res.stuck) {
    res.stuck = true; // step budget exhausted: some thread spins although everybody else is done
    tr.line("{\"e\":\"Deadlock\",\"why\":\"step budget exhausted\"}");
  }
  if (res.completed) {
    Json j;
    j.beginObj();
    j.kv("e", std::string("End"));
    int word = lk->lockWord().load();
    j.kv("word", word == 0 ? 0 : 1);
    j.endObj();
    tr.line(j.s);
    delete &c;
    delete lk;
    delete occ;
  }
  return res;
}

template <class Lock>
static int runAll(const drv::Args& a) {
  ctl::Trace tr(a.str("out", "trace.ndjson"));
  drv::Totals tot;
  bool spurious = a.has("spurious");
  Program prog = parseProg(a.str("prog", "t1:lock,unlock;t2:lock_shared,unlock_shared"));
  if (a.has("schedules")) {
    auto scheds = ctl::readSchedules(a.str("schedules"));
    size_t idx = 0;
    for (auto& s : scheds) {
      ctl::RunOptions o;
      o.mode = ctl::RunOptions::Replay;
      o.schedule = &s;
      o.allowSpurious = spurious;
      o.maxSteps = 20000;
      auto r = execute<Lock>(prog, spurious, o, tr, "sched" + std::to_string(idx++));
      tot.add(r);
      if (!r.completed)
        break; // threads may still be parked: this process cannot run another execution
    }
  } else {
    long long n = a.num("random", 100);
    uint64_t seed = (uint64_t)a.num("seed", 1);
    uint64_t prng = seed * 7919 + 17;
    for (long long i = 0; i < n; ++i) {
      ctl::RunOptions o;
      o.mode = ctl::RunOptions::Random;
      o.seed = seed * 1000003ULL + (uint64_t)i;
      o.pctDepth = (int)a.num("pct", 0);
      o.allowSpurious = spurious;
      o.maxSteps = 20000;
      Program p = a.has("randprog") ? randomProgram(prng) : prog;
      auto r = execute<Lock>(p, spurious, o, tr, "rand" + std::to_string(o.seed % 1000000007ULL));
      tot.add(r);
      if (!r.completed)
        break;
    }
  }
  tr.flush();
  tot.print();
  return 0;
}

// Does CompletionEventImpl::wait() stop at a point of its own before loading the status?  (It does
// once the hooks of the CompletionEvent component are merged; the specification models both.)
static int calibrate() {
  ctl::Trace tr("/dev/null");
  dispenso::detail::CompletionEventImpl ev(7);
  ctl::Controller c(tr);
  c.addThread("t1", [&ev]() { ev.wait(7); });
  ctl::RunOptions o;
  o.mode = ctl::RunOptions::Random;
  auto r = c.run(o);
  return r.steps > 1 ? 1 : 0;
}

// ------------------------------------------------------------------------------ E5 (free-running)
// The lock under stress: RWLock (cache-line aligned) or UnalignedRWLock (placed so that its word
// sits in the middle of a cache line, next to other data), used through its public interface.
struct StressLock {
  static constexpr int kFlavours = 2;
  struct alignas(64) Holder {
    int before[7];
    dispenso::UnalignedRWLock u;
    int after[7];
  };
  int fl;
  dispenso::RWLock* a = nullptr;
  Holder* h = nullptr;
  explicit StressLock(int flavour) : fl(flavour) {
    // (C++14 operator new ignores extended alignment)
    void* mem = nullptr;
    if (posix_memalign(&mem, 64, fl == 0 ? sizeof(dispenso::RWLock) : sizeof(Holder)) != 0)
      _exit(2);
    if (fl == 0)
      a = new (mem) dispenso::RWLock();
    else
      h = new (mem) Holder();
  }
  ~StressLock() {
    if (a) {
      a->~RWLock();
      free(a);
    }
    if (h) {
      h->~Holder();
      free(h);
    }
  }
  const char* name() const {
    return fl == 0 ? "RWLock" : "UnalignedRWLock";
  }
  int slots() const {
    return 1;
  }
  bool upDown() const {
    return true;
  }
  void lock() {
    fl == 0 ? a->lock() : h->u.lock();
  }
  bool try_lock() {
    return fl == 0 ? a->try_lock() : h->u.try_lock();
  }
  void unlock() {
    fl == 0 ? a->unlock() : h->u.unlock();
  }
  void lock_shared(size_t) {
    fl == 0 ? a->lock_shared() : h->u.lock_shared();
  }
  bool try_lock_shared(size_t) {
    return fl == 0 ? a->try_lock_shared() : h->u.try_lock_shared();
  }
  void unlock_shared(size_t) {
    fl == 0 ? a->unlock_shared() : h->u.unlock_shared();
  }
  void lock_upgrade() {
    fl == 0 ? a->lock_upgrade() : h->u.lock_upgrade();
  }
  void lock_downgrade() {
    fl == 0 ? a->lock_downgrade() : h->u.lock_downgrade();
  }
  int residue() {
    return fl == 0 ? a->lockWord().load() : h->u.lockWord().load();
  }
};

int main(int argc, char** argv) {
  drv::Args a(argc, argv);
  if (a.has("stress")) {
    int rc = stress::run<StressLock>(a);
    fflush(stdout);
    _exit(rc);
  }
  g_cept = calibrate();
  if (a.has("calibrate")) {
    printf("CEPT=%d\n", g_cept);
    fflush(stdout);
    _exit(0);
  }
  int rc = a.has("unaligned") ? runAll<dispenso::UnalignedRWLock>(a) : runAll<dispenso::RWLock>(a);
  fflush(stdout);
  _exit(rc); // parked threads of an aborted execution must not block exit
}
