// Driver for C16 (spec/taskset/Invoke.tla, InvokeTrace.tla): dispenso::parallel_invoke on the real
// ConcurrentTaskSet / ThreadPool under the controlled scheduler.
//
//   --out FILE --trees FILE (one tree per line) --nw 0,1,2 --runs N --seed S [--pct D] [--mult 1]
//   [--maxsteps M]
//
// tree text: functors separated by ';', entry k (k = 0 is the main thread) lists the functors that
// functor k hands to parallel_invoke, e.g. "1,2;3,4;;;" = main invokes (1,2), 1 invokes (3,4), 2..4
// are leaves.  Optional prefixes "NW=0,2 " "R=5 " "C=H|L " (task cost; default both).
// Every functor logs begin/end (its thread is the event's thread), every parallel_invoke call logs
// call/ret, main logs the wait call/ret.  Projection: the task set's outstanding count.
#include <dispenso/parallel_invoke.h>

#include <functional>
#include <dispenso/task_set.h>
#include <dispenso/thread_pool.h>

#include <unistd.h>

#include <atomic>
#include <fstream>
#include <memory>

#include "../ctl/ctl.h"
#include "../ctl/drv_common.h"

using ctl::Json;

struct Tree {
  std::vector<std::vector<int>> kids; // kids[k]
  std::vector<int> nws;
  long long runs = 0;
  std::string costs = "HL";
};

static Tree parseTree(const std::string& line) {
  Tree t;
  std::string text = line;
  for (;;) {
    size_t sp = text.find(' ');
    if (text.rfind("NW=", 0) == 0) {
      for (auto& s : drv::split(text.substr(3, sp - 3), ','))
        t.nws.push_back(atoi(s.c_str()));
    } else if (text.rfind("R=", 0) == 0) {
      t.runs = atoll(text.c_str() + 2);
    } else if (text.rfind("C=", 0) == 0) {
      t.costs = text.substr(2, sp - 2);
    } else {
      break;
    }
    text = text.substr(sp + 1);
  }
  for (auto& f : drv::split(text, ';')) {
    std::vector<int> ks;
    for (auto& k : drv::split(f, ','))
      if (!k.empty())
        ks.push_back(atoi(k.c_str()));
    t.kids.push_back(ks);
  }
  return t;
}

struct World {
  const Tree* tree = nullptr;
  dispenso::ThreadPool* pool = nullptr;
  dispenso::ConcurrentTaskSet* cts = nullptr;
};

static void functor(World* w, int k);

// Functors handed over as NAMED objects (lvalues, also const and std::function ones) that go out of scope when this
// function returns, i.e. long before the task set's wait(): parallel_invoke must own what it queues (it copies lvalues),
// exactly as with the temporaries of invokeKids.  Used by every functor with an odd id.
static void invokeKidsNamed(World* w, const std::vector<int>& ks) {
  auto& ts = *w->cts;
  auto f0 = [w, a = ks[0]]() { functor(w, a); };
  switch (ks.size()) {
    case 1:
      dispenso::parallel_invoke(ts, f0);
      break;
    case 2: {
      const auto f1 = [w, a = ks[1]]() { functor(w, a); };
      dispenso::parallel_invoke(ts, f0, f1);
      break;
    }
    case 3: {
      std::function<void()> f1 = [w, a = ks[1]]() { functor(w, a); };
      auto f2 = [w, a = ks[2]]() { functor(w, a); };
      dispenso::parallel_invoke(ts, f0, f1, f2);
      break;
    }
    case 4: {
      auto f1 = [w, a = ks[1]]() { functor(w, a); };
      const std::function<void()> f2 = [w, a = ks[2]]() { functor(w, a); };
      auto f3 = [w, a = ks[3]]() { functor(w, a); };
      dispenso::parallel_invoke(ts, f0, f1, f2, f3);
      break;
    }
    default:
      fprintf(stderr, "ERROR drv_invoke: arity %zu not supported\n", ks.size());
      _exit(3);
  }
}

static void invokeKids(World* w, const std::vector<int>& ks) {
  auto& ts = *w->cts;
  switch (ks.size()) {
    case 1:
      dispenso::parallel_invoke(ts, [w, &ks]() { functor(w, ks[0]); });
      break;
    case 2:
      dispenso::parallel_invoke(ts, [w, a = ks[0]]() { functor(w, a); }, [w, &ks]() { functor(w, ks[1]); });
      break;
    case 3:
      dispenso::parallel_invoke(
          ts, [w, a = ks[0]]() { functor(w, a); }, [w, a = ks[1]]() { functor(w, a); },
          [w, &ks]() { functor(w, ks[2]); });
      break;
    case 4:
      dispenso::parallel_invoke(
          ts, [w, a = ks[0]]() { functor(w, a); }, [w, a = ks[1]]() { functor(w, a); },
          [w, a = ks[2]]() { functor(w, a); }, [w, &ks]() { functor(w, ks[3]); });
      break;
    default:
      fprintf(stderr, "ERROR drv_invoke: arity %zu not supported\n", ks.size());
      _exit(3);
  }
}

static void body(World* w, int k) {
  const std::vector<int>& ks = w->tree->kids[(size_t)k];
  if (!ks.empty()) {
    ctl::point("DrOp");
    ctl::note("call", 1, k);
    if (k & 1)
      invokeKidsNamed(w, ks);
    else
      invokeKids(w, ks);
    ctl::point("DrRet");
    ctl::note("ret", 1, k);
  }
}

static void functor(World* w, int k) {
  ctl::note("begin", k);
  body(w, k);
  ctl::point("DrEnd");
  ctl::note("end", k);
}

static bool siteFilter(const char* s) {
  return (s[0] == 'T' && s[1] == 'p') || (s[0] == 'P' && (s[1] == 'w' || s[1] == 'i')) ||
      (s[0] == 'E' && s[1] == 'w') || (s[0] == 'F' && s[1] == 'u') || (s[0] == 'D' && s[1] == 'r') ||
      (s[0] == 'I' && s[1] == 'n' && s[2] == 'l'); // Inl* notes (inline depth)
}

static ctl::RunResult execute(const Tree& tree, int pidx, int nw, int mult, bool heavy, ctl::RunOptions opts,
                              ctl::Trace& tr, const std::string& tag) {
  World* w = new World();
  w->tree = &tree;
  {
    Json j;
    j.beginObj();
    j.kv("e", std::string("Reset"));
    j.kv("tag", tag);
    j.kv("p", pidx);
    j.kv("nw", nw);
    j.kv("mult", mult);
    j.kv("heavy", heavy ? 1 : 0);
    j.kv("maxinl", dispenso::detail::kMaxInlineDepth);
    j.endObj();
    tr.line(j.s);
  }
  ctl::Controller c(tr);
  ctl::setSiteFilter(siteFilter);
  c.setProjection([w](Json& j) {
    if (w->cts) {
      j.kv("alive", 1);
      j.kv("out", (long long)w->cts->outstandingTaskCount_.load());
    } else {
      j.kv("alive", 0);
    }
  });
  c.addThread("main", [w, nw, mult, heavy]() {
    ctl::point("DrSetup");
    w->pool = new dispenso::ThreadPool((size_t)nw, 32);
    w->cts = new dispenso::ConcurrentTaskSet(
        *w->pool, heavy ? dispenso::TaskCost::kHeavy : dispenso::TaskCost::kLightweight, (ssize_t)mult);
    body(w, 0);
    ctl::point("DrOp");
    ctl::note("call", 2, 0);
    w->cts->wait();
    ctl::point("DrRet");
    ctl::note("ret", 2, 0);
    auto* t = w->cts;
    w->cts = nullptr;
    delete t;
    auto* p = w->pool;
    w->pool = nullptr;
    delete p;
  });
  ctl::RunResult res = c.run(opts);
  if (res.completed) {
    tr.line("{\"e\":\"End\"}");
    delete w;
  } else if (!res.deadlock && !res.diverged && !res.stuck) {
    tr.line("{\"e\":\"Stalled\"}");
  }
  return res;
}

int main(int argc, char** argv) {
  drv::Args a(argc, argv);
  ctl::Trace tr(a.str("out", "trace.ndjson"));
  drv::Totals tot;
  std::vector<Tree> trees;
  {
    std::ifstream f(a.str("trees", ""));
    std::string line;
    while (std::getline(f, line))
      if (!line.empty() && line[0] != '#')
        trees.push_back(parseTree(line));
  }
  if (trees.empty()) {
    fprintf(stderr, "ERROR drv_invoke: no trees\n");
    return 3;
  }
  {
    Json j;
    j.beginObj();
    j.kv("e", std::string("Header"));
    j.key("trees").beginArr();
    for (auto& t : trees) {
      j.beginArr();
      for (auto& ks : t.kids) {
        j.beginArr();
        for (int k : ks)
          j.num(k);
        j.endArr();
      }
      j.endArr();
    }
    j.endArr();
    j.endObj();
    tr.line(j.s);
  }
  std::vector<int> nws;
  for (auto& s : drv::split(a.str("nw", "0,1,2"), ','))
    nws.push_back(atoi(s.c_str()));
  long long runs = a.num("runs", 4);
  uint64_t seed = (uint64_t)a.num("seed", 1);
  int mult = (int)a.num("mult", 1);
  int pct = (int)a.num("pct", 0);
  bool stop = false;
  for (size_t pi = 0; pi < trees.size() && !stop; ++pi)
    for (int nw : (trees[pi].nws.empty() ? nws : trees[pi].nws)) {
      for (char cost : trees[pi].costs)
        for (long long i = 0; i < (trees[pi].runs ? trees[pi].runs : runs) && !stop; ++i) {
          ctl::RunOptions o;
          o.mode = ctl::RunOptions::Random;
          o.seed = seed * 1000003ULL + (uint64_t)pi * 7919 + (uint64_t)nw * 104729 + (uint64_t)i + (cost == 'H' ? 500 : 0);
          o.pctDepth = (pct > 0 && i % 3 == 2) ? pct : 0;
          o.maxSteps = (size_t)a.num("maxsteps", 50000) * (o.pctDepth > 0 ? 10 : 1);
          auto r = execute(trees[pi], (int)pi + 1, nw, mult, cost == 'H', o, tr,
                           "t" + std::to_string(pi + 1) + "n" + std::to_string(nw) + cost + "s" + std::to_string(o.seed));
          tot.add(r);
          if (!r.completed)
            stop = true;
        }
      if (stop)
        break;
    }
  tr.flush();
  tot.print();
  fflush(stdout);
  _exit(0);
}
