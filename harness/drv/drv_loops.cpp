// Driver for dispenso::parallel_for (stateful overload) and dispenso::for_each_n
// (spec/parfor/ParForApi.tla, ForEach.tla; trace specs ParForApiTrace.tla, ForEachTrace.tla).
//
// Runs the REAL loops on the REAL ThreadPool.
//   controlled mode (default): under the controlled scheduler (HOWTO_POOL): the pool/task-set
//     schedule points give the interleavings; the loop body logs notes INSIDE the body
//       ["bb", (b-start)*1024 + (e-start), stateIdx]   first statement of the body
//       ["be", (b-start)*1024 + (e-start), stateIdx]   last statement of the body
//     (for_each: ["fb", elem, 0] / ["fe", elem, 0]) and stops at a point in between, so the body is
//     "in progress" across the steps of the other threads.  stateIdx is the position, found by
//     address, of the State object the body was handed in the states container.
//     Driver level notes: ["call", callerRingIndex, 0], ["ret", states.size(), 0], ["sw",0,0],
//     ["swr",0,0] (taskSet.wait() after a no-wait call).  Every note is alone in its step.
//     Projection after every step: per element of the container its in-use counter (maintained by the
//     body), the number of bodies in progress; for_each: per element the number of applications.
//   --free: truly concurrent executions on a bigger pool; the same events are logged under the trace
//     lock (begin AFTER the body has begun, end BEFORE it ends: an overlap in the log is a real
//     overlap); bodies rendezvous: a body waits <= 2 ms for more bodies to be in progress.
//
//   --out FILE --scen "pf:n=7,mode=0,...|fe:n=5,..." --runs R --seed S [--pct D] [--free]
//   [--maxsteps M]
// Scenario keys (defaults): n=8 start=0 mode=0(static)|1(auto)|2(chunk) c=0 mt=2147483647 mtneg=0
//   wait=1 g=1 mi=1 N=2 reuse=0 pre=0 cont=0(vector)|1(deque)|2(list) cts=0 mult=32 slm=4 inpool=0
//   for_each: cat=0(vector)|1(list)|2(forward_list)
// C++ only drives, records, projects; every verdict is TLC's.
#include <dispenso/for_each.h>

#include <memory>
#include <dispenso/parallel_for.h>

#include <signal.h>
#include <unistd.h>

#include <atomic>
#include <chrono>
#include <deque>
#include <forward_list>
#include <list>
#include <map>
#include <vector>

#include "../ctl/ctl.h"
#include "../ctl/drv_common.h"
#include "pool_proj.h"

using ctl::Json;

struct Scen {
  std::string api = "pf";
  std::string text;
  std::map<std::string, long long> kv;
  long long get(const char* k, long long d) const {
    auto it = kv.find(k);
    return it == kv.end() ? d : it->second;
  }
};

static Scen parseScen(const std::string& s) {
  Scen sc;
  sc.text = s;
  auto p = s.find(':');
  sc.api = s.substr(0, p);
  for (auto& kvs : drv::split(p == std::string::npos ? "" : s.substr(p + 1), ',')) {
    auto e = kvs.find('=');
    if (e == std::string::npos)
      continue;
    sc.kv[kvs.substr(0, e)] = atoll(kvs.substr(e + 1).c_str());
  }
  return sc;
}

struct St {
  int id;
  std::atomic<int> inuse;
  explicit St(int i = 0) : id(i), inuse(0) {}
  St(const St& o) : id(o.id), inuse(o.inuse.load()) {}
  St& operator=(const St& o) {
    id = o.id;
    inuse.store(o.inuse.load());
    return *this;
  }
};

struct Elem {
  int idx = 0;
  std::atomic<int> count{0};
  Elem() {}
  explicit Elem(int i) : idx(i) {}
  Elem(const Elem& o) : idx(o.idx), count(o.count.load()) {}
};

struct World {
  Scen sc;
  dispenso::ThreadPool* pool = nullptr;
  bool freeMode = false;
  ctl::Trace* tr = nullptr;
  std::vector<St> sv;
  std::deque<St> sd;
  std::list<St> sl;
  std::vector<Elem> ev;
  std::list<Elem> el;
  std::forward_list<Elem> ef;
  std::atomic<int> act{0};
  std::atomic<int> callDone{0};
  std::atomic<long long> budgetUs{0}; // free mode: rendezvous budget per call
  long long start = 0;
  int target = 2; // free mode: concurrency a body tries to wait for
};

static char g_crashMsg[1024];
static void onCrash(int sig) {
  char buf[1200];
  int n = snprintf(buf, sizeof buf, "\nCRASH signal=%d scenario=%s\n", sig, g_crashMsg);
  if (n > 0) {
    ssize_t r = write(1, buf, (size_t)n);
    (void)r;
  }
  _exit(100 + sig);
}

// ---------------------------------------------------------------------------------- thread ids
static std::atomic<int> g_nextTid{1};
static thread_local int tlsTid = -1;
static int freeTid() {
  if (tlsTid < 0)
    tlsTid = g_nextTid.fetch_add(1);
  return tlsTid;
}

static void freeEv(World* w, const char* tag, long long a, long long b) {
  char buf[160];
  snprintf(buf, sizeof buf, "\"th\":%d,\"r\":[[\"%s\",%lld,%lld]]", freeTid(), tag, a, b);
  ctl::freeEvent(*w->tr, "F", buf);
}

static void ev(World* w, const char* tag, long long a, long long b) {
  if (w->freeMode)
    freeEv(w, tag, a, b);
  else
    ctl::note(tag, a, b);
}

static void rendezvous(World* w) {
  // wait (<= 2 ms, within the call's budget) until `target` bodies are in progress
  using clk = std::chrono::steady_clock;
  auto t0 = clk::now();
  long long spent = 0;
  while (w->act.load() < w->target && spent < 2000 && w->budgetUs.load() > 0) {
    for (int i = 0; i < 50; ++i)
      __builtin_ia32_pause();
    spent = std::chrono::duration_cast<std::chrono::microseconds>(clk::now() - t0).count();
  }
  w->budgetUs.fetch_sub(spent);
  if (w->act.load() >= w->target) {
    // let the others log their begin as well
    auto t1 = clk::now();
    while (std::chrono::duration_cast<std::chrono::microseconds>(clk::now() - t1).count() < 150)
      __builtin_ia32_pause();
  }
}

template <class C>
static int indexOf(C& c, const St* p) {
  int i = 0;
  for (auto& x : c) {
    if (&x == p)
      return i;
    ++i;
  }
  return -1;
}

static void bodyImpl(World* w, St* s, int idx, long long b, long long e) {
  long long code = (b - w->start) * 1024 + (e - w->start);
  if (!w->freeMode) {
    s->inuse.fetch_add(1);
    w->act.fetch_add(1);
    ctl::note("bb", code, idx);
    ctl::point("LpBody");
    s->inuse.fetch_sub(1);
    w->act.fetch_sub(1);
    ctl::note("be", code, idx);
    ctl::point("LpEnd");
  } else {
    s->inuse.fetch_add(1);
    w->act.fetch_add(1);
    freeEv(w, "bb", code, idx);
    rendezvous(w);
    freeEv(w, "be", code, idx);
    w->act.fetch_sub(1);
    s->inuse.fetch_sub(1);
  }
}

static void elemImpl(World* w, Elem& x) {
  x.count.fetch_add(1);
  if (!w->freeMode) {
    w->act.fetch_add(1);
    ctl::note("fb", x.idx, 0);
    ctl::point("LpBody");
    w->act.fetch_sub(1);
    ctl::note("fe", x.idx, 0);
    ctl::point("LpEnd");
  } else {
    w->act.fetch_add(1);
    freeEv(w, "fb", x.idx, 0);
    rendezvous(w);
    freeEv(w, "fe", x.idx, 0);
    w->act.fetch_sub(1);
  }
}

// ------------------------------------------------------------------------------ the call itself
template <class TaskSetT, class C>
static void callPf(World* w, TaskSetT& ts, C& cont) {
  const Scen& sc = w->sc;
  long long n = sc.get("n", 8);
  long long start = w->start;
  dispenso::ParForOptions o;
  o.maxThreads = sc.get("mtneg", 0) ? 0xFFFFFFFFu : (uint32_t)sc.get("mt", 2147483647LL);
  o.wait = sc.get("wait", 1) != 0;
  o.granularity = (uint32_t)sc.get("g", 1);
  o.minItemsPerChunk = (uint32_t)sc.get("mi", 1);
  o.reuseExistingState = sc.get("reuse", 0) != 0;
  int mode = (int)sc.get("mode", 0);
  using R = dispenso::ChunkedRange<int64_t>;
  R range = mode == 0 ? R((int64_t)start, (int64_t)(start + n), R::Static())
      : mode == 1     ? R((int64_t)start, (int64_t)(start + n), R::Auto())
                      : R((int64_t)start, (int64_t)(start + n), (int64_t)sc.get("c", 1));
  int nextId = 100;
  auto gen = [&nextId]() { return St(nextId++); };
  C* cp = &cont;
  auto f = [w, cp](St& s, int64_t b, int64_t e) { bodyImpl(w, &s, indexOf(*cp, &s), b, e); };
  int cring = dispenso::detail::PerPoolPerThreadInfo::ringIndex(w->pool);
  ev(w, "call", cring, 0);
  ctl::point("LpCalled");
  dispenso::parallel_for(ts, cont, gen, range, f, o);
  ctl::point("LpRet");
  ev(w, "ret", (long long)std::distance(cont.begin(), cont.end()), 0);
  ctl::point("LpRetd");
  if (!o.wait) {
    ev(w, "sw", 0, 0);
    ctl::point("LpSw");
    ts.wait();
    ctl::point("LpSwr");
    ev(w, "swr", 0, 0);
    ctl::point("LpSwrd");
  }
}

template <class TaskSetT, class It>
static void callFe(World* w, TaskSetT& ts, It begin) {
  const Scen& sc = w->sc;
  dispenso::ForEachOptions o;
  o.maxThreads = sc.get("mtneg", 0) ? 0xFFFFFFFFu : (uint32_t)sc.get("mt", 2147483647LL);
  o.wait = sc.get("wait", 1) != 0;
  auto f = [w](Elem& x) { elemImpl(w, x); };
  // every other call hands the functor over as an RVALUE that owns move-sensitive state by value (a vector and a
  // shared_ptr): for_each must apply THE functor it was given to every element, so each chunk needs an intact copy; a
  // copy whose state is gone does not apply the element (the specification then rejects the call's return)
  static int calls = 0;
  const bool rvalue = (calls++ & 1) != 0;
  std::vector<int> tbl{3, 1, 4};
  auto sp = std::make_shared<int>(42);
  ev(w, "call", -1, 0);
  ctl::point("LpCalled");
  if (rvalue) {
    dispenso::for_each_n(
        ts, begin, (size_t)sc.get("n", 8),
        [w, tbl, sp](Elem& x) {
          if (tbl.size() == 3 && tbl[2] == 4 && sp && *sp == 42)
            elemImpl(w, x);
        },
        o);
  } else {
    dispenso::for_each_n(ts, begin, (size_t)sc.get("n", 8), f, o);
  }
  ctl::point("LpRet");
  ev(w, "ret", 0, 0);
  ctl::point("LpRetd");
  if (!o.wait) {
    ev(w, "sw", 0, 0);
    ctl::point("LpSw");
    ts.wait();
    ctl::point("LpSwr");
    ev(w, "swr", 0, 0);
    ctl::point("LpSwrd");
  }
}

template <class TaskSetT>
static void callWith(World* w) {
  const Scen& sc = w->sc;
  TaskSetT ts(*w->pool, (ssize_t)sc.get("slm", 4));
  if (sc.api == "pf") {
    switch ((int)sc.get("cont", 0)) {
      case 0:
        callPf(w, ts, w->sv);
        break;
      case 1:
        callPf(w, ts, w->sd);
        break;
      default:
        callPf(w, ts, w->sl);
        break;
    }
  } else {
    switch ((int)sc.get("cat", 0)) {
      case 0:
        callFe(w, ts, w->ev.begin());
        break;
      case 1:
        callFe(w, ts, w->el.begin());
        break;
      default:
        callFe(w, ts, w->ef.begin());
        break;
    }
  }
}

static void doCall(World* w) {
  if (w->sc.get("cts", 0))
    callWith<dispenso::ConcurrentTaskSet>(w);
  else
    callWith<dispenso::TaskSet>(w);
  w->callDone.store(1);
}

static void setup(World* w) {
  const Scen& sc = w->sc;
  w->start = sc.get("start", 0);
  int pre = (int)sc.get("pre", 0);
  for (int i = 0; i < pre; ++i) {
    w->sv.emplace_back(St(i));
    w->sd.emplace_back(St(i));
    w->sl.emplace_back(St(i));
  }
  if (sc.api == "fe") {
    int n = (int)sc.get("n", 8);
    // two more elements than n: the loop must not touch them
    for (int i = 0; i < n + 2; ++i) {
      w->ev.emplace_back(i);
      w->el.emplace_back(i);
    }
    for (int i = n + 1; i >= 0; --i)
      w->ef.emplace_front(i);
  }
  long long mt = sc.get("mtneg", 0) ? 1000 : sc.get("mt", 2147483647LL);
  w->target = (int)std::min<long long>(std::max<long long>(mt, 1) + 1, 9);
  w->budgetUs.store(12000);
}

static std::string resetLine(const Scen& sc, const std::string& tag, bool freeMode) {
  Json j;
  j.beginObj();
  j.kv("e", std::string("Reset"));
  j.kv("tag", tag);
  j.kv("api", sc.api);
  j.kv("free", freeMode ? 1 : 0);
  j.kv("n", sc.get("n", 8));
  j.kv("start", sc.get("start", 0));
  int mode = (int)sc.get("mode", 0);
  j.kv("mode", std::string(mode == 0 ? "static" : mode == 1 ? "auto" : "chunk"));
  j.kv("c", mode == 2 ? sc.get("c", 1) : 0);
  j.kv("mt", sc.get("mtneg", 0) ? 2147483647LL : sc.get("mt", 2147483647LL));
  j.kv("mtneg", sc.get("mtneg", 0));
  j.kv("wait", sc.get("wait", 1));
  j.kv("g", sc.get("g", 1));
  j.kv("mi", sc.get("mi", 1));
  j.kv("N", sc.get("N", 2));
  j.kv("reuse", sc.get("reuse", 0));
  j.kv("pre", sc.get("pre", 0));
  j.kv("cont", sc.get("cont", 0));
  j.kv("cat", std::string(sc.get("cat", 0) == 0 ? "ra" : sc.get("cat", 0) == 1 ? "bidi" : "fwd"));
  j.kv("cts", sc.get("cts", 0));
  j.kv("mult", sc.get("mult", 32));
  j.kv("slm", sc.get("slm", 4));
  j.kv("inpool", sc.get("inpool", 0));
  j.endObj();
  return j.s;
}

static void project(World* w, Json& j) {
  const Scen& sc = w->sc;
  j.kv("act", w->act.load());
  if (sc.api == "pf") {
    j.key("use").beginArr();
    switch ((int)sc.get("cont", 0)) {
      case 0:
        for (auto& s : w->sv)
          j.num(s.inuse.load());
        break;
      case 1:
        for (auto& s : w->sd)
          j.num(s.inuse.load());
        break;
      default:
        for (auto& s : w->sl)
          j.num(s.inuse.load());
        break;
    }
    j.endArr();
  } else {
    j.key("cnt").beginArr();
    switch ((int)sc.get("cat", 0)) {
      case 0:
        for (auto& x : w->ev)
          j.num(x.count.load());
        break;
      case 1:
        for (auto& x : w->el)
          j.num(x.count.load());
        break;
      default:
        for (auto& x : w->ef)
          j.num(x.count.load());
        break;
    }
    j.endArr();
  }
}

static bool siteFilter(const char* s) {
  return poolproj::siteFilter(s) || (s[0] == 'L' && s[1] == 'p');
}

static void mainBody(World* w) {
  const Scen& sc = w->sc;
  ctl::point("DrOp");
  w->pool = new dispenso::ThreadPool((size_t)sc.get("N", 2), (size_t)sc.get("mult", 32));
  ctl::point("DrOp");
  if (sc.get("inpool", 0) && sc.get("N", 2) > 0) {
    // the call is made by a pool thread (a plain task, not a parallel_for body)
    w->pool->schedule([w]() { doCall(w); }, dispenso::ForceQueuingTag());
    if (w->freeMode) {
      while (!w->callDone.load())
        std::this_thread::yield();
    } else {
      ctl::gate("GateDone", [w]() { return w->callDone.load() != 0; });
    }
  } else {
    doCall(w);
  }
  ctl::point("DrOp");
  delete w->pool;
  w->pool = nullptr;
}

static ctl::RunResult executeControlled(const Scen& sc, ctl::RunOptions opts, ctl::Trace& tr,
                                        const std::string& tag, bool* callDone) {
  World* w = new World();
  w->sc = sc;
  w->tr = &tr;
  setup(w);
  snprintf(g_crashMsg, sizeof g_crashMsg, "%s schedule-seed=%llu pct=%d", sc.text.c_str(),
           (unsigned long long)opts.seed, opts.pctDepth);
  tr.line(resetLine(sc, tag, false));
  tr.flush();
  ctl::Controller c(tr);
  ctl::setSiteFilter(siteFilter);
  c.setProjection([w](Json& j) { project(w, j); });
  c.addThread("main", [w]() { mainBody(w); });
  ctl::RunResult res = c.run(opts);
  bool done = w->callDone.load() != 0;
  if (res.completed) {
    tr.line("{\"e\":\"End\"}");
  } else {
    // the run was cut (step bound, or nothing runnable): `calldone` tells whether the loop call
    // itself had completed (only the pool tear-down was cut)
    tr.line(std::string("{\"e\":\"Stalled\",\"deadlock\":") + (res.deadlock ? "1" : "0") +
            ",\"calldone\":" + (w->callDone.load() ? "1" : "0") + "}");
  }
  *callDone = done;
  if (res.completed)
    delete w;
  return res;
}

int main(int argc, char** argv) {
  drv::Args a(argc, argv);
  signal(SIGFPE, onCrash);
  signal(SIGSEGV, onCrash);
  signal(SIGABRT, onCrash);
  signal(SIGBUS, onCrash);
  ctl::Trace tr(a.str("out", "trace.ndjson"));
  drv::Totals tot;
  std::vector<Scen> scens;
  for (auto& s : drv::split(a.str("scen", "pf:n=8"), '|'))
    if (!s.empty())
      scens.push_back(parseScen(s));
  long long runs = a.num("runs", 4);
  uint64_t seed = (uint64_t)a.num("seed", 1);
  bool freeMode = a.has("free");

  if (freeMode) {
    // one free-running "execution" = one call on a fresh pool; all calls inside one Free run
    World* cur = nullptr;
    ctl::Controller c(tr);
    std::vector<Scen>* sp = &scens;
    ctl::Trace* trp = &tr;
    long long done = 0;
    c.addThread("main", [&]() {
      tlsTid = 0;
      for (size_t si = 0; si < sp->size(); ++si) {
        for (long long r = 0; r < runs; ++r) {
          World* w = new World();
          cur = w;
          w->sc = (*sp)[si];
          w->tr = trp;
          w->freeMode = true;
          setup(w);
          snprintf(g_crashMsg, sizeof g_crashMsg, "%s (free run %lld)", w->sc.text.c_str(), r);
          trp->line(resetLine(w->sc, "f" + std::to_string(si) + "r" + std::to_string(r), true));
          g_nextTid.store(1);
          mainBody(w);
          trp->line("{\"e\":\"End\"}");
          delete w;
          ++done;
        }
      }
    });
    ctl::RunOptions o;
    o.mode = ctl::RunOptions::Free;
    o.seed = seed;
    c.run(o);
    (void)cur;
    tot.executions = done;
    tot.completed = done;
    tr.flush();
    tot.print();
    fflush(stdout);
    _exit(0);
  }

  // executions are numbered si * runs + r; --skip K resumes after a process that had to stop
  long long skip = a.num("skip", 0);
  long long next = skip;
  int callIncomplete = 0;
  for (long long x = skip; x < (long long)scens.size() * runs; ++x) {
    size_t si = (size_t)(x / runs);
    long long r = x % runs;
    ctl::RunOptions o;
    o.mode = ctl::RunOptions::Random;
    o.seed = seed * 1000003ULL + (uint64_t)si * 101ULL + (uint64_t)r;
    // half of the executions with PCT priorities (if requested)
    o.pctDepth = (r % 2) ? (int)a.num("pct", 0) : 0;
    o.allowTimeout = true;
    o.maxSteps = (size_t)a.num("maxsteps", 30000);
    bool callDone = false;
    auto res = executeControlled(scens[si], o, tr, "s" + std::to_string(si) + "r" + std::to_string(r), &callDone);
    tot.add(res);
    next = x + 1;
    if (!res.completed) {
      // parked threads cannot be unwound: one incomplete execution ends the process
      if (!callDone)
        callIncomplete = 1;
      break;
    }
  }
  printf("LOOPS next=%lld total=%lld callincomplete=%d\n", next, (long long)scens.size() * runs, callIncomplete);
  tr.flush();
  tot.print();
  fflush(stdout);
  _exit(0);
}
