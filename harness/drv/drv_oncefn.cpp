// Driver for dispenso::OnceFunction (spec/seq/OnceFn.tla, property C39).  Sequential: no scheduler.
//   --out FILE                     trace (ndjson), one line per operation (+ a Reset line per execution)
//   --schedules FILE --passes P    replay every operation sequence of FILE (from the TLC state graph:
//                                  {"t":register,"a":Create|MoveToF<target 1..3>|Call|Cleanup}) P times; every Create
//                                  takes the next callable type of the rotation: 11 sizes x 9 alignments
//                                  (Callable<S, A>, bytes[S]) + 1 member-less callable (std::is_empty, observable
//                                  destructor, booked through statics: EmptyCallable)
//   --random N --maxops M          N random legal operation sequences of up to M operations
//   --reentrant                    directed executions: every callable type (+ two of malloc class 1024) x both
//                                  re-entrant destructor modes x five consume paths (run, cleanupNotRun, moved then
//                                  run, moved twice then cleanupNotRun, two blocks of the class destroyed oldest first)
//   --seed S                       rotation offset / variant choice / random sequences
//
// What is recorded (never addresses, only remainders and identities):
//   Create  sizeof/alignof of the callable type, where the stored instance lives ("inline": inside the
//           OnceFunction object, else "spill"), its address % alignof and % 512
//   Call / Cleanup   address % alignof at invocation and at destruction, whether the bytes of the callable
//           arrived intact, where it was destroyed ("reg": inside the register the operation was applied to,
//           "same": at the address it was constructed at), and for each small-buffer size class whether the
//           block on top of the calling thread's cache is that address (the block went back to THAT class)
//   after every operation, per callable id: invocation count, number of live value-carrying instances,
//           number of destructions of a value-carrying instance; live moved-from husks; per small-buffer
//           class (4..256) the number of blocks missing from the thread cache w.r.t. the start
//   storage is OWNED until destruction ends (C39: "stored at an address ...", the callable lives in storage the
//   OnceFunction exclusively owns until it has been destroyed): release is the LAST thing operator() /
//   cleanupNotRun() do.  Observed in two independent ways:
//     iout/ilout, dout/dlout   the blocks missing from each class' thread cache / the heap blocks outstanding,
//           sampled inside operator() and at the very end of the callable's destructor: the callable's own block
//           must still be outstanding there (= the specification's pre-state of the Call / Cleanup step)
//     re-entrant payloads ("re" 1/2 on the Create line)   a callable whose operator() and destructor create and
//           consume ANOTHER OnceFunction holding a callable of the same sizeof/alignof (hence the same storage
//           decision and size class, same thread) - what a completion notifier / scope-exit capture that
//           schedules follow-up work does.  The nested callable must not be constructed on top of the outer one
//           ("nover"), must itself be intact when invoked / destroyed ("nbad") and be destroyed exactly once
//           ("ndtor", "nlive"), and the outer callable's bytes are checked AFTER the nested one was written and
//           consumed, as the last statement of the destructor ("intact").
#include <dispenso/detail/small_buffer_allocator_impl.h>
#include <dispenso/once_function.h>

#include <cstdint>
#include <cstring>
#include <new>
#include <type_traits>

#include "../ctl/ctl.h"
#include "../ctl/drv_common.h"

using ctl::Json;
using dispenso::OnceFunction;

// ------------------------------------------------------------------- malloc/free observation (--wrap)
// Linked with -Wl,--wrap=malloc,--wrap=free.  While g_watch is set (only around one OnceFunction
// operation) every malloc'd pointer is remembered and every free is matched against the remembered ones:
// the storage of callables beyond the small-buffer classes comes from alignedMalloc/alignedFree.
extern "C" void* __real_malloc(size_t);
extern "C" void __real_free(void*);
static bool g_watch = false;
static void* g_heapLive[16];
static int g_heapN = 0;
static int g_strayFrees = 0;
extern "C" void* __wrap_malloc(size_t n) {
  void* p = __real_malloc(n);
  if (g_watch && p && g_heapN < 16)
    g_heapLive[g_heapN++] = p;
  return p;
}
extern "C" void __wrap_free(void* p) {
  if (g_watch && p) {
    int i = 0;
    while (i < g_heapN && g_heapLive[i] != p)
      ++i;
    if (i < g_heapN)
      g_heapLive[i] = g_heapLive[--g_heapN];
    else
      ++g_strayFrees;
  }
  __real_free(p);
}
struct Watch {
  Watch() {
    g_watch = true;
  }
  ~Watch() {
    g_watch = false;
  }
};

// ------------------------------------------------------------------------------- tracked callable
struct Stat {
  int invoked = 0, live = 0, dtor = 0, intact = 1;
  uintptr_t lastCtor = 0, callAddr = 0, dtorAddr = 0;
  // re-entrancy: 0 plain payload; 1 operator() and the destructor create a nested OnceFunction of the same
  // sizeof/alignof and invoke it; 2 the same, consumed with cleanupNotRun()
  int reent = 0;
  int nover = 0, nbad = 0, nlive = 0, ninv = 0, ndtor = 0;
  // blocks outstanding (per small-buffer class / heap) sampled inside operator() and at the end of ~Callable
  long long iout[7] = {0, 0, 0, 0, 0, 0, 0}, dout[7] = {0, 0, 0, 0, 0, 0, 0};
  int ilout = 0, dlout = 0;
};
static Stat g_stat[256];
static int g_husks = 0;
static int g_nids = 0;

struct ClassObs {
  char** buf;
  size_t* count;
  long long base;
};
static ClassObs g_cls[7];
static void sampleOwned(long long (&o)[7], int& lo) {
  for (int k = 0; k < 7; ++k)
    o[k] = g_cls[k].base - (long long)*g_cls[k].count;
  lo = g_heapN;
}

// ------------------------------------------------------------------------------ nested callable
// What a re-entrant payload stores into a second OnceFunction while it is being invoked / destroyed: same
// sizeof and alignof as the payload, so OnceFunction takes the same storage decision and - for spilled
// storage - the same size class from the same thread cache.  bytes[0]: 1 = value, 0 = moved-from husk.
static int g_nestOwner = 0;
static uintptr_t g_nestAddr = 0;
static inline unsigned char npat(size_t i) {
  return (unsigned char)(0xa5 ^ (i * 13));
}
template <size_t S, size_t A>
struct alignas(A) Nested {
  unsigned char bytes[S];
  Nested() {
    bytes[0] = 1;
    for (size_t i = 1; i < S; ++i)
      bytes[i] = npat(i);
    ++g_stat[g_nestOwner].nlive;
  }
  Nested(Nested&& o) noexcept {
    std::memcpy(bytes, o.bytes, S);
    if (bytes[0] == 1) {
      o.bytes[0] = 0;
      g_nestAddr = reinterpret_cast<uintptr_t>(this);
    }
  }
  Nested(const Nested&) = delete;
  Nested& operator=(const Nested&) = delete;
  ~Nested() {
    if (bytes[0] == 0)
      return;
    Stat& s = g_stat[g_nestOwner];
    --s.nlive;
    ++s.ndtor;
    check(s);
  }
  void operator()() {
    Stat& s = g_stat[g_nestOwner];
    ++s.ninv;
    check(s);
  }

 private:
  void check(Stat& s) const {
    if (bytes[0] != 1)
      ++s.nbad;
    for (size_t i = 1; i < S; ++i)
      if (bytes[i] != npat(i))
        ++s.nbad;
  }
};

// called from inside Callable<S, A>::operator() / ~Callable<S, A>() (self = that callable, still alive)
template <class N, size_t S>
static void reenterWith(int id, const void* self) {
  Stat& s = g_stat[id];
  int savedOwner = g_nestOwner;
  g_nestOwner = id;
  g_nestAddr = 0;
  {
    OnceFunction n{N()}; // takes a block of the same class from this thread's cache / the heap
    uintptr_t lo = g_nestAddr, me = reinterpret_cast<uintptr_t>(self);
    if (lo == 0 || (lo < me + S && me < lo + S))
      ++s.nover; // constructed on top of a callable that is still alive
    if (s.reent == 1)
      n();
    else
      n.cleanupNotRun();
  }
  g_nestOwner = savedOwner;
}
template <size_t S, size_t A>
static void reenter(int id, const void* self) {
  reenterWith<Nested<S, A>, S>(id, self);
}

static inline unsigned char pat(int id, size_t i) {
  return (unsigned char)(id * 31 + i * 7 + 3);
}

// bytes[0]: id (1..127), |0x80 = prototype (an lvalue the driver copies from; not counted), 0 = husk
template <size_t S, size_t A>
struct alignas(A) Callable {
  unsigned char bytes[S];
  explicit Callable(int id, bool proto = false) {
    fill(id);
    if (proto)
      bytes[0] = (unsigned char)(id | 0x80);
    else
      born(id);
  }
  Callable(const Callable& o) {
    int id = o.bytes[0] & 0x7f;
    std::memcpy(bytes, o.bytes, S);
    bytes[0] = (unsigned char)id;
    if (id)
      born(id);
    else
      ++g_husks;
  }
  Callable(Callable&& o) noexcept {
    int id = o.bytes[0] & 0x7f;
    bool proto = (o.bytes[0] & 0x80) != 0;
    std::memcpy(bytes, o.bytes, S);
    bytes[0] = (unsigned char)id;
    if (id)
      born(id);
    else
      ++g_husks;
    if (!proto && id) { // the source becomes a husk
      o.bytes[0] = 0;
      --g_stat[id].live;
      ++g_husks;
    }
  }
  Callable& operator=(const Callable&) = delete;
  ~Callable() {
    int id = bytes[0];
    if (id & 0x80)
      return; // prototype
    if (id == 0) {
      --g_husks;
      return;
    }
    --g_stat[id].live;
    ++g_stat[id].dtor;
    g_stat[id].dtorAddr = reinterpret_cast<uintptr_t>(this);
    if (g_stat[id].reent)
      reenter<S, A>(id, this); // a member's destructor that schedules follow-up work of the same size class
    sampleOwned(g_stat[id].dout, g_stat[id].dlout); // is this callable's block still taken?
    // the bytes must be intact up to the very end of the destruction (also when the callable is destroyed
    // without being invoked, and after whatever was allocated, written and released during the destruction)
    check(id);
  }
  void operator()() {
    int id = bytes[0] & 0x7f;
    ++g_stat[id].invoked;
    g_stat[id].callAddr = reinterpret_cast<uintptr_t>(this);
    if (g_stat[id].reent)
      reenter<S, A>(id, this);
    sampleOwned(g_stat[id].iout, g_stat[id].ilout);
    check(id);
  }

 private:
  void check(int id) const {
    for (size_t i = 1; i < S; ++i)
      if (bytes[i] != pat(id, i))
        g_stat[id].intact = 0;
  }
  void fill(int id) {
    bytes[0] = (unsigned char)id;
    for (size_t i = 1; i < S; ++i)
      bytes[i] = pat(id, i);
  }
  void born(int id) {
    ++g_stat[id].live;
    g_stat[id].lastCtor = reinterpret_cast<uintptr_t>(this);
  }
};

// ------------------------------------------------------------------- callable WITHOUT data members
// std::is_empty callable types (sizeof 1, alignof 1 - the lower end of the property's size range) whose
// constructions, moves, invocations and destructions are nevertheless OBSERVABLE: a guard / tracer object that
// books through statics (an outstanding-work counter, a scope tracer).  "No data members" does not mean "nothing
// to tear down": C39's "destroyed exactly once after the call / by cleanupNotRun" holds for them like for every
// other callable, and an implementation that treats "stateless" callables specially (skips the destructor call,
// never constructs them, constructs them twice) is only seen with such a type - every Callable<S, A> has bytes[S].
// Nothing can be stored inside the object, so identity is kept outside of it: per tag type the id of the value
// that is currently carried, the address of the lvalue prototype and the addresses of the moved-from husks (an
// empty object still has an address of its own; OnceFunction relocates the VALUE bitwise, which is why the value
// is "whatever is neither the prototype nor a husk").  Three tag types, since up to three registers are armed at
// the same time: Create takes a tag that no armed register holds.
struct AddrSet {
  uintptr_t a[8];
  int n = 0;
  bool has(const void* p) const {
    for (int i = 0; i < n; ++i)
      if (a[i] == reinterpret_cast<uintptr_t>(p))
        return true;
    return false;
  }
  void add(const void* p) {
    if (n < 8)
      a[n++] = reinterpret_cast<uintptr_t>(p);
  }
  bool del(const void* p) {
    for (int i = 0; i < n; ++i)
      if (a[i] == reinterpret_cast<uintptr_t>(p)) {
        a[i] = a[--n];
        return true;
      }
    return false;
  }
};
struct EState {
  int id = 0;        // the callable id the value of this tag type carries (stays after its destruction: a second
                     // destruction is booked on the same id)
  bool armed = false; // driver knowledge: a register owns it
  const void* proto = nullptr;
  int protoId = 0;
  AddrSet husks;
};
static constexpr int kETags = 3;
static EState g_e[kETags];

// nested callable of a re-entrant empty payload: empty as well (same sizeof/alignof, same storage decision)
static AddrSet g_nestHusks;
struct NestedEmpty {
  NestedEmpty() {
    ++g_stat[g_nestOwner].nlive;
  }
  NestedEmpty(NestedEmpty&& o) noexcept {
    if (g_nestHusks.has(&o)) {
      g_nestHusks.add(this);
      return;
    }
    g_nestHusks.add(&o);
    g_nestAddr = reinterpret_cast<uintptr_t>(this);
  }
  NestedEmpty(const NestedEmpty&) = delete;
  NestedEmpty& operator=(const NestedEmpty&) = delete;
  ~NestedEmpty() {
    if (g_nestHusks.del(this))
      return;
    Stat& s = g_stat[g_nestOwner];
    --s.nlive;
    ++s.ndtor;
  }
  void operator()() {
    ++g_stat[g_nestOwner].ninv;
  }
};

template <int T>
struct EmptyCallable {
  explicit EmptyCallable(int id, bool proto = false) {
    EState& e = g_e[T];
    if (proto) {
      e.proto = this;
      e.protoId = id;
    } else {
      e.id = id;
      born(id);
    }
  }
  EmptyCallable(const EmptyCallable& o) {
    EState& e = g_e[T];
    int id = idOf(&o);
    if (&o == e.proto)
      e.id = id;
    if (id)
      born(id);
    else {
      ++g_husks;
      e.husks.add(this);
    }
  }
  EmptyCallable(EmptyCallable&& o) noexcept {
    EState& e = g_e[T];
    int id = idOf(&o);
    bool proto = &o == e.proto;
    if (proto)
      e.id = id;
    if (id)
      born(id);
    else {
      ++g_husks;
      e.husks.add(this);
    }
    if (!proto && id) { // the source becomes a husk
      e.husks.add(&o);
      --g_stat[id].live;
      ++g_husks;
    }
  }
  EmptyCallable& operator=(const EmptyCallable&) = delete;
  ~EmptyCallable() {
    EState& e = g_e[T];
    if (this == e.proto) {
      e.proto = nullptr;
      return;
    }
    if (e.husks.del(this)) {
      --g_husks;
      return;
    }
    int id = e.id;
    if (id == 0) { // something that was never constructed is destroyed
      --g_husks;
      return;
    }
    --g_stat[id].live;
    ++g_stat[id].dtor;
    g_stat[id].dtorAddr = reinterpret_cast<uintptr_t>(this);
    if (g_stat[id].reent)
      reenterWith<NestedEmpty, 1>(id, this);
    sampleOwned(g_stat[id].dout, g_stat[id].dlout);
  }
  void operator()() {
    int id = g_e[T].id;
    ++g_stat[id].invoked;
    g_stat[id].callAddr = reinterpret_cast<uintptr_t>(this);
    if (g_stat[id].reent)
      reenterWith<NestedEmpty, 1>(id, this);
    sampleOwned(g_stat[id].iout, g_stat[id].ilout);
  }

 private:
  static int idOf(const void* p) {
    const EState& e = g_e[T];
    if (p == e.proto)
      return e.protoId;
    if (e.husks.has(p))
      return 0;
    return e.id;
  }
  void born(int id) {
    ++g_stat[id].live;
    g_stat[id].lastCtor = reinterpret_cast<uintptr_t>(this);
  }
};
static_assert(std::is_empty<EmptyCallable<0>>::value && sizeof(EmptyCallable<0>) == 1 &&
                  alignof(EmptyCallable<0>) == 1 && !std::is_trivially_destructible<EmptyCallable<0>>::value,
              "the member-less callable must be an empty class with an observable destructor");

// ------------------------------------------------------------------------------------- type table
struct TypeInfo {
  size_t size, align; // sizeof / alignof of the callable type
  // constructs into *r; variant 1 constructs a second OnceFunction in *scratch first and move-assigns it.
  // Returns the object the callable was constructed into.
  OnceFunction* (*create)(OnceFunction* r, OnceFunction* scratch, int id, int variant);
  bool empty = false; // std::is_empty callable (no data members)
};

template <class C>
static OnceFunction* createWith(OnceFunction* r, OnceFunction* scratch, int id, int variant) {
  switch (variant % 3) {
    case 0: // construct in place from a temporary
      new (r) OnceFunction(C(id));
      return r;
    case 1: // construct another OnceFunction, move-assign it
      new (scratch) OnceFunction(C(id));
      *r = std::move(*scratch);
      return scratch;
    default: { // construct from an lvalue (copies the callable)
      C proto(id, true);
      new (r) OnceFunction(proto);
      return r;
    }
  }
}

template <size_t S, size_t A>
static OnceFunction* createFn(OnceFunction* r, OnceFunction* scratch, int id, int variant) {
  return createWith<Callable<S, A>>(r, scratch, id, variant);
}
// the member-less callable: the tag type no armed register holds
static OnceFunction* createEmpty(OnceFunction* r, OnceFunction* scratch, int id, int variant) {
  int t = 0;
  while (t < kETags - 1 && g_e[t].armed)
    ++t;
  g_e[t] = EState();
  g_e[t].armed = true;
  switch (t) {
    case 0:
      return createWith<EmptyCallable<0>>(r, scratch, id, variant);
    case 1:
      return createWith<EmptyCallable<1>>(r, scratch, id, variant);
    default:
      return createWith<EmptyCallable<2>>(r, scratch, id, variant);
  }
}

static std::vector<TypeInfo> g_types;
template <size_t S, size_t A>
static void addType() {
  using C = Callable<S, A>;
  g_types.push_back({sizeof(C), alignof(C), &createFn<S, A>, false});
}
template <size_t S>
static void addSize() {
  addType<S, 1>();
  addType<S, 2>();
  addType<S, 4>();
  addType<S, 8>();
  addType<S, 16>();
  addType<S, 32>();
  addType<S, 64>();
  addType<S, 128>();
  addType<S, 256>();
}
// beyond the 11 x 9 + 1 rotation (directed re-entrant executions only): callables of the next heap size class
static size_t g_rotTypes = 0;
static void buildTypes() {
  addSize<1>();
  addSize<8>();
  addSize<48>();
  addSize<56>();
  addSize<57>();
  addSize<64>();
  addSize<120>();
  addSize<128>();
  addSize<200>();
  addSize<256>();
  addSize<300>();
  // + the member-less callable (sizeof 1, alignof 1 like Callable<1, 1>, but std::is_empty)
  g_types.push_back({sizeof(EmptyCallable<0>), alignof(EmptyCallable<0>), &createEmpty, true});
  g_rotTypes = g_types.size();
  addType<600, 8>();
  addType<1000, 64>();
}

// ------------------------------------------------------------------- small buffer cache observation
template <size_t K>
static void initClass(int ord) {
  char* p = dispenso::allocSmallBuffer<K>(); // warm up: the thread cache now holds a full grab
  dispenso::deallocSmallBuffer<K>(p);
  auto bnc = dispenso::detail::SmallBufferAllocator<K>::buffersAndCount();
  g_cls[ord].buf = std::get<0>(bnc);
  g_cls[ord].count = &std::get<1>(bnc);
}
static void initClasses() {
  initClass<4>(0);
  initClass<8>(1);
  initClass<16>(2);
  initClass<32>(3);
  initClass<64>(4);
  initClass<128>(5);
  initClass<256>(6);
}

// ---------------------------------------------------------------------------------------- executor
static constexpr int kRegs = 3;
struct Exec {
  alignas(64) unsigned char store[kRegs][sizeof(OnceFunction)];
  alignas(64) unsigned char scratch[sizeof(OnceFunction)];
  int regId[kRegs] = {0, 0, 0}; // program-generation knowledge: which callable the register owns (0: none)
  ctl::Trace& tr;
  uint64_t& rng;
  size_t& typeCursor;
  explicit Exec(ctl::Trace& t, uint64_t& r, size_t& tc) : tr(t), rng(r), typeCursor(tc) {}

  OnceFunction* R(int f) {
    return reinterpret_cast<OnceFunction*>(store[f]);
  }
  static bool inObj(const void* o, uintptr_t a) {
    uintptr_t lo = reinterpret_cast<uintptr_t>(o);
    return a >= lo && a < lo + sizeof(OnceFunction);
  }
  bool inReg(int f, uintptr_t a) {
    return inObj(store[f], a);
  }

  void begin(const std::string& tag) {
    for (int f = 0; f < kRegs; ++f) {
      new (R(f)) OnceFunction();
      regId[f] = 0;
    }
    for (int i = 0; i < 256; ++i)
      g_stat[i] = Stat();
    g_husks = 0;
    for (auto& e : g_e)
      e = EState();
    g_nestHusks = AddrSet();
    g_nids = 0;
    g_heapN = 0;
    g_strayFrees = 0;
    for (auto& c : g_cls)
      c.base = (long long)*c.count;
    Json j;
    j.beginObj();
    j.kv("e", std::string("Reset"));
    j.kv("tag", tag);
    j.key("regs").beginArr().str("f1").str("f2").str("f3").endArr();
    j.endObj();
    tr.line(j.s);
  }

  void obs(Json& j) {
    j.key("inv").beginArr();
    for (int i = 1; i <= g_nids; ++i)
      j.num(g_stat[i].invoked);
    j.endArr();
    j.key("live").beginArr();
    for (int i = 1; i <= g_nids; ++i)
      j.num(g_stat[i].live);
    j.endArr();
    j.key("dtor").beginArr();
    for (int i = 1; i <= g_nids; ++i)
      j.num(g_stat[i].dtor);
    j.endArr();
    j.kv("husks", g_husks);
    j.key("out").beginArr();
    for (auto& c : g_cls)
      j.num(c.base - (long long)*c.count);
    j.endArr();
    j.kv("lout", g_heapN);        // heap blocks malloc'd inside OnceFunction operations and not freed yet
    j.kv("stray", g_strayFrees);  // frees inside OnceFunction operations of blocks not malloc'd by them
  }

  static std::string regName(int f) {
    return "f" + std::to_string(f + 1);
  }

  bool canCreate(int f) const {
    return regId[f] == 0 && g_nids < 120;
  }
  // directed executions choose the type and the re-entrancy mode themselves
  int forceType = -1, forceReent = -1;
  void create(int f) {
    // the re-entrancy mode changes with every round of the type rotation: every type gets every mode
    size_t cur = typeCursor++;
    const TypeInfo& ti = forceType >= 0 ? g_types[(size_t)forceType] : g_types[cur % g_rotTypes];
    int reent = forceReent >= 0 ? forceReent : (int)((cur / g_rotTypes) % 3);
    int variant = (int)(ctl::splitmix(rng) % 3);
    int id = ++g_nids;
    g_stat[id].reent = reent;
    OnceFunction* origin;
    {
      Watch w;
      origin = ti.create(R(f), reinterpret_cast<OnceFunction*>(scratch), id, variant);
    }
    regId[f] = id;
    uintptr_t a = g_stat[id].lastCtor;
    Json j;
    j.beginObj();
    j.kv("e", std::string("Create"));
    j.kv("t", regName(f));
    j.kv("id", id);
    j.kv("size", (long long)ti.size);
    j.kv("align", (long long)ti.align);
    j.kv("var", variant);
    j.kv("re", reent);
    j.kv("empty", ti.empty ? 1 : 0);
    j.kv("kind", std::string(inObj(origin, a) ? "inline" : "spill"));
    j.kv("amod", (long long)(a % ti.align));
    j.kv("m512", (long long)(a % 512));
    obs(j);
    j.endObj();
    tr.line(j.s);
    regAlign[f] = ti.align;
  }

  size_t regAlign[kRegs] = {1, 1, 1};

  bool canMove(int f, int g) const {
    return f != g && regId[f] != 0 && regId[g] == 0;
  }
  void move(int f, int g) {
    int variant = (int)(ctl::splitmix(rng) % 2);
    {
      Watch w;
      if (variant == 0)
        new (R(g)) OnceFunction(std::move(*R(f)));
      else
        *R(g) = std::move(*R(f));
    }
    regId[g] = regId[f];
    regAlign[g] = regAlign[f];
    regId[f] = 0;
    Json j;
    j.beginObj();
    j.kv("e", std::string("Move"));
    j.kv("t", regName(f));
    j.kv("g", regName(g));
    j.kv("var", variant);
    obs(j);
    j.endObj();
    tr.line(j.s);
  }

  bool canConsume(int f) const {
    return regId[f] != 0;
  }
  void consume(int f, bool run) {
    int id = regId[f];
    size_t al = regAlign[f];
    {
      Watch w;
      if (run)
        (*R(f))();
      else
        R(f)->cleanupNotRun();
    }
    regId[f] = 0;
    for (auto& e : g_e)
      if (e.armed && e.id == id)
        e.armed = false;
    const Stat& s = g_stat[id];
    Json j;
    j.beginObj();
    j.kv("e", std::string(run ? "Call" : "Cleanup"));
    j.kv("t", regName(f));
    j.kv("id", id);
    j.kv("amod", (long long)((run ? s.callAddr : s.dtorAddr) % al));
    j.kv("dmod", (long long)(s.dtorAddr % al));
    j.kv("intact", s.intact);
    j.kv("where", std::string(inReg(f, s.dtorAddr) ? "reg" : (s.dtorAddr == s.lastCtor ? "same" : "other")));
    j.key("topeq").beginArr();
    for (auto& c : g_cls)
      j.num((*c.count > 0 && reinterpret_cast<uintptr_t>(c.buf[*c.count - 1]) == s.dtorAddr) ? 1 : 0);
    j.endArr();
    // storage owned until destruction ends: blocks outstanding as seen from inside operator() / at the end of
    // the destructor, and what the nested OnceFunctions of a re-entrant payload saw
    if (run) {
      j.key("iout").beginArr();
      for (int k = 0; k < 7; ++k)
        j.num(s.iout[k]);
      j.endArr();
      j.kv("ilout", s.ilout);
    }
    j.key("dout").beginArr();
    for (int k = 0; k < 7; ++k)
      j.num(s.dout[k]);
    j.endArr();
    j.kv("dlout", s.dlout);
    j.kv("re", s.reent);
    j.kv("nover", s.nover);
    j.kv("nbad", s.nbad);
    j.kv("nlive", s.nlive);
    j.kv("ninv", s.ninv);
    j.kv("ndtor", s.ndtor);
    obs(j);
    j.endObj();
    tr.line(j.s);
  }

  // returns false if the step is not legal in the current state (a replayed schedule never is)
  bool apply(const std::string& reg, const std::string& action) {
    int f = atoi(reg.c_str() + 1) - 1;
    if (f < 0 || f >= kRegs)
      return false;
    if (action == "Create") {
      if (!canCreate(f))
        return false;
      create(f);
    } else if (action.rfind("MoveToF", 0) == 0) {
      int g = atoi(action.c_str() + 7) - 1;
      if (g < 0 || g >= kRegs || !canMove(f, g))
        return false;
      move(f, g);
    } else if (action == "Call" || action == "Cleanup") {
      if (!canConsume(f))
        return false;
      consume(f, action == "Call");
    } else
      return false;
    return true;
  }

  // end of an execution: whatever is still armed is cleaned up (not part of the validated sequence's
  // model path, but a legal continuation: recorded and validated like every other operation)
  void finish() {
    for (int f = 0; f < kRegs; ++f)
      if (regId[f])
        consume(f, (ctl::splitmix(rng) & 1) != 0);
  }
};

int main(int argc, char** argv) {
  drv::Args a(argc, argv);
  buildTypes();
  initClasses();
  ctl::Trace tr(a.str("out", "trace.ndjson"));
  uint64_t seed = (uint64_t)a.num("seed", 1);
  uint64_t rng = seed * 0x9e3779b97f4a7c15ULL + 77;
  size_t typeCursor = (size_t)(seed * 37);
  drv::Totals tot;
  long long creates = 0;
  if (a.has("schedules")) {
    auto scheds = ctl::readSchedules(a.str("schedules"));
    long long passes = a.num("passes", 1);
    for (long long p = 0; p < passes; ++p) {
      size_t idx = 0;
      for (auto& s : scheds) {
        Exec ex(tr, rng, typeCursor);
        ex.begin("pass" + std::to_string(p) + "_sched" + std::to_string(idx++));
        ctl::RunResult r;
        r.completed = true;
        for (auto& st : s) {
          if (!ex.apply(st.thread, st.action)) {
            r.completed = false;
            r.diverged = true;
            Json j;
            j.beginObj();
            j.kv("e", std::string("Diverged"));
            j.kv("detail", st.thread + ":" + st.action + " is not possible here");
            j.endObj();
            tr.line(j.s);
            break;
          }
          ++r.steps;
        }
        ex.finish();
        creates += g_nids;
        tot.add(r);
      }
    }
  } else if (a.has("reentrant")) {
    // Directed: the storage of a spilled callable must stay owned while the callable runs and until its
    // destructor has returned, for every storage class and on every way a OnceFunction is consumed.  Every
    // type x both nested-consume modes x
    //   0 Create, Call                       1 Create, Cleanup
    //   2 Create, Move, Call                 3 Create, Move, Move, Cleanup
    //   4 Create, Create (same class: two blocks taken), Call the OLDER one (its block is not the one a LIFO
    //     cache would hand out next on correct code - it is, if it was released too early), Move + Cleanup the other
    static const char* const kPaths[5][5][2] = {
        {{"f1", "Create"}, {"f1", "Call"}},
        {{"f1", "Create"}, {"f1", "Cleanup"}},
        {{"f1", "Create"}, {"f1", "MoveToF2"}, {"f2", "Call"}},
        {{"f1", "Create"}, {"f1", "MoveToF2"}, {"f2", "MoveToF3"}, {"f3", "Cleanup"}},
        {{"f1", "Create"}, {"f2", "Create"}, {"f1", "Call"}, {"f2", "MoveToF3"}, {"f3", "Cleanup"}}};
    for (size_t t = 0; t < g_types.size(); ++t)
      for (int mode = 1; mode <= 2; ++mode)
        for (int p = 0; p < 5; ++p) {
          Exec ex(tr, rng, typeCursor);
          ex.forceType = (int)t;
          ex.forceReent = mode;
          ex.begin("reent_t" + std::to_string(t) + "_m" + std::to_string(mode) + "_p" + std::to_string(p));
          ctl::RunResult r;
          r.completed = true;
          for (int k = 0; k < 5 && kPaths[p][k][0]; ++k) {
            if (!ex.apply(kPaths[p][k][0], kPaths[p][k][1])) {
              r.completed = false;
              r.diverged = true;
              break;
            }
            ++r.steps;
          }
          ex.finish();
          creates += g_nids;
          tot.add(r);
        }
  } else {
    long long n = a.num("random", 100);
    long long maxops = a.num("maxops", 12);
    for (long long i = 0; i < n; ++i) {
      Exec ex(tr, rng, typeCursor);
      ex.begin("rand" + std::to_string(seed) + "_" + std::to_string(i));
      ctl::RunResult r;
      r.completed = true;
      long long nops = 1 + (long long)(ctl::splitmix(rng) % (uint64_t)maxops);
      for (long long k = 0; k < nops; ++k) {
        // draw until a legal operation comes up (Create on a free register is always legal or some
        // register is armed)
        for (int tries = 0; tries < 64; ++tries) {
          int f = (int)(ctl::splitmix(rng) % kRegs);
          unsigned what = (unsigned)(ctl::splitmix(rng) % 8);
          std::string act;
          if (what < 3)
            act = "Create";
          else if (what < 5)
            act = "MoveToF" + std::to_string(1 + (int)(ctl::splitmix(rng) % kRegs));
          else if (what < 7)
            act = "Call";
          else
            act = "Cleanup";
          if (ex.apply(Exec::regName(f), act)) {
            ++r.steps;
            break;
          }
        }
      }
      ex.finish();
      creates += g_nids;
      tot.add(r);
    }
  }
  tr.flush();
  tot.print();
  printf("CREATES %lld TYPES %zu\n", creates, g_rotTypes);
  return 0;
}
